#!/bin/bash
# Confirms a seeded change independently: in a scratch worktree of /repo HEAD
#  1. the demo passes on the unchanged tree,
#  2. with the patch: builds, the pinned suite still passes (65 baseline tests), the demo FAILS.
# usage: tools/verify_seed.sh <dir with patch.diff demo_test.go meta.json>   -> prints one summary line
set -u
D="$1"; ID=$(basename "$D")
export GOFLAGS=-mod=mod GOPROXY=off GOSUMDB=off GOTOOLCHAIN=local; unset GOWORK
WT=$(mktemp -d /tmp/seedv-XXXXXX)
git -C /repo worktree add -f --detach "$WT" HEAD >/dev/null 2>&1 || { echo "$ID worktree-failed"; exit 2; }
trap 'git -C /repo worktree remove --force "$WT" >/dev/null 2>&1; rm -rf "$WT"' EXIT
PKG=$(jq -r .demo_pkg_dir "$D/meta.json" | sed 's#^\./##; s#/$##')
CMD=$(jq -r .demo_cmd "$D/meta.json")
[ -d "$WT/$PKG" ] || { echo "$ID bad-demo-pkg:$PKG"; exit 2; }
cp "$D/demo_test.go" "$WT/$PKG/zz_seed_demo_test.go"
clean=$(cd "$WT" && timeout 300 bash -c "$CMD" >/tmp/seedv-$ID-clean.log 2>&1; echo $?)
git -C "$WT" apply "$D/patch.diff" || { echo "$ID patch-does-not-apply"; exit 2; }
build=$(cd "$WT" && go build ./... >/dev/null 2>&1; echo $?)
patched=$(cd "$WT" && timeout 300 bash -c "$CMD" >/tmp/seedv-$ID-patched.log 2>&1; echo $?)
rm -f "$WT/$PKG/zz_seed_demo_test.go"
suite=$(/verif/tools/baseline.sh "$WT" | head -1)
echo "$ID demo_clean_rc=$clean build_rc=$build demo_patched_rc=$patched suite:[$suite]"
