#!/bin/bash
# Confirms that a refactoring patch builds and keeps the pinned suite passing.
# usage: tools/verify_refactor.sh <dir with patch.diff>
set -u
D="$1"; ID=$(basename "$D")
export GOFLAGS=-mod=mod GOPROXY=off GOSUMDB=off GOTOOLCHAIN=local; unset GOWORK
WT=$(mktemp -d /tmp/refv-XXXXXX)
git -C /repo worktree add -f --detach "$WT" HEAD >/dev/null 2>&1 || { echo "$ID worktree-failed"; exit 2; }
trap 'git -C /repo worktree remove --force "$WT" >/dev/null 2>&1; rm -rf "$WT"' EXIT
git -C "$WT" apply "$D/patch.diff" || { echo "$ID patch-does-not-apply"; exit 2; }
build=$(cd "$WT" && go build ./... >/dev/null 2>&1; echo $?)
suite=$(/verif/tools/baseline.sh "$WT" | head -1)
echo "$ID build_rc=$build suite:[$suite]"
