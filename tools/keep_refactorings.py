#!/usr/bin/env python3
"""Copies builder-confirmed behaviour-preserving edits into /verif/<dest>/<id>/."""
import json, os, re, shutil, sys
src, dest, results = sys.argv[1], sys.argv[2], sys.argv[3:]
for rf in results:
    for line in open(rf):
        m = re.match(r"(\S+) build_rc=(\d+) suite:\[(.*)\]", line.strip())
        if not m: continue
        rid, build, suite = m.groups()
        if build != "0" or "missing=0" not in suite:
            print("NOT CONFIRMED:", line.strip()); continue
        d = os.path.join("/verif", dest, rid); os.makedirs(d, exist_ok=True)
        shutil.copy(os.path.join(src, rid, "patch.diff"), os.path.join(d, "patch.diff"))
        meta = json.load(open(os.path.join(src, rid, "meta.json")))
        meta["confirmed_by_builder"] = {"how": "tools/verify_refactor.sh in a scratch worktree of /repo HEAD (removed afterwards): git apply, go build ./..., tools/baseline.sh (pinned suite)", "build_rc": int(build), "suite": suite}
        json.dump(meta, open(os.path.join(d, "meta.json"), "w"), indent=1)
