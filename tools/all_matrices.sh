#!/bin/bash
# Development helper: runs the four corpora against the current bin/pikelint.
# Seeded changes must be caught, refactorings / maintenance edits must be silent.
cd "$(dirname "$0")/.."
out="${1:-/tmp/mx}"
mkdir -p "$out"
for d in seeded seeded-heldout; do [ -d "$d" ] && SDIR="$PWD/$d" ./tools/seed_matrix.sh > "$out/$d.txt" 2>&1; done
for d in refactorings maintenance; do [ -d "$d" ] && RDIR="$PWD/$d" ./tools/refactor_matrix.sh > "$out/$d.txt" 2>&1; done
echo "seeds not caught by own property:"; cat "$out"/seeded*.txt 2>/dev/null | grep -v "CAUGHT-BY-OWN" | cut -c1-200
echo "false alarms:"; cat "$out"/refactorings.txt "$out"/maintenance.txt 2>/dev/null | grep -v " silent" | cut -c1-300
echo "totals:"; for f in "$out"/*.txt; do echo "$(basename $f): $(wc -l < $f) entries"; done
