#!/bin/bash
# Development helper: runs every registered check against every kept seeded change
# (each applied to its own scratch worktree outside /repo and /verif, removed
# afterwards) and prints which obligations fire. Also asserts silence on HEAD.
# usage: tools/seed_matrix.sh [seed-id ...]
set -u
cd "$(dirname "$0")/.."
export GOFLAGS=-mod=mod GOPROXY=off GOSUMDB=off GOTOOLCHAIN=local; unset GOWORK
export SDIR="${SDIR:-/verif/seeded}"
seeds=("$@"); [ ${#seeds[@]} -eq 0 ] && seeds=($(ls "$SDIR" | grep -v -e MATRIX -e FIRSTPASS))
one() {
  sid="$1"
  WT=$(mktemp -d /tmp/pl-mx-XXXXXX)
  git -C /repo worktree add -f --detach "$WT" HEAD >/dev/null 2>&1
  if ! git -C "$WT" apply "$SDIR/$sid/patch.diff" 2>/dev/null; then echo "$sid PATCH-DOES-NOT-APPLY"; else
    out=$("${PIKELINT:-/verif/bin/pikelint}" -repo "$WT" -property all -no-evidence -verif /verif 2>&1)
    fired=$(echo "$out" | grep -E "^  (VIOLATED|UNDECIDED)" | awk '{print $2}' | sort -u | tr '\n' ' ')
    own=${sid%%-*}
    if echo "$fired" | grep -q "$own/"; then v="CAUGHT-BY-OWN"; elif [ -n "$fired" ]; then v="caught-by-other"; else v="MISSED"; fi
    if echo "$out" | grep -q "internal error\|load error"; then v="CHECKER-ERROR"; fi
    echo "$sid $v :: $fired"
  fi
  git -C /repo worktree remove --force "$WT" >/dev/null 2>&1; rm -rf "$WT"
}
export -f one
printf "%s\n" "${seeds[@]}" | xargs -P ${PAR:-6} -I{} bash -c 'one {}' | sort
