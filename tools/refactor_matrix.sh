#!/bin/bash
# Development helper: every check must stay SILENT on each behaviour-preserving
# refactoring kept in /verif/refactorings (or the directory given in $RDIR); each
# is applied to its own scratch worktree outside /repo and /verif and removed.
# usage: tools/refactor_matrix.sh [id ...]
set -u
cd "$(dirname "$0")/.."
export GOFLAGS=-mod=mod GOPROXY=off GOSUMDB=off GOTOOLCHAIN=local; unset GOWORK
export RDIR="${RDIR:-/verif/refactorings}"
ids=("$@"); [ ${#ids[@]} -eq 0 ] && ids=($(ls "$RDIR" | grep -v -e MATRIX -e FIRSTPASS))
one() {
  sid="$1"
  WT=$(mktemp -d /tmp/pl-rf-XXXXXX)
  git -C /repo worktree add -f --detach "$WT" HEAD >/dev/null 2>&1
  if ! git -C "$WT" apply "$RDIR/$sid/patch.diff" 2>/dev/null; then echo "$sid PATCH-DOES-NOT-APPLY"; else
    out=$("${PIKELINT:-/verif/bin/pikelint}" -repo "$WT" -property all -no-evidence -verif /verif 2>&1)
    fired=$(echo "$out" | grep -E "^  (VIOLATED|UNDECIDED)" | awk '{print $1":"$2}' | sort -u | tr '\n' ' ')
    if echo "$out" | grep -q "internal error\|load error\|pikelint:.*error"; then echo "$sid CHECKER-ERROR :: $(echo "$out" | grep -m1 error)";
    elif [ -n "$fired" ]; then echo "$sid FALSE-ALARM :: $fired"; else echo "$sid silent"; fi
  fi
  git -C /repo worktree remove --force "$WT" >/dev/null 2>&1; rm -rf "$WT"
}
export -f one
printf "%s\n" "${ids[@]}" | xargs -P ${PAR:-6} -I{} bash -c 'one {}' | sort
