#!/usr/bin/env python3
"""Copies independently confirmed seeded changes from the agents' output directory
into /verif/seeded/<id>/ and records what the builder ran to confirm them."""
import json, os, re, shutil, sys
out, results = sys.argv[1], sys.argv[2:]
for rf in results:
    for line in open(rf):
        m = re.match(r"(C\d+-\w+) demo_clean_rc=(\d+) build_rc=(\d+) demo_patched_rc=(\d+) suite:\[(.*)\]", line.strip())
        if not m:
            print("skip:", line.strip()); continue
        sid, clean, build, patched, suite = m.groups()
        ok = clean == "0" and build == "0" and patched != "0" and "missing=0" in suite
        if not ok:
            print("NOT CONFIRMED:", line.strip()); continue
        src = os.path.join(out, sid); dst = os.path.join(os.environ.get("DEST", "/verif/seeded"), sid)
        os.makedirs(dst, exist_ok=True)
        for f in ("patch.diff", "demo_test.go"):
            shutil.copy(os.path.join(src, f), os.path.join(dst, f))
        meta = json.load(open(os.path.join(src, "meta.json")))
        meta["breaks_property"] = meta.get("property", sid[:3])
        meta["confirmed_by_builder"] = {
            "how": "tools/verify_seed.sh in a scratch worktree of /repo HEAD (removed afterwards): demo on the unchanged tree, then git apply patch.diff, go build ./..., demo again, tools/baseline.sh (the pinned suite)",
            "demo_unchanged_rc": int(clean), "build_rc": int(build), "demo_patched_rc": int(patched), "suite": suite,
        }
        json.dump(meta, open(os.path.join(dst, "meta.json"), "w"), indent=1)
        print("kept", sid)
