#!/usr/bin/env python3
"""Generates /verif/MANIFEST.json from tools/manifest_src.json (one entry per
property with the level text) so that the file stays schema-valid and in step
with the checks pikelint actually registers."""
import json, os, subprocess, sys
root = os.path.dirname(os.path.dirname(os.path.abspath(__file__)))
src = json.load(open(os.path.join(root, "tools", "manifest_src.json")))
props = [json.loads(l) for l in open(os.path.join(root, "properties.jsonl"))]
desc = json.loads(subprocess.check_output([os.path.join(root, "bin", "pikelint"), "-describe"]))
checks, na = [], []
for p in props:
    pid = p["id"]
    e = src["checks"].get(pid)
    if e is None and pid in desc:
        e = {}
    if e is not None and not e.get("not_applicable"):
        e.setdefault("text", "Static, exhaustive over the control-flow paths / value ranges / call sites of the anchored constructs. " + desc.get(pid, ""))
        e.setdefault("note", src["default_note"])
        e.setdefault("technique", src["default_technique"])
    if e is None or e.get("not_applicable"):
        na.append({"property_id": pid, "reason": (e or {}).get("not_applicable", "no static check is registered for this property yet")})
        continue
    checks.append({
        "property_id": pid,
        "quick_cmd": "./run.sh %s quick" % pid,
        "thorough_cmd": "./run.sh %s thorough" % pid,
        "evidence_file": "evidence/%s.json" % pid,
        "replay_cmd_template": "./run.sh --replay {path}",
        "engine": "pikelint",
        "level_claimed": {"category": "other", "text": e["text"], "design_ref": e.get("design_ref", "DESIGN.md §4 " + pid)},
        "level_note": e["note"],
        "technique": e["technique"],
    })
m = {
    "version": 1,
    "setup_cmd": "./setup.sh",
    "hooks": {
        "guard": "verif",
        "enable": "none: the analyses read unmodified source; no hook or instrumentation was added to vicanso/pike",
        "baseline_off_cmd": "./tools/baseline.sh",
        "source_commits": [],
        "add_only": True,
    },
    "engines": [{
        "name": "pikelint",
        "path": "checker/",
        "serves_properties": [c["property_id"] for c in checks],
        "kind_free_text": "repository-specific static analyser over go/packages + go/ssa (x/tools v0.29.0): path-sensitive dataflow with symbolic terms, interval refinement and predicate correlation (no solver, nothing executed), field-level lockset, call-graph and table rules",
    }],
    "checks": checks,
    "not_applicable": na,
    "notes": src.get("notes", ""),
}
json.dump(m, open(os.path.join(root, "MANIFEST.json"), "w"), indent=1)
print("MANIFEST.json: %d checks, %d not_applicable" % (len(checks), len(na)))
