#!/bin/bash
# Runs vicanso/pike's own test suite (no build tags: this project adds no hooks)
# and compares the passing tests with the stable list in /root/.vp/BASELINE.json.
# usage: tools/baseline.sh [repo-dir]
set -u
REPO="${1:-/repo}"
export GOFLAGS=-mod=mod GOPROXY=off GOSUMDB=off GOTOOLCHAIN=local
unset GOWORK
OUT="$(mktemp)"
(cd "$REPO" && go test -json -vet=off -count=1 -timeout 25m ./... > "$OUT" 2>/dev/null)
python3 - "$OUT" <<'PY'
import json,sys
passed=set()
for l in open(sys.argv[1]):
    try: e=json.loads(l)
    except Exception: continue
    if e.get("Action")=="pass" and e.get("Test") and "/" not in e["Test"]:
        passed.add(e["Package"]+"::"+e["Test"])
try:
    base=set(json.load(open("/root/.vp/BASELINE.json"))["stable_pass"])
except Exception:
    base=set()
missing=sorted(base-passed)
print("passed=%d baseline=%d missing=%d"%(len(passed),len(base),len(missing)))
for m in missing: print("MISSING",m)
sys.exit(1 if missing else 0)
PY
rc=$?
rm -f "$OUT"
exit $rc
