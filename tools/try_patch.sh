#!/bin/bash
# Development helper: apply one patch to a scratch worktree of /repo (outside
# /repo and /verif), check that it compiles, run pikelint on it, clean up.
# usage: tools/try_patch.sh <patch.diff> <property-list|all> [base-commit]
set -u
PATCH="$1"; PROPS="${2:-all}"; BASE="${3:-HEAD}"
export GOFLAGS=-mod=mod GOPROXY=off GOSUMDB=off GOTOOLCHAIN=local; unset GOWORK
WT=$(mktemp -d /tmp/pl-wt-XXXXXX)
git -C /repo worktree add -f --detach "$WT" "$BASE" >/dev/null 2>&1 || { echo "worktree failed"; exit 2; }
trap 'git -C /repo worktree remove --force "$WT" >/dev/null 2>&1; rm -rf "$WT"' EXIT
if [ "$PATCH" != "-" ]; then
  git -C "$WT" apply "$PATCH" || { echo "PATCH DOES NOT APPLY"; exit 2; }
fi
(cd "$WT" && go build ./... ) || { echo "DOES NOT COMPILE"; exit 2; }
BIN="${PIKELINT:-/verif/bin/pikelint}"
"$BIN" -repo "$WT" -property "$PROPS" -no-evidence -verif /verif 2>/dev/null | sed "s#$WT/##g" | cut -c1-${WIDTH:-400}
