package main

// Rules added in answer to the fourth held-out round of seeded changes.

import (
	"fmt"
	"go/types"
	"strings"

	"golang.org/x/tools/go/analysis"
	"golang.org/x/tools/go/analysis/checker"
	"golang.org/x/tools/go/analysis/passes/loopclosure"
	"golang.org/x/tools/go/ssa"
)

// ruleLoopClosures runs x/tools' loopclosure analysis: pike's go.mod says go 1.16,
// so a loop variable is shared by all iterations and a goroutine or deferred
// function literal that captures it sees the last element only (e.g. closing
// only one of several removed servers).
func ruleLoopClosures(c *Ctx) {
	run := func(p *Program) (int, []string, error) {
		g, err := checker.Analyze([]*analysis.Analyzer{loopclosure.Analyzer}, p.Pkgs, nil)
		if err != nil {
			return 0, nil, err
		}
		n := 0
		out := []string{}
		for _, act := range g.Roots {
			n++
			if act.Err != nil {
				return n, nil, act.Err
			}
			for _, d := range act.Diagnostics {
				out = append(out, fmt.Sprintf("%s: %s (go 1.16 loop semantics: every iteration's goroutine sees the last element)", p.pos(d.Pos), d.Message))
			}
		}
		return n, out, nil
	}
	n, bad, err := run(c.P)
	if err != nil {
		c.undecided("loop-closures", "pike", "-", "loopclosure analysis failed: "+err.Error())
		return
	}
	if fx := c.fixture(); fx == nil {
		c.undecided("loop-closures", "pike", "-", "positive-control fixture could not be loaded")
		return
	} else if _, fb, ferr := run(fx); ferr != nil || len(fb) == 0 {
		c.undecided("loop-closures", "pike", "-", "the analysis does not fire on its positive control (checker/fixture/fixturebad.CloseAll)")
		return
	}
	c.check(len(bad) == 0, "loop-closures", "pike", "-", fmt.Sprintf("%d packages analysed: no goroutine or deferred literal captures a loop variable (positive control fires)", n), strings.Join(uniq(bad), " || "), n+1)
}

// ruleEmptyResponseSection: the entry encoder writes a zero-length response
// section for an entry without a response (every hit-for-pass marker), so the
// response decoder must accept an empty section.
func ruleEmptyResponseSection(c *Ctx) {
	fn := c.P.Method("cache", "HTTPResponse", "FromBytes")
	if fn == nil {
		c.undecided("empty-response-section", "HTTPResponse.FromBytes", "-", "not found")
		return
	}
	name, pos := funcName(fn), c.P.pos(fn.Pos())
	n, empties := 0, 0
	bad := []string{}
	c.P.Simulate(fn, SimConfig{}, func(pr *PathResult) {
		n++
		data := &Term{Op: "sym", Name: "p:" + fn.Params[1].Name(), Type: fn.Params[1].Type()}
		k, isEmpty := pr.Facts.Decide(eqTerm(&Term{Op: "len", Type: tInt, Args: []*Term{data}}, intTerm(0)))
		if !(k && isEmpty) || len(pr.Results) != 1 {
			return
		}
		empties++
		if kk, isNil := pr.Facts.Decide(eqTerm(pr.Results[0], nilTerm(nil))); !(pr.Results[0].IsNil() || (kk && isNil)) {
			bad = append(bad, "an empty response section is rejected with "+prettyTerm(pr.Results[0])+": hit-for-pass markers (written without a response) can no longer be reloaded from the store")
		}
	})
	if empties == 0 {
		// no special case: an empty section then fails on the first read
		bad = append(bad, "the decoder has no path for an empty response section (written for every entry without a response)")
	}
	c.check(len(bad) == 0, "empty-response-section", name, pos, fmt.Sprintf("%d paths (%d for empty input): the empty section the entry encoder writes for a nil response decodes without error", n, empties), strings.Join(uniq(bad), " || "), n)
}

// ruleDecodersNoPrefilter: a decoder of package compress reports an error only
// after the codec library has been asked about the input; it does not reject
// streams on a check of its own (a magic-number test refuses valid streams the
// library accepts, e.g. zstd skippable frames).
func ruleDecodersNoPrefilter(c *Ctx) {
	roots := decoderRoots(c.P, map[string]bool{"compress": true})
	if len(roots) < 5 {
		c.undecided("decoders-no-prefilter", "compress", "-", fmt.Sprintf("only %d decoders found", len(roots)))
		return
	}
	codecPkgs := []string{"compress/gzip", "github.com/andybalholm/brotli", "github.com/pierrec/lz4", "github.com/golang/snappy", "github.com/klauspost/compress/zstd", "io/ioutil", "io"}
	n := 0
	bad := []string{}
	for _, fn := range roots {
		c.P.Simulate(fn, SimConfig{}, func(pr *PathResult) {
			n++
			if len(pr.Results) != 2 || pr.Results[1].IsNil() {
				return
			}
			if k, isNil := pr.Facts.Decide(eqTerm(pr.Results[1], nilTerm(nil))); k && isNil {
				return
			}
			asked := false
			for _, e := range pr.Events {
				if e.Kind != "call" && e.Kind != "invoke" {
					continue
				}
				nm := e.CalleeName()
				for _, p := range codecPkgs {
					if strings.Contains(nm, p+".") || strings.Contains(nm, p+")") {
						asked = true
					}
				}
				if e.Callee != nil && isPikeFunc(e.Callee) && e.Callee.Blocks != nil {
					asked = true // another decoder of this package does the work
				}
			}
			if !asked {
				bad = append(bad, fmt.Sprintf("%s returns the error %s without having handed the input to the codec library on path [%s]: streams the library would decode are rejected", funcName(fn), prettyTerm(pr.Results[1]), condString(pr.Conds)))
			}
		})
	}
	c.check(len(bad) == 0, "decoders-no-prefilter", "compress", "-", fmt.Sprintf("%d decoders, %d paths: every error comes after the codec library saw the input", len(roots), n), strings.Join(uniq(bad), " || "), n)
}

// ruleRewriteMatch: a rewrite rule is skipped only when its pattern does not
// match the path (the helper returns nil exactly then).
func ruleRewriteMatch(c *Ctx) {
	fn := c.P.Func("location", "captureTokens")
	if fn == nil {
		// the helper may have been inlined or renamed: nothing to pin
		gen := c.P.Func("location", "generateURLRewriter")
		if gen == nil {
			c.undecided("rewrite-match", "location", "-", "rewriter not found")
		}
		return
	}
	name, pos := funcName(fn), c.P.pos(fn.Pos())
	n, nils := 0, 0
	bad := []string{}
	c.P.Simulate(fn, SimConfig{MaxVisits: 2}, func(pr *PathResult) {
		n++
		if len(pr.Results) != 1 || !pr.Results[0].IsNil() {
			return
		}
		nils++
		var match *Term
		for _, e := range pr.Events {
			if e.Kind == "call" && e.Callee != nil && strings.HasPrefix(e.Callee.String(), "(*regexp.Regexp).Find") {
				match = e.Result
			}
		}
		if match == nil {
			bad = append(bad, "reports 'no match' without consulting the pattern on path ["+condString(pr.Conds)+"]")
			return
		}
		k1, isNil := pr.Facts.Decide(eqTerm(match, nilTerm(match.Type)))
		k2, isEmpty := pr.Facts.Decide(eqTerm(&Term{Op: "len", Type: tInt, Args: []*Term{match}}, intTerm(0)))
		if !((k1 && isNil) || (k2 && isEmpty)) {
			bad = append(bad, "reports 'no match' although the pattern may have matched (a rule without capture groups is skipped and the upstream gets the unrewritten path) on path ["+condString(pr.Conds)+"]")
		}
	})
	if nils == 0 {
		c.undecided("rewrite-match", name, pos, "no path reports 'no match': idiom not recognised")
		return
	}
	c.check(len(bad) == 0, "rewrite-match", name, pos, fmt.Sprintf("%d paths: nil is returned only when the pattern found nothing", n), strings.Join(uniq(bad), " || "), n)
}

// ruleStatusCallbackNonBlocking: the upstream status callback runs on the pool's
// single health-check goroutine; it must not make a network call of its own
// (an alarm receiver that hangs would stop all health checking).
func ruleStatusCallbackNonBlocking(c *Ctx) {
	upd := c.P.Func("", "update")
	if upd == nil {
		c.undecided("status-callback-nonblocking", "main.update", "-", "not found")
		return
	}
	// the function values passed to upstream.ResetWithOnStats / OnStatus
	var cbs []*ssa.Function
	for f := range staticScope(upd, "", 2) {
		for _, b := range f.Blocks {
			for _, in := range b.Instrs {
				ci, ok := in.(ssa.CallInstruction)
				if !ok {
					continue
				}
				sc := ci.Common().StaticCallee()
				if sc == nil || !inPkg(sc, "upstream") {
					continue
				}
				for _, a := range ci.Common().Args {
					switch x := a.(type) {
					case *ssa.MakeClosure:
						if fn, ok := x.Fn.(*ssa.Function); ok {
							cbs = append(cbs, fn)
						}
					case *ssa.Function:
						cbs = append(cbs, x)
					case *ssa.ChangeType:
						if fn, ok := x.X.(*ssa.Function); ok {
							cbs = append(cbs, fn)
						}
						if mc, ok := x.X.(*ssa.MakeClosure); ok {
							if fn, ok := mc.Fn.(*ssa.Function); ok {
								cbs = append(cbs, fn)
							}
						}
					}
				}
			}
		}
	}
	if len(cbs) == 0 {
		c.undecided("status-callback-nonblocking", funcName(upd), c.P.pos(upd.Pos()), "no status callback handed to package upstream found")
		return
	}
	bad := []string{}
	n := 0
	var walk func(f *ssa.Function, d int, seen map[*ssa.Function]bool)
	walk = func(f *ssa.Function, d int, seen map[*ssa.Function]bool) {
		if f == nil || f.Blocks == nil || seen[f] || d > 4 {
			return
		}
		seen[f] = true
		for _, b := range f.Blocks {
			for _, in := range b.Instrs {
				ci, ok := in.(ssa.CallInstruction)
				if !ok {
					continue
				}
				if _, isGo := in.(*ssa.Go); isGo {
					continue // handed to its own goroutine
				}
				n++
				sc := ci.Common().StaticCallee()
				if sc == nil {
					continue
				}
				s := sc.String()
				if strings.HasPrefix(s, "net/http.Post") || strings.HasPrefix(s, "net/http.Get") || strings.HasPrefix(s, "net/http.Head") || strings.HasPrefix(s, "(*net/http.Client).") || strings.HasPrefix(s, "net.Dial") {
					bad = append(bad, fmt.Sprintf("%s: %s calls %s synchronously from the upstream status callback: the callback runs on the pool's only health-check goroutine, so a slow or hanging receiver stops health checking (no recovery, no fail-over)", c.P.pos(in.Pos()), funcName(f), s))
				}
				if isPikeFunc(sc) {
					walk(sc, d+1, seen)
				}
			}
		}
	}
	for _, cb := range cbs {
		walk(cb, 0, map[*ssa.Function]bool{})
	}
	c.check(len(bad) == 0, "status-callback-nonblocking", funcName(upd), c.P.pos(upd.Pos()), fmt.Sprintf("%d status callbacks, %d calls reachable without a goroutine hand-off: none is a network call", len(cbs), n), strings.Join(uniq(bad), " || "), n)
}

// ruleStoreExactKey: Get, Set and Delete of every back end operate on the one
// record of their key: no prefix / range / bulk operation of the client library
// is used.
func ruleStoreExactKey(c *Ctx) {
	iface := c.P.NamedType("store", "Store")
	if iface == nil {
		c.undecided("store-exact-key", "store.Store", "-", "interface not found")
		return
	}
	it := iface.Underlying().(*types.Interface)
	bulk := map[string]bool{"DropPrefix": true, "DropAll": true, "NewIterator": true, "NewKeyIterator": true, "NewStream": true,
		"Keys": true, "Scan": true, "FlushDB": true, "FlushAll": true, "Unlink": false,
		"DeleteMany": true, "Drop": true, "Find": true, "UpdateMany": true}
	n := 0
	bad := []string{}
	for i := 0; i < it.NumMethods(); i++ {
		m := it.Method(i)
		if m.Name() == "Close" {
			continue
		}
		for _, impl := range c.P.implsOf(m) {
			for f := range staticScope(impl, "store", 3) {
				for _, b := range f.Blocks {
					for _, in := range b.Instrs {
						ci, ok := in.(ssa.CallInstruction)
						if !ok {
							continue
						}
						nm, pkg := "", ""
						if ci.Common().IsInvoke() {
							nm = ci.Common().Method.Name()
							if ci.Common().Method.Pkg() != nil {
								pkg = ci.Common().Method.Pkg().Path()
							}
						} else if sc := ci.Common().StaticCallee(); sc != nil {
							nm = sc.Name()
							if sc.Pkg != nil {
								pkg = sc.Pkg.Pkg.Path()
							}
						}
						if !(strings.Contains(pkg, "badger") || strings.Contains(pkg, "go-redis") || strings.Contains(pkg, "mongo-driver")) {
							continue
						}
						n++
						if bulk[nm] {
							bad = append(bad, fmt.Sprintf("%s: %s uses %s.%s, which works on a prefix / range / whole collection rather than the one record of the key (other keys' records are read or destroyed)", c.P.pos(in.Pos()), funcName(impl), pkg[strings.LastIndex(pkg, "/")+1:], nm))
						}
					}
				}
			}
		}
	}
	if n < 6 {
		c.undecided("store-exact-key", "store.Store", "-", fmt.Sprintf("only %d client-library calls found in the back ends", n))
		return
	}
	c.check(len(bad) == 0, "store-exact-key", "store.Store", "store/store.go", fmt.Sprintf("%d client-library calls in Get/Set/Delete of the three back ends: all single-record operations", n), strings.Join(uniq(bad), " || "), n)
}

// ruleLinearizableConfigRead: the etcd back end reads the configuration with a
// default (linearizable) Get: a serializable read may return the configuration
// before the last acknowledged save.
func ruleLinearizableConfigRead(c *Ctx) {
	n := 0
	bad := []string{}
	for _, f := range c.P.allFuncs {
		if !inPkg(f, "config") {
			continue
		}
		for _, b := range f.Blocks {
			for _, in := range b.Instrs {
				ci, ok := in.(ssa.CallInstruction)
				if !ok {
					continue
				}
				sc := ci.Common().StaticCallee()
				if sc == nil || sc.Pkg == nil || !strings.Contains(sc.Pkg.Pkg.Path(), "etcd") {
					continue
				}
				n++
				if sc.Name() == "WithSerializable" {
					bad = append(bad, fmt.Sprintf("%s: %s reads the configuration with WithSerializable(): the answer comes from one member's local state and may predate the last acknowledged save", c.P.pos(in.Pos()), funcName(f)))
				}
			}
		}
	}
	if n == 0 {
		c.undecided("config-read-linearizable", "config.etcdClient", "-", "no etcd client calls found")
		return
	}
	c.check(len(bad) == 0, "config-read-linearizable", "config.etcdClient", "config/etcd_client.go", fmt.Sprintf("%d etcd client calls: reads use the default linearizable mode", n), strings.Join(uniq(bad), " || "), n)
}
