package main

// Rules over the request path in package server: the cache middleware (closure
// returned by NewCache), the proxy middleware (closure returned by NewProxy),
// getCacheMaxAge, requestIsPass, getKey and the middleware chain.

import (
	"fmt"
	"go/types"
	"regexp/syntax"
	"sort"
	"strings"

	"golang.org/x/tools/go/ssa"
)

type serverAnchors struct {
	ok                    bool
	missing               []string
	cacheMW               *ssa.Function // closure returned by NewCache
	proxyMW               *ssa.Function // closure returned by NewProxy
	respMW                *ssa.Function // closure returned by NewResponder
	maxAge                *ssa.Function // getCacheMaxAge
	isPass                *ssa.Function
	getKey                *ssa.Function
	setStat               *ssa.Function
	setAge                *ssa.Function
	setResp               *ssa.Function
	getResp               *ssa.Function
	setMax                *ssa.Function
	getMax                *ssa.Function
	getStat               *ssa.Function
	start                 *ssa.Function
	cacheA                *cacheAnchors
	cacheable, hitForPass *ssa.Function
	getHTTPCache          *ssa.Function
}

func (p *Program) serverAnchors() *serverAnchors {
	a := &serverAnchors{}
	need := func(name string, f *ssa.Function) *ssa.Function {
		if f == nil {
			a.missing = append(a.missing, name)
		}
		return f
	}
	a.cacheMW = need("closure returned by server.NewCache", returnedClosure(p.Func("server", "NewCache")))
	a.proxyMW = need("closure returned by server.NewProxy", returnedClosure(p.Func("server", "NewProxy")))
	a.respMW = need("closure returned by server.NewResponder", returnedClosure(p.Func("server", "NewResponder")))
	a.maxAge = need("server.getCacheMaxAge", p.Func("server", "getCacheMaxAge"))
	a.isPass = need("server.requestIsPass", p.Func("server", "requestIsPass"))
	a.getKey = need("server.getKey", p.Func("server", "getKey"))
	a.setStat = need("server.setCacheStatus", p.Func("server", "setCacheStatus"))
	a.getStat = need("server.getCacheStatus", p.Func("server", "getCacheStatus"))
	a.setAge = need("server.setHTTPRespAge", p.Func("server", "setHTTPRespAge"))
	a.setResp = need("server.setHTTPResp", p.Func("server", "setHTTPResp"))
	a.getResp = need("server.getHTTPResp", p.Func("server", "getHTTPResp"))
	a.setMax = need("server.setHTTPCacheMaxAge", p.Func("server", "setHTTPCacheMaxAge"))
	a.getMax = need("server.getHTTPCacheMaxAge", p.Func("server", "getHTTPCacheMaxAge"))
	a.start = need("server.(*server).Start", p.Method("server", "server", "Start"))
	a.cacheA = p.cacheAnchors()
	if !a.cacheA.ok {
		a.missing = append(a.missing, a.cacheA.missing...)
	} else {
		for _, f := range a.cacheA.completions {
			for _, b := range f.Blocks {
				for _, in := range b.Instrs {
					if st, ok := in.(*ssa.Store); ok {
						if fa, ok := st.Addr.(*ssa.FieldAddr); ok && fieldOf(fa.X.Type(), fa.Field) == a.cacheA.fStatus {
							if cst, ok := st.Val.(*ssa.Const); ok && cst.Value != nil {
								if cst.Int64() == a.cacheA.stHit {
									a.cacheable = f
								} else if cst.Int64() == a.cacheA.stHFP {
									a.hitForPass = f
								}
							}
						}
					}
				}
			}
		}
		need("the completion storing StatusHit (Cacheable)", a.cacheable)
		need("the completion storing StatusHitForPass (HitForPass)", a.hitForPass)
	}
	a.getHTTPCache = need("cache.(*dispatcher).GetHTTPCache", p.Method("cache", "dispatcher", "GetHTTPCache"))
	a.ok = len(a.missing) == 0
	return a
}

// isFieldCall: a call through the function-valued field `field` (c.Next,
// upstream.Proxy).
func isFieldCall(e *Event, field string) bool {
	if e.Kind != "dyncall" || e.CalleeT == nil {
		return false
	}
	t := e.CalleeT
	return t.Op == "init" && len(t.Args) == 1 && t.Args[0].Op == "fa" && t.Args[0].Name == field
}

func inlineNested(root *ssa.Function) func(*ssa.Function, int) bool {
	return func(callee *ssa.Function, depth int) bool {
		for f := callee.Parent(); f != nil; f = f.Parent() {
			if f == root {
				return true
			}
		}
		return false
	}
}

func ext(t *Term, i int) *Term { return &Term{Op: "ext", Name: fmt.Sprint(i), Args: []*Term{t}} }

// ruleCacheMiddleware checks the closure returned by NewCache on every path,
// including the paths on which the downstream handler panics.
func ruleCacheMiddleware(c *Ctx, a *serverAnchors, want map[string]bool) {
	fn := a.cacheMW
	name, pos := "server.NewCache$handler", c.P.pos(fn.Pos())
	ca := a.cacheA
	found := map[string][]string{}
	report := func(rule, msg string) {
		if len(found[rule]) < 3 {
			found[rule] = append(found[rule], msg)
		}
	}
	seen := map[string]int{}
	n := 0
	statusConst := func(v int64) *Term {
		t := intTerm(v)
		t.Type = ca.fStatus.Type()
		return t
	}
	sim := c.P.Simulate(fn, SimConfig{Inline: orHelpers(fn, inlineNested(fn)), PanicAtDyncall: true}, func(pr *PathResult) {
		n++
		where := fmt.Sprintf("exit=%s path [%s]", pr.Exit, condString(pr.Conds))
		var G *Event
		nexts, completions := 0, 0
		var passCond *bool
		for _, l := range pr.Conds {
			if l.Atom.Op == "call" && l.Atom.Fn == a.isPass {
				v := l.Pol
				passCond = &v
			}
		}
		if passCond == nil {
			report("pass-methods", "the handler does not branch on requestIsPass on "+where)
			return
		}
		labels := []*Term{}
		firstNext, deferAt, getAt := -1, -1, -1
		var cacheableEv, hfpEv *Event
		type deferSite struct {
			at    int
			fn    *ssa.Function
			depth int
		}
		var defers []deferSite
		for i, e := range pr.Events {
			switch {
			case e.Kind == "call" && e.Callee == ca.Get:
				G, getAt = e, i
			case isFieldCall(e, "Next"):
				nexts++
				if firstNext < 0 {
					firstNext = i
				}
			case e.Kind == "defer" && (e.Depth == 0 || firstNext < 0):
				// the discharging defer: the deferred function (transitively, within package server) calls HitForPass.
				// It protects the downstream call when it is registered in the handler itself or in the
				// (inlined) function that makes that call.
				if e.Callee != nil && callsFunc(e.Callee, a.hitForPass, 2) {
					defers = append(defers, deferSite{i, e.Fn, e.Depth})
				}
			case e.Kind == "call" && e.Callee == a.setStat:
				labels = append(labels, e.Args[1])
			case e.Kind == "call" && e.Callee == a.cacheable:
				completions++
				cacheableEv = e
			case e.Kind == "call" && e.Callee == a.hitForPass:
				completions++
				hfpEv = e
			}
		}
		for _, d := range defers {
			if deferAt < 0 && (d.depth == 0 || (firstNext >= 0 && pr.Events[firstNext].Fn == d.fn)) {
				deferAt = d.at
			}
		}
		if *passCond {
			seen["pass"]++
			if G != nil {
				report("pass-methods", "a request that must bypass the cache reaches the entry lookup on "+where)
			}
			if nexts != 1 && pr.Exit == "return" {
				report("forward-once", fmt.Sprintf("pass request forwarded %d times on %s", nexts, where))
			}
			if len(labels) != 1 || labels[0].Key() != statusConst(ca.stPassed).Key() {
				report("label", "pass request is not labelled 'passed' exactly once on "+where)
			}
			if completions > 0 {
				report("completion-only-by-fetcher", "a pass request completes a cache entry on "+where)
			}
			return
		}
		if G == nil {
			// error before the lookup (no dispatcher)
			if nexts != 0 {
				report("forward-once", "forwards although no cache entry was looked up on "+where)
			}
			return
		}
		HC := G.Args[0]
		ST := ext(G.Result, 0)
		RESP := ext(G.Result, 1)
		// the entry is the dispatcher's entry for this request's key
		if !(HC.Op == "call" && HC.Fn == a.getHTTPCache && len(HC.Args) == 2 && HC.Args[1].Op == "call" && HC.Args[1].Fn == a.getKey) {
			report("entry-of-request-key", "the entry looked up is "+prettyTerm(HC)+", not GetHTTPCache(getKey(request)) on "+where)
		}
		// the dispatcher is resolved for this request from the server's current cache name
		if HC.Op == "call" && len(HC.Args) == 2 {
			d := HC.Args[0]
			okBind := d.Op == "call" && d.Fn != nil && d.Fn.Name() == "GetDispatcher" && len(d.Args) == 1 &&
				d.Args[0].Op == "call" && d.Args[0].Fn != nil && d.Args[0].Fn.Name() == "GetCache"
			if !okBind {
				report("cache-binding", "the cache used is "+prettyTerm(d)+", not the dispatcher looked up for this request under the server's current cache name (a cache re-bound, removed or re-created by a reload is not picked up) on "+where)
			}
		}
		isHitK, isHit := pr.Facts.Decide(eqTerm(ST, statusConst(ca.stHit)))
		isFetK, isFet := pr.Facts.Decide(eqTerm(ST, statusConst(ca.stFetching)))
		if len(labels) != 1 || labels[0].Key() != ST.Key() {
			if !(pr.Exit == "panic" && len(labels) <= 1) {
				report("label", "the cache-status label is not the status returned by the lookup on "+where)
			}
		}
		if isHitK && isHit {
			seen["hit"]++
			if nexts != 0 {
				report("hit-does-not-forward", "a hit is forwarded to the next handler (upstream contact on a hit) on "+where)
			}
			okResp, okAge := false, false
			for _, e := range pr.Events {
				if e.Kind == "call" && e.Callee == a.setResp && e.Args[1].Key() == RESP.Key() {
					okResp = true
				}
				if e.Kind == "call" && e.Callee == a.setAge && e.Args[1].Op == "call" && e.Args[1].Fn == ca.Age && e.Args[1].Args[0].Key() == HC.Key() {
					okAge = true
					// the age is read after the lookup (which is what loads a persisted entry)
					for j, e2 := range pr.Events {
						if e2.Kind == "call" && e2.Callee == ca.Age && e2.Result != nil && e2.Result.Key() == e.Args[1].Key() && j < getAt {
							okAge = false
							report("hit-age", "the entry's Age() is read before the lookup: an entry that the lookup restores from the store still has no creation time then (Age = the current unix time) on "+where)
						}
					}
				}
			}
			if !okResp {
				report("hit-serves-stored", "a hit does not hand the looked-up response to the responder on "+where)
			}
			if !okAge {
				report("hit-age", "a hit does not set the Age from the entry's Age() on "+where)
			}
		} else if !(isHitK && !isHit) {
			report("hit-does-not-forward", "the handler does not distinguish hit from other states on "+where)
		} else {
			seen["nonhit"]++
			if pr.Exit == "return" && nexts != 1 {
				report("forward-once", fmt.Sprintf("a %s request is forwarded %d times on %s", "non-hit", nexts, where))
			}
		}
		// completions
		if isFetK && !isFet {
			if completions > 0 {
				report("completion-only-by-fetcher", "a request that is not the fetcher completes the entry (extends a hit-for-pass period / overwrites a hit) on "+where)
			}
		} else if isFetK && isFet {
			seen["fetching"]++
			if completions != 1 {
				report("ticket-discharge", fmt.Sprintf("the fetcher leaves with %d completions of its entry (must be exactly one of Cacheable / HitForPass; 0 = key stuck in fetching, waiters never released) on %s", completions, where))
			}
			for _, ev := range []*Event{cacheableEv, hfpEv} {
				if ev != nil && ev.Args[0].Key() != HC.Key() {
					report("ticket-discharge", "completion is applied to "+prettyTerm(ev.Args[0])+", not to the entry that was looked up on "+where)
				}
			}
			if firstNext >= 0 && (deferAt < 0 || deferAt > firstNext || deferAt < getAt) {
				report("ticket-discharge", "the discharge is not registered (defer) between the lookup and the call of the next handler: a panic downstream leaves the key fetching on "+where)
			}
			if hfpEv != nil {
				// period plumbing: HitForPass(disp.GetHitForPass())
				arg := hfpEv.Args[1]
				if !(arg.Op == "call" && arg.Fn != nil && arg.Fn.Name() == "GetHitForPass") {
					report("hit-for-pass-period", "HitForPass is called with "+prettyTerm(arg)+", not the dispatcher's configured period on "+where)
				}
			}
			if cacheableEv != nil {
				seen["cacheable"]++
				ttl, resp := cacheableEv.Args[2], cacheableEv.Args[1]
				iv := pr.Facts.Interval(ttl)
				if iv.Lo == nil || iv.Lo.Sign() < 1 {
					report("store-gate", fmt.Sprintf("Cacheable is reached with lifetime %s in %s (must be > 0) on %s", prettyTerm(ttl), iv, where))
				}
				if !(ttl.Op == "call" && ttl.Fn == a.getMax) {
					report("store-gate", "the lifetime passed to Cacheable is "+prettyTerm(ttl)+", not the value the proxy recorded for this request on "+where)
				}
				if k, v := pr.Facts.Decide(eqTerm(resp, nilTerm(resp.Type))); !(k && !v) {
					report("store-gate", "Cacheable is reached with a response that may be nil on "+where)
				}
				if !(resp.Op == "call" && resp.Fn == a.getResp) {
					report("store-gate", "the response passed to Cacheable is "+prettyTerm(resp)+", not the one the proxy built for this request on "+where)
				}
				if pr.Exit != "return" || !pr.Results[0].IsNil() {
					report("store-gate", "Cacheable is reached on an error/panic exit on "+where)
				}
				// the downstream handler returned nil
				okNext := false
				for _, l := range pr.Conds {
					if l.Atom.Op == "eq" && l.Pol && l.Atom.Args[1].IsNil() && l.Atom.Args[0].Op == "call" && strings.Contains(l.Atom.Args[0].Name, ".Next") {
						okNext = true
					}
				}
				if !okNext {
					report("store-gate", "Cacheable is reached without checking that the downstream handler succeeded on "+where)
				}
			} else if pr.Exit == "return" && len(pr.Results) == 1 && pr.Results[0].IsNil() {
				// a successful fetch is published as cacheable unless the proxy recorded no lifetime or built
				// no response: nothing else (the client having gone away, say) may turn it into hit-for-pass
				nextOK := false
				for _, l := range pr.Conds {
					if l.Atom.Op == "eq" && l.Pol && l.Atom.Args[1].IsNil() && l.Atom.Args[0].Op == "call" && strings.Contains(l.Atom.Args[0].Name, ".Next") {
						nextOK = true
					}
				}
				if nextOK {
					excused := false
					for _, e := range pr.Events {
						if e.Kind != "call" || e.Result == nil {
							continue
						}
						switch e.Callee {
						case a.getMax:
							if iv := pr.Facts.Interval(e.Result); iv.Hi != nil && iv.Hi.Sign() <= 0 {
								excused = true
							}
						case a.getResp:
							if k, v := pr.Facts.Decide(eqTerm(e.Result, nilTerm(e.Result.Type))); k && v {
								excused = true
							}
						}
					}
					if !excused {
						report("cacheable-is-stored", "the downstream handler succeeded, yet the fetcher leaves without Cacheable although neither 'no lifetime' nor 'no response' is established: a cacheable response turns the key into hit-for-pass (every waiter and later request goes upstream) on "+where)
					}
				}
			}
		} else {
			report("ticket-discharge", "the handler does not distinguish the fetching state on "+where)
		}
	})
	if sim.Overflow {
		c.undecided("cache-middleware", name, pos, "path enumeration overflow")
		return
	}
	if seen["pass"] == 0 || seen["hit"] == 0 || seen["fetching"] == 0 || seen["cacheable"] == 0 || seen["nonhit"] == 0 {
		c.undecided("cache-middleware", name, pos, fmt.Sprintf("expected paths not found %v: handler idiom not recognised", seen))
		return
	}
	for _, r := range []string{"pass-methods", "forward-once", "label", "completion-only-by-fetcher", "entry-of-request-key", "cache-binding", "hit-does-not-forward",
		"hit-serves-stored", "hit-age", "ticket-discharge", "hit-for-pass-period", "store-gate", "cacheable-is-stored"} {
		if want != nil && !want[r] {
			continue
		}
		if msgs := found[r]; len(msgs) > 0 {
			c.bad(r, name, pos, strings.Join(msgs, " || "), n)
		} else {
			c.ok(r, name, pos, fmt.Sprintf("holds on all %d paths (normal, error and downstream-panic exits)", n), n)
		}
	}
}

// rulePassMethods: requestIsPass is false exactly for GET and HEAD.
func rulePassMethods(c *Ctx, a *serverAnchors) {
	fn := a.isPass
	name, pos := funcName(fn), c.P.pos(fn.Pos())
	n := 0
	bad := []string{}
	eval := func(conds []Lit, res bool) {
		n++
		eq := map[string]bool{}
		for _, l := range conds {
			if l.Atom.Op == "eq" {
				x, y := l.Atom.Args[0], l.Atom.Args[1]
				if s, ok := y.StrVal(); ok && x.Op == "init" && x.Args[0].Op == "fa" && x.Args[0].Name == "Method" {
					eq[s] = l.Pol
				} else {
					bad = append(bad, "depends on "+l.String())
				}
			} else {
				bad = append(bad, "depends on "+l.String())
			}
		}
		isGetOrHead := eq["GET"] || eq["HEAD"]
		for k := range eq {
			if k != "GET" && k != "HEAD" {
				bad = append(bad, "compares the method with "+k)
			}
		}
		known := false
		if eq["GET"] || eq["HEAD"] {
			known = true
		} else if v, ok := eq["GET"]; ok && !v {
			if v2, ok2 := eq["HEAD"]; ok2 && !v2 {
				known = true
			}
		}
		if !known {
			bad = append(bad, "returns without comparing the method with both GET and HEAD on ["+condString(conds)+"]")
		} else if res == isGetOrHead {
			bad = append(bad, fmt.Sprintf("returns pass=%v for GET/HEAD=%v on [%s]", res, isGetOrHead, condString(conds)))
		}
	}
	sim := c.P.Simulate(fn, SimConfig{}, func(pr *PathResult) {
		if len(pr.Results) != 1 {
			bad = append(bad, "unexpected result arity")
			return
		}
		r := pr.Results[0]
		if r.IsConst() {
			eval(pr.Conds, r.IsTrue())
			return
		}
		// the result is itself a comparison: split on it
		for _, pol := range []bool{true, false} {
			f := pr.Facts.clone()
			if !f.Assume(r, pol) {
				continue
			}
			atom, p := r, pol
			for atom.Op == "not" {
				atom, p = atom.Args[0], !p
			}
			eval(append(append([]Lit{}, pr.Conds...), Lit{atom, p}), pol)
		}
	})
	if sim.Overflow || n == 0 {
		c.undecided("pass-methods", name, pos, "could not enumerate paths")
		return
	}
	if len(bad) > 0 {
		c.bad("pass-methods", name, pos, strings.Join(uniq(bad), " || "), n)
	} else {
		c.ok("pass-methods", name, pos, fmt.Sprintf("%d paths: pass is false exactly when the method equals GET or HEAD", n), n)
	}
}

func uniq(xs []string) []string {
	m := map[string]bool{}
	out := []string{}
	for _, x := range xs {
		if !m[x] {
			m[x] = true
			out = append(out, x)
		}
	}
	sort.Strings(out)
	if len(out) > 4 {
		out = out[:4]
	}
	return out
}

// ------------------------------------------------------------ getCacheMaxAge

// globalRegexp finds the pattern a package-level *regexp.Regexp is compiled
// from (regexp.MustCompile(const) in the package initialiser).
func (p *Program) globalRegexp(g *types.Var) (string, bool) {
	for _, sp := range p.SSAPkgs {
		if sp.Pkg != g.Pkg() {
			continue
		}
		init := sp.Func("init")
		if init == nil {
			continue
		}
		for _, b := range init.Blocks {
			for _, in := range b.Instrs {
				st, ok := in.(*ssa.Store)
				if !ok {
					continue
				}
				gl, ok := st.Addr.(*ssa.Global)
				if !ok || gl.Object() != g {
					continue
				}
				call, ok := st.Val.(*ssa.Call)
				if !ok || call.Call.StaticCallee() == nil {
					return "", false
				}
				n := call.Call.StaticCallee().String()
				if n != "regexp.MustCompile" && n != "regexp.MustCompilePOSIX" {
					return "", false
				}
				if cst, ok := call.Call.Args[0].(*ssa.Const); ok {
					if s, ok := constTerm(cst.Value, cst.Type()).StrVal(); ok {
						return s, true
					}
				}
				return "", false
			}
		}
	}
	return "", false
}

// regexpFoldsCase: every literal of the pattern is matched case-insensitively;
// also returns the (lower-cased) finite language of the pattern when it is a
// plain alternation/concatenation of literals, else its literal fragments.
func regexpFoldsCase(pat string) (bool, []string, error) {
	re, err := syntax.Parse(pat, syntax.Perl)
	if err != nil {
		return false, nil, err
	}
	allFold := true
	frags := []string{}
	var walk func(r *syntax.Regexp)
	walk = func(r *syntax.Regexp) {
		if r.Op == syntax.OpLiteral {
			frags = append(frags, strings.ToLower(string(r.Rune)))
			hasLetter := false
			for _, ch := range r.Rune {
				if (ch >= 'a' && ch <= 'z') || (ch >= 'A' && ch <= 'Z') {
					hasLetter = true
				}
			}
			if hasLetter && r.Flags&syntax.FoldCase == 0 {
				allFold = false
			}
		}
		if r.Op == syntax.OpCharClass {
			// a class such as [Pp] is an explicit fold of one letter; a class
			// with letters that is not closed under case makes the pattern case-sensitive
			for i := 0; i+1 < len(r.Rune); i += 2 {
				for ch := r.Rune[i]; ch <= r.Rune[i+1] && ch < 128; ch++ {
					if ch >= 'a' && ch <= 'z' || ch >= 'A' && ch <= 'Z' {
						other := ch ^ 0x20
						in := false
						for j := 0; j+1 < len(r.Rune); j += 2 {
							if other >= r.Rune[j] && other <= r.Rune[j+1] {
								in = true
							}
						}
						if !in {
							allFold = false
						}
					}
				}
			}
		}
		for _, s := range r.Sub {
			walk(s)
		}
	}
	walk(re)
	var expand func(r *syntax.Regexp) ([]string, bool)
	expand = func(r *syntax.Regexp) ([]string, bool) {
		switch r.Op {
		case syntax.OpLiteral:
			return []string{strings.ToLower(string(r.Rune))}, true
		case syntax.OpEmptyMatch:
			return []string{""}, true
		case syntax.OpCapture:
			return expand(r.Sub[0])
		case syntax.OpCharClass:
			out := []string{}
			seen := map[string]bool{}
			n := 0
			for i := 0; i+1 < len(r.Rune); i += 2 {
				for ch := r.Rune[i]; ch <= r.Rune[i+1]; ch++ {
					n++
					if n > 64 {
						return nil, false
					}
					s := strings.ToLower(string(ch))
					if !seen[s] {
						seen[s] = true
						out = append(out, s)
					}
				}
			}
			return out, true
		case syntax.OpAlternate:
			out := []string{}
			for _, s := range r.Sub {
				x, ok := expand(s)
				if !ok {
					return nil, false
				}
				out = append(out, x...)
			}
			return out, true
		case syntax.OpConcat:
			out := []string{""}
			for _, s := range r.Sub {
				x, ok := expand(s)
				if !ok {
					return nil, false
				}
				next := []string{}
				for _, a := range out {
					for _, b := range x {
						next = append(next, a+b)
						if len(next) > 256 {
							return nil, false
						}
					}
				}
				out = next
			}
			return out, true
		}
		return nil, false
	}
	if lang, ok := expand(re); ok {
		return allFold, lang, nil
	}
	return allFold, frags, nil
}

func ruleMaxAge(c *Ctx, a *serverAnchors, want map[string]bool) {
	fn := a.maxAge
	name, pos := funcName(fn), c.P.pos(fn.Pos())
	found := map[string][]string{}
	report := func(rule, msg string) {
		if len(found[rule]) < 3 {
			found[rule] = append(found[rule], msg)
		}
	}
	if len(fn.Params) != 1 || types.TypeString(fn.Params[0].Type(), nil) != "net/http.Header" {
		report("headers-consulted", "getCacheMaxAge takes more than the response header (status codes, Expires or request data must not influence cacheability)")
	}
	n, positive := 0, 0
	headerNames := map[string]bool{}
	regexGlobals := map[string]*types.Var{}
	sim := c.P.Simulate(fn, SimConfig{}, func(pr *PathResult) {
		n++
		where := "path [" + condString(pr.Conds) + "]"
		if len(pr.Results) != 1 {
			return
		}
		res := pr.Results[0]
		// classify header reads
		var cc *Term            // the Cache-Control subject string
		var ageGet *Term        // header.Get("Age")
		setCookiePresence := "" // "values" | "get" | ""
		for _, e := range pr.Events {
			if e.Kind != "call" || e.Callee == nil {
				continue
			}
			cn := e.Callee.String()
			if (cn == "(net/http.Header).Get" || cn == "(net/http.Header).Values") && len(e.Args) == 2 {
				h, ok := e.Args[1].StrVal()
				if !ok {
					report("headers-consulted", "reads a header whose name is not a constant on "+where)
					continue
				}
				headerNames[h] = true
				if strings.EqualFold(h, "Age") && cn == "(net/http.Header).Get" {
					ageGet = e.Result
				}
			}
		}
		deniedSetCookie, deniedEmpty, deniedRegex := false, false, false
		// any way of writing "no Set-Cookie value present" (== 0, !(0 < len), < 1, …)
		for _, l := range pr.Conds {
			l.Atom.walk(func(x *Term) bool {
				if x.Op == "len" && len(x.Args) == 1 && isHeaderCall(x.Args[0], "Values", "Set-Cookie") {
					if k, isZero := pr.Facts.Decide(eqTerm(x, intTerm(0))); k && isZero {
						deniedSetCookie = true
						setCookiePresence = "values"
					}
				}
				return true
			})
		}
		var sMaxMiss, sMaxHit, maxHit bool
		var ageNonEmpty, agePositive *bool
		for _, l := range pr.Conds {
			at := l.Atom
			// Set-Cookie presence
			if at.Op == "eq" {
				x, y := at.Args[0], at.Args[1]
				if x.Op == "len" && isHeaderCall(x.Args[0], "Values", "Set-Cookie") {
					if v, ok := y.IntVal(); ok && v == 0 && l.Pol {
						deniedSetCookie = true
						setCookiePresence = "values"
					}
				}
				if isHeaderCall(x, "Get", "Set-Cookie") {
					setCookiePresence = "get"
					if s, ok := y.StrVal(); ok && s == "" && l.Pol {
						deniedSetCookie = true
					}
				}
				if s, ok := y.StrVal(); ok && s == "" && isJoinedValues(x, "Cache-Control") {
					cc = x
					if !l.Pol {
						deniedEmpty = true
					}
				}
				if s, ok := y.StrVal(); ok && s == "" && isHeaderCall(x, "Get", "Cache-Control") {
					report("cache-control-all-lines", "Cache-Control is read with Header.Get (first line only): a no-store on a later line is missed on "+where)
				}
				if ageGet != nil && x.Key() == ageGet.Key() {
					if s, ok := y.StrVal(); ok && s == "" {
						v := !l.Pol
						ageNonEmpty = &v
					}
				}
				if x.Op == "len" && x.Args[0].Op == "call" && strings.HasPrefix(x.Args[0].Name, "(*regexp.Regexp).FindStringSubmatch") {
					if v, ok := y.IntVal(); ok && v == 2 {
						g := regexGlobalOf(x.Args[0].Args[0])
						if g != nil {
							regexGlobals[g.Name()] = g
							pat, _ := c.P.globalRegexp(g)
							isS := strings.Contains(strings.ToLower(pat), "s-maxage")
							if isS && l.Pol {
								sMaxHit = true
							} else if isS && !l.Pol {
								sMaxMiss = true
							} else if l.Pol {
								maxHit = true
							}
						}
					}
				}
			}
			if at.Op == "lt" {
				if v, ok := at.Args[0].IntVal(); ok && v == 0 && ageGet != nil && at.Args[1].contains(func(x *Term) bool { return x.Key() == ageGet.Key() }) {
					p := l.Pol
					agePositive = &p
				}
			}
			if at.Op == "call" && strings.HasPrefix(at.Name, "(*regexp.Regexp).MatchString") {
				g := regexGlobalOf(at.Args[0])
				if g != nil {
					regexGlobals[g.Name()] = g
				}
				pat := ""
				if g != nil {
					pat, _ = c.P.globalRegexp(g)
				}
				if strings.Contains(strings.ToLower(pat), "no-store") {
					if !l.Pol {
						deniedRegex = true
					}
					if cc == nil || at.Args[1].Key() != cc.Key() {
						report("cache-control-all-lines", "the deny pattern is matched against "+prettyTerm(at.Args[1])+", not all Cache-Control lines on "+where)
					}
				}
			}
		}
		if setCookiePresence == "get" {
			report("set-cookie-presence", "Set-Cookie is tested with Header.Get(..) != \"\" (first value's text), not by presence of any value on "+where)
		}
		if v, ok := res.IntVal(); ok && v == 0 {
			return
		}
		positive++
		if !deniedSetCookie {
			report("deny-guards", "returns a lifetime without having excluded Set-Cookie on "+where)
		}
		if !deniedEmpty {
			report("deny-guards", "returns a lifetime without requiring a Cache-Control header on "+where)
		}
		if !deniedRegex {
			report("deny-guards", "returns a lifetime without the no-cache/no-store/private test having failed on "+where)
		}
		// s-maxage preferred
		if maxHit && !sMaxMiss {
			report("smaxage-preferred", "max-age is consulted although s-maxage was not ruled out on "+where)
		}
		// shape of the result: M or M - v
		M, V := res, (*Term)(nil)
		if res.Op == "bin" && res.Name == "-" {
			M, V = res.Args[0], res.Args[1]
		}
		if res.Op == "bin" && res.Name == "+" {
			report("age-subtracted", "the Age is added to the lifetime on "+where)
		}
		isAtoiOfMatch := func(t *Term) bool {
			return t.Op == "ext" && t.Name == "0" && t.Args[0].Op == "call" && strings.HasPrefix(t.Args[0].Name, "strconv.Atoi") &&
				t.Args[0].Args[0].contains(func(x *Term) bool {
					return x.Op == "call" && strings.HasPrefix(x.Name, "(*regexp.Regexp).FindStringSubmatch")
				})
		}
		if !(sMaxHit || maxHit) {
			if v, ok := M.IntVal(); !(ok && v == 0) {
				report("lifetime-source", "a lifetime "+prettyTerm(M)+" is produced although neither s-maxage nor max-age matched on "+where)
			}
		} else if !isAtoiOfMatch(M) {
			report("lifetime-source", "the lifetime "+prettyTerm(M)+" is not the number captured by the s-maxage / max-age pattern on "+where)
		}
		if V != nil {
			okV := ageGet != nil && V.Op == "ext" && V.Args[0].Op == "call" && strings.HasPrefix(V.Args[0].Name, "strconv.Atoi") && V.Args[0].Args[0].Key() == ageGet.Key()
			if !okV {
				report("age-subtracted", "the value subtracted, "+prettyTerm(V)+", is not the parsed Age header on "+where)
			}
			if agePositive == nil || !*agePositive {
				report("age-subtracted", "Age is subtracted without being known positive (a negative Age lengthens the lifetime) on "+where)
			}
		} else if ageNonEmpty != nil && *ageNonEmpty {
			// Age present but not subtracted: only legitimate when it is not positive
			if agePositive == nil || *agePositive {
				report("age-subtracted", "an Age header is present but the lifetime is returned without subtracting it, on a path that does not establish Age <= 0: "+where)
			}
		} else if ageNonEmpty == nil {
			report("age-subtracted", "a lifetime is returned without consulting the Age header on "+where)
		}
	})
	if sim.Overflow || n == 0 {
		c.undecided("lifetime", name, pos, "could not enumerate paths")
		return
	}
	if positive == 0 {
		c.undecided("lifetime", name, pos, "no path returns a lifetime: idiom not recognised")
		return
	}
	for h := range headerNames {
		switch strings.ToLower(h) {
		case "set-cookie", "cache-control", "age":
		default:
			report("headers-consulted", "consults header "+h+" (only Set-Cookie, Cache-Control and Age may decide cacheability)")
		}
	}
	// the deny regex: case-insensitive and covering the three directives
	denyFound := false
	for _, g := range regexGlobals {
		pat, ok := c.P.globalRegexp(g)
		if !ok {
			report("deny-regex", "pattern of "+g.Name()+" is not a constant compiled with regexp.MustCompile")
			continue
		}
		fold, lits, err := regexpFoldsCase(pat)
		if err != nil {
			report("deny-regex", "pattern of "+g.Name()+" does not parse: "+err.Error())
			continue
		}
		joined := strings.Join(lits, "|")
		if strings.Contains(joined, "no-store") || strings.Contains(joined, "no-cache") || strings.Contains(joined, "private") {
			denyFound = true
			for _, d := range []string{"no-cache", "no-store", "private"} {
				if !strings.Contains(joined, d) {
					report("deny-regex", "deny pattern "+pat+" lacks "+d)
				}
			}
			if !fold {
				report("deny-regex", "deny pattern "+pat+" is case-sensitive: 'Private' / 'NO-STORE' are not recognised (directive names are case-insensitive)")
			}
		} else if strings.Contains(joined, "s-maxage") && !fold {
			report("deny-regex", "s-maxage pattern "+pat+" is case-sensitive: 'S-MaxAge=0, max-age=60' falls back to max-age")
		}
	}
	if !denyFound {
		report("deny-regex", "no deny pattern over no-cache/no-store/private found")
	}
	for _, r := range []string{"headers-consulted", "deny-guards", "cache-control-all-lines", "set-cookie-presence", "deny-regex", "smaxage-preferred", "lifetime-source", "age-subtracted"} {
		if want != nil && !want[r] {
			continue
		}
		if msgs := found[r]; len(msgs) > 0 {
			c.bad(r, name, pos, strings.Join(uniq(msgs), " || "), n)
		} else {
			c.ok(r, name, pos, fmt.Sprintf("holds on all %d paths (%d return a lifetime)", n, positive), n)
		}
	}
}

func isHeaderCall(t *Term, method, header string) bool {
	if t == nil || t.Op != "call" || t.Fn == nil || t.Fn.String() != "(net/http.Header)."+method || len(t.Args) != 2 {
		return false
	}
	s, ok := t.Args[1].StrVal()
	return ok && strings.EqualFold(s, header)
}

func isJoinedValues(t *Term, header string) bool {
	if t == nil || t.Op != "call" || t.Fn == nil || t.Fn.String() != "strings.Join" || len(t.Args) != 2 {
		return false
	}
	return isHeaderCall(t.Args[0], "Values", header)
}

func regexGlobalOf(t *Term) *types.Var {
	if t != nil && t.Op == "init" && len(t.Args) == 1 && t.Args[0].Op == "global" {
		v, _ := t.Args[0].Obj.(*types.Var)
		return v
	}
	return nil
}

// ------------------------------------------------------------ proxy middleware

func isReqHeaderTerm(t *Term) bool {
	// c.Request.Header (any epoch)
	if t == nil || t.Op != "init" || t.Args[0].Op != "fa" || t.Args[0].Name != "Header" {
		return false
	}
	r := t.Args[0].Args[0]
	return r.Op == "init" && r.Args[0].Op == "fa" && r.Args[0].Name == "Request"
}

var withheldOnFetch = []string{"If-None-Match", "If-Modified-Since", "Range", "If-Range"}

func ruleProxyMiddleware(c *Ctx, a *serverAnchors, want map[string]bool) {
	fn := a.proxyMW
	name, pos := "server.NewProxy$handler", c.P.pos(fn.Pos())
	ca := a.cacheA
	found := map[string][]string{}
	report := func(rule, msg string) {
		if len(found[rule]) < 3 {
			found[rule] = append(found[rule], msg)
		}
	}
	seen := map[string]int{}
	n := 0
	fetchingConst := intTerm(ca.stFetching)
	fetchingConst.Type = ca.fStatus.Type()
	newResp := c.P.Func("cache", "NewHTTPResponse")
	sim := c.P.Simulate(fn, SimConfig{}, func(pr *PathResult) {
		n++
		where := "path [" + condString(pr.Conds) + "]"
		if pr.Exit != "return" || len(pr.Results) != 1 {
			return
		}
		// positions
		pIdx := []int{}
		var ST *Term
		for i, e := range pr.Events {
			if isFieldCall(e, "Proxy") {
				pIdx = append(pIdx, i)
			}
			if e.Kind == "call" && e.Callee == a.getStat {
				ST = e.Result
			}
		}
		if len(pIdx) > 1 {
			report("forward-once", fmt.Sprintf("the upstream is contacted %d times for one request on %s", len(pIdx), where))
		}
		// resolution
		var locGet, upGet *Event
		for _, e := range pr.Events {
			if e.Kind == "call" && e.Callee != nil && e.Callee.String() == pikeMod+"/location.Get" {
				locGet = e
			}
			if e.Kind == "call" && e.Callee != nil && e.Callee.String() == pikeMod+"/upstream.Get" {
				upGet = e
			}
		}
		if locGet == nil {
			report("proxy-resolution", "no location lookup on "+where)
			return
		}
		okArgs := len(locGet.Args) == 3 &&
			locGet.Args[0].Op == "init" && locGet.Args[0].Args[0].Name == "Host" &&
			locGet.Args[1].Op == "init" && locGet.Args[1].Args[0].Name == "RequestURI" &&
			locGet.Args[2].Op == "call" && locGet.Args[2].Fn != nil && locGet.Args[2].Fn.Name() == "GetLocations"
		if !okArgs {
			report("proxy-resolution", fmt.Sprintf("location.Get is called with (%s, %s, %s) instead of (request Host, request URI, the server's own location names)", prettyTerm(locGet.Args[0]), prettyTerm(locGet.Args[1]), prettyTerm(locGet.Args[2])))
		}
		locNilK, locNil := pr.Facts.Decide(eqTerm(locGet.Result, nilTerm(locGet.Result.Type)))
		if !locNilK {
			report("proxy-resolution", "the location result is not checked for nil on "+where)
			return
		}
		if locNil {
			seen["noloc"]++
			if len(pIdx) > 0 || pr.Results[0].IsNil() {
				report("proxy-resolution", "no matching location, but the request is forwarded / no error is returned on "+where)
			}
			return
		}
		if upGet == nil {
			report("proxy-resolution", "no upstream lookup on "+where)
			return
		}
		if !(upGet.Args[0].Op == "init" && upGet.Args[0].Args[0].Name == "Upstream" && upGet.Args[0].Args[0].Args[0].Key() == locGet.Result.Key()) {
			report("proxy-resolution", "upstream.Get is called with "+prettyTerm(upGet.Args[0])+", not the matched location's upstream on "+where)
		}
		upNilK, upNil := pr.Facts.Decide(eqTerm(upGet.Result, nilTerm(upGet.Result.Type)))
		if !upNilK {
			report("proxy-resolution", "the upstream result is not checked for nil on "+where)
			return
		}
		if upNil {
			seen["noup"]++
			if len(pIdx) > 0 || pr.Results[0].IsNil() {
				report("proxy-resolution", "no upstream, but the request is forwarded / no error is returned on "+where)
			}
			return
		}
		if len(pIdx) != 1 {
			report("forward-once", fmt.Sprintf("a resolved request is forwarded %d times on %s", len(pIdx), where))
			return
		}
		P := pIdx[0]
		if pr.Events[P].CalleeT.Args[0].Args[0].Key() != upGet.Result.Key() {
			report("proxy-resolution", "the proxy handler called is not the resolved upstream's on "+where)
		}
		if ST == nil {
			report("withheld-on-fetch", "the cache status of the request is not consulted on "+where)
			return
		}
		fetK, fet := pr.Facts.Decide(eqTerm(ST, fetchingConst))
		if !fetK {
			report("withheld-on-fetch", "the handler does not distinguish fetching requests on "+where)
			return
		}
		// header protocol before P
		type hst struct {
			orig    *Term // value read before the first mutation
			state   string
			mutated bool
			mutBy   string
		}
		hs := map[string]*hst{}
		get := func(h string) *hst {
			k := strings.ToLower(h)
			if hs[k] == nil {
				hs[k] = &hst{state: "unknown"}
			}
			return hs[k]
		}
		for i, e := range pr.Events {
			if e.Kind != "call" || e.Callee == nil || len(e.Args) < 2 || !isReqHeaderTerm(e.Args[0]) {
				continue
			}
			hname, ok := e.Args[1].StrVal()
			if !ok {
				continue
			}
			h := get(hname)
			switch e.Callee.String() {
			case "(net/http.Header).Get":
				if !h.mutated {
					h.orig = e.Result
					z := strTerm("")
					if k, v := pr.Facts.Decide(eqTerm(e.Result, z)); k && v {
						h.state = "absent"
					}
				}
			case "(net/http.Header).Del":
				if i < P {
					h.state, h.mutated, h.mutBy = "deleted", true, "Del"
				} else {
					h.state = "deleted-after"
				}
			case "(net/http.Header).Set", "(net/http.Header).Add":
				if i < P {
					h.state, h.mutated, h.mutBy = "set", true, "Set"
				} else if len(e.Args) == 3 && h.orig != nil && e.Args[2].Key() == h.orig.Key() {
					h.state = "restored"
				} else {
					h.state = "set-after"
				}
			}
		}
		if fet {
			seen["fetching"]++
			for _, w := range withheldOnFetch {
				h := get(w)
				// state at P: deleted, or known absent, or restored later (mutated && deleted before P)
				okW := h.mutated && h.mutBy == "Del" || (!h.mutated && h.state == "absent")
				if !okW {
					report("withheld-on-fetch", fmt.Sprintf("a cold (fetching) request reaches the upstream with %s possibly present: a 304/206 provoked by one client would be stored for everyone, on %s", w, where))
				}
			}
		} else {
			seen["nonfetching"]++
			for _, w := range withheldOnFetch {
				if get(w).mutated {
					report("withheld-on-fetch", fmt.Sprintf("%s is altered although the request is not a cold fetch (hit-for-pass / passed requests must reach the upstream unchanged) on %s", w, where))
				}
			}
		}
		for k, h := range hs {
			if !h.mutated {
				continue
			}
			if k == "accept-encoding" {
				seen["ae"]++
			}
			if h.state != "restored" {
				// a header deleted because... every mutation must be undone on every exit after the upstream call
				report("restore", fmt.Sprintf("request header %s is changed before the upstream call and not set back to the value read before (state at exit: %s) on %s", k, h.state, where))
			}
		}
		// accept-encoding override
		for _, e := range pr.Events[:P] {
			if e.Kind == "call" && e.Callee != nil && e.Callee.String() == "(net/http.Header).Set" && len(e.Args) == 3 && isReqHeaderTerm(e.Args[0]) {
				if hn, _ := e.Args[1].StrVal(); strings.EqualFold(hn, "Accept-Encoding") {
					v := e.Args[2]
					if !(v.Op == "init" && v.Args[0].Op == "fa" && v.Args[0].Name == "AcceptEncoding") {
						report("accept-encoding-override", "Accept-Encoding is overridden with "+prettyTerm(v)+", not the upstream's configured value on "+where)
					}
					if k, isEmpty := pr.Facts.Decide(eqTerm(v, strTerm(""))); !(k && !isEmpty) {
						report("accept-encoding-override", "Accept-Encoding is overridden although no value is configured on "+where)
					}
				}
			}
		}
		// … and the converse: without an override the path has established that none is configured
		{
			overridden := false
			for _, e := range pr.Events[:P] {
				if e.Kind == "call" && e.Callee != nil && e.Callee.String() == "(net/http.Header).Set" && len(e.Args) == 3 && isReqHeaderTerm(e.Args[0]) {
					if hn, _ := e.Args[1].StrVal(); strings.EqualFold(hn, "Accept-Encoding") {
						overridden = true
					}
				}
			}
			if !overridden {
				noneConfigured := false
				for _, l := range pr.Conds {
					if l.Atom.Op != "eq" || !l.Pol || len(l.Atom.Args) != 2 {
						continue
					}
					for k := 0; k < 2; k++ {
						x, y := l.Atom.Args[k], l.Atom.Args[1-k]
						if x.Op == "init" && x.Args[0].Op == "fa" && x.Args[0].Name == "AcceptEncoding" {
							if sv, ok := y.StrVal(); ok && sv == "" {
								noneConfigured = true
							}
						}
						// len(cfg) == 0
						if x.Op == "len" && x.Args[0].Op == "init" && x.Args[0].Args[0].Op == "fa" && x.Args[0].Args[0].Name == "AcceptEncoding" && isZeroInt(y) {
							noneConfigured = true
						}
					}
				}
				if !noneConfigured {
					report("accept-encoding-override", "the request reaches the upstream with the client's Accept-Encoding although the path has not established that the upstream has none configured (the configured value must replace the client's, also when the client sent none) on "+where)
				}
			}
		}
		// proxy deadline
		for _, l := range pr.Conds {
			if l.Atom.Op == "eq" && l.Atom.Args[0].Op == "init" && l.Atom.Args[0].Args[0].Op == "fa" && l.Atom.Args[0].Args[0].Name == "ProxyTimeout" && !l.Pol {
				seen["timeout"]++
				var wt *Event
				withCtx, deferred := false, false
				for _, e := range pr.Events[:P] {
					if e.Kind == "call" && e.Callee != nil && strings.HasSuffix(e.Callee.String(), "context.WithTimeout") {
						wt = e
						if !(len(e.Args) == 2 && e.Args[1].Key() == l.Atom.Args[0].Key()) {
							report("proxy-deadline", "the deadline is "+prettyTerm(e.Args[1])+", not the location's proxy timeout on "+where)
						}
						// the deadline is added to the request's own context (net/http's server context travels with it:
						// the reverse proxy aborts the client connection on a broken upstream body only when it finds it)
						if par := e.Args[0]; !(par.Op == "call" && par.Fn != nil && par.Fn.Name() == "Context") {
							report("proxy-deadline", "the timeout context is derived from "+prettyTerm(par)+", not from the request's context: cancellation and the server context are lost (a body cut short by the upstream is delivered, and stored, as complete) on "+where)
						}
					}
					if wt != nil && e.Kind == "call" && e.Callee != nil && strings.HasSuffix(e.Callee.String(), "Context).WithContext") && e.Args[1].Key() == ext(wt.Result, 0).Key() {
						withCtx = true
					}
					if wt != nil && e.Kind == "defer" && e.CalleeT != nil && e.CalleeT.Key() == ext(wt.Result, 1).Key() {
						deferred = true
					}
				}
				if wt == nil || !withCtx {
					report("proxy-deadline", "a proxy timeout is configured but the upstream call runs without a context carrying it (a hung upstream never ends the fetch) on "+where)
				}
				_ = deferred // releasing the timer early is hygiene; no property depends on it
			}
		}
		errT := pr.Events[P].Result
		errNilK, errNil := pr.Facts.Decide(eqTerm(errT, nilTerm(errT.Type)))
		nexts := 0
		var lastNext *Event
		for _, e := range pr.Events {
			if isFieldCall(e, "Next") {
				nexts++
				lastNext = e
			}
		}
		if !(errNilK && errNil) {
			// error path: nothing is recorded, the error is returned
			if pr.Results[0].IsNil() {
				report("upstream-error-propagates", "the upstream call failed but the handler returns nil on "+where)
			}
			for _, e := range pr.Events[P:] {
				if e.Kind == "call" && (e.Callee == a.setMax || e.Callee == a.setResp) {
					report("upstream-error-propagates", "a lifetime / response is recorded although the upstream call failed on "+where)
				}
			}
			return
		}
		seen["ok"]++
		// response header H after P
		var H *Term
		addRespAt, newRespAt := -1, -1
		var newRespEv, setRespEv *Event
		for i, e := range pr.Events {
			if i > P && e.Kind == "call" && e.Callee != nil && e.Callee.String() == "(*github.com/vicanso/elton.Context).Header" {
				H = e.Result
			}
			if i > P && e.Kind == "call" && e.Callee != nil && H != nil && (e.Callee.String() == "(net/http.Header).Del" || e.Callee.String() == "(net/http.Header).Set") && len(e.Args) > 0 && e.Args[0].Key() == H.Key() {
				report("response-built", "the proxy step edits the upstream's response header ("+e.Callee.Name()+" "+prettyTerm(e.Args[1])+") before the response is built: the stored response, and what the fetcher, the waiters and later hits receive, lacks a header the upstream sent, on "+where)
			}
			if i > P && e.Kind == "call" && e.Callee != nil && e.Callee.Name() == "AddResponseHeader" {
				addRespAt = i
				if H == nil || e.Args[1].Key() != H.Key() {
					report("location-edits-order", "AddResponseHeader is applied to "+prettyTerm(e.Args[1])+", not the upstream's response header on "+where)
				}
			}
			if e.Kind == "call" && e.Callee == newResp {
				newRespAt, newRespEv = i, e
			}
			if e.Kind == "call" && e.Callee == a.setResp {
				setRespEv = e
			}
			if e.Kind == "call" && e.Callee == a.setMax {
				seen["setmax"]++
				if !fet {
					report("lifetime-plumbing", "a cache lifetime is recorded for a request that is not the fetcher on "+where)
				}
				x := e.Args[1]
				iv := pr.Facts.Interval(x)
				if iv.Lo == nil || iv.Lo.Sign() < 1 {
					report("lifetime-plumbing", fmt.Sprintf("lifetime %s in %s is recorded (must be > 0) on %s", prettyTerm(x), iv, where))
				}
				if !(x.Op == "call" && x.Fn == a.maxAge && H != nil && x.Args[0].Key() == H.Key()) {
					report("lifetime-plumbing", "the recorded lifetime is "+prettyTerm(x)+", not getCacheMaxAge(upstream response header) on "+where)
				}
				if i < P {
					report("lifetime-plumbing", "the lifetime is computed before the upstream answered on "+where)
				}
			}
		}
		if fet {
			called := false
			for _, e := range pr.Events[P:] {
				if e.Kind == "call" && e.Callee == a.maxAge {
					called = true
					// a positive lifetime of the fetcher is always recorded: nothing else decides cacheability here
					recorded := false
					for _, e2 := range pr.Events[P:] {
						if e2.Kind == "call" && e2.Callee == a.setMax {
							recorded = true
						}
					}
					if iv := pr.Facts.Interval(e.Result); !recorded && iv.Lo != nil && iv.Lo.Sign() >= 1 {
						report("lifetime-recorded", "the upstream's answer has a positive lifetime but none is recorded for the fetcher (the key turns hit-for-pass and every waiter goes upstream) on "+where)
					}
				}
			}
			if !called {
				seen["fetch-no-maxage"]++
				// whether the answer may be cached is read from the answer: the fetcher always asks
				report("lifetime-recorded", "the fetcher's upstream answer is never examined for a lifetime on this path (a test of the request's own headers, say, stands in front of it): a cacheable answer turns the key hit-for-pass for another whole period, on "+where)
			}
		}
		if newRespEv == nil {
			if pr.Results[0].IsNil() {
				report("response-built", "success path without building the response on "+where)
			} else {
				report("response-built", "the upstream answered but the handler returns an error of its own ("+prettyTerm(pr.Results[0])+") before the response is built: the client gets pike's error instead of the upstream's status, headers and body, on "+where)
			}
			return
		}
		if H == nil || newRespEv.Args[1].Key() != H.Key() {
			report("response-built", "the stored header is "+prettyTerm(newRespEv.Args[1])+", not the upstream's response header on "+where)
		}
		if addRespAt < 0 || addRespAt > newRespAt {
			report("location-edits-order", "the location's response headers are not added before the response (and its header clone) is built on "+where)
		}
		if !(newRespEv.Args[0].Op == "init" && newRespEv.Args[0].Args[0].Name == "StatusCode") {
			report("response-built", "status code passed is "+prettyTerm(newRespEv.Args[0])+" on "+where)
		}
		if !(isHeaderCall2(newRespEv.Args[2], "Get", "Content-Encoding") && H != nil && newRespEv.Args[2].Args[0].Key() == H.Key()) {
			report("response-built", "the encoding passed is "+prettyTerm(newRespEv.Args[2])+", not the upstream's Content-Encoding on "+where)
		}
		respErrK, respErrNil := pr.Facts.Decide(eqTerm(ext(newRespEv.Result, 1), nilTerm(nil)))
		if respErrK && !respErrNil {
			if pr.Results[0].IsNil() {
				report("response-built", "a response that failed to decode is not reported as an error on "+where)
			}
			return
		}
		if setRespEv == nil || setRespEv.Args[1].Key() != ext(newRespEv.Result, 0).Key() {
			report("response-built", "the response handed to the responder is not the one just built on "+where)
		}
		// compress settings from the server
		R := ext(newRespEv.Result, 0)
		settings := map[string]*Term{}
		for _, e := range pr.Events {
			if e.Kind == "store" && e.Addr.Op == "fa" && e.Addr.Args[0].Key() == R.Key() {
				settings[e.Addr.Name] = e.Val
			}
		}
		for i, f := range []string{"CompressSrv", "CompressMinLength", "CompressContentTypeFilter"} {
			v := settings[f]
			if v == nil || !(v.Op == "ext" && v.Name == fmt.Sprint(i) && v.Args[0].Op == "call" && v.Args[0].Fn != nil && v.Args[0].Fn.Name() == "GetCompress") {
				report("server-settings", fmt.Sprintf("response field %s is %s, not result #%d of the server's GetCompress() on %s", f, prettyTerm(v), i, where))
			}
		}
		// the real next handler runs exactly once, last, restored from the value saved at entry
		if nexts != 1 || lastNext == nil {
			report("next-restored", fmt.Sprintf("the next handler runs %d times on a success path on %s", nexts, where))
		} else {
			t := lastNext.CalleeT
			if !(t.Op == "init" && t.Name == "" && t.Args[0].Name == "Next") {
				report("next-restored", "the handler called last is "+prettyTerm(t)+", not the original next handler saved at entry on "+where)
			}
		}
	})
	if sim.Overflow {
		c.undecided("proxy-middleware", name, pos, "path enumeration overflow")
		return
	}
	if seen["fetching"] == 0 || seen["nonfetching"] == 0 || seen["ok"] == 0 || seen["noloc"] == 0 || seen["noup"] == 0 || seen["setmax"] == 0 || seen["timeout"] == 0 {
		c.undecided("proxy-middleware", name, pos, fmt.Sprintf("expected paths not found %v: handler idiom not recognised", seen))
		return
	}
	for _, r := range []string{"forward-once", "proxy-resolution", "withheld-on-fetch", "restore", "accept-encoding-override", "proxy-deadline",
		"upstream-error-propagates", "lifetime-plumbing", "lifetime-recorded", "location-edits-order", "response-built", "server-settings", "next-restored"} {
		if want != nil && !want[r] {
			continue
		}
		if msgs := found[r]; len(msgs) > 0 {
			c.bad(r, name, pos, strings.Join(msgs, " || "), n)
		} else {
			c.ok(r, name, pos, fmt.Sprintf("holds on all %d paths", n), n)
		}
	}
}

func isHeaderCall2(t *Term, method, header string) bool {
	if t == nil || t.Op != "call" || t.Fn == nil || t.Fn.String() != "(net/http.Header)."+method || len(t.Args) != 2 {
		return false
	}
	s, ok := t.Args[1].StrVal()
	return ok && strings.EqualFold(s, header)
}

// callsFunc: f (or a pike function it statically calls, to the given depth)
// contains a static call of target.
func callsFunc(f, target *ssa.Function, depth int) bool {
	if f == nil || f.Blocks == nil {
		return false
	}
	for _, b := range f.Blocks {
		for _, in := range b.Instrs {
			ci, ok := in.(ssa.CallInstruction)
			if !ok {
				continue
			}
			callee := ci.Common().StaticCallee()
			if callee == target {
				return true
			}
			if cc := ci.Common(); cc.IsInvoke() && cc.Method.Name() == target.Name() && target.Signature.Recv() != nil {
				// an interface call the target's receiver type can satisfy
				if it, ok := cc.Value.Type().Underlying().(*types.Interface); ok && types.Implements(target.Signature.Recv().Type(), it) {
					return true
				}
			}
			if depth > 0 && callee != nil && isPikeFunc(callee) && callsFunc(callee, target, depth-1) {
				return true
			}
		}
	}
	return false
}

// ruleRequestWrites: the only fields of http.Request / url.URL that pike code
// ever stores to are URL.Path and URL.RawQuery.
func ruleRequestWrites(c *Ctx) {
	n := 0
	bad := []string{}
	for _, f := range c.P.allFuncs {
		for _, b := range f.Blocks {
			for _, in := range b.Instrs {
				st, ok := in.(*ssa.Store)
				if !ok {
					continue
				}
				fa, ok := st.Addr.(*ssa.FieldAddr)
				if !ok {
					continue
				}
				fv := fieldOf(fa.X.Type(), fa.Field)
				if fv.Pkg() == nil {
					continue
				}
				owner := ""
				if pt, ok := fa.X.Type().Underlying().(*types.Pointer); ok {
					if nt, ok := pt.Elem().(*types.Named); ok {
						owner = nt.Obj().Pkg().Path() + "." + nt.Obj().Name()
					}
				}
				if owner != "net/http.Request" && owner != "net/url.URL" {
					continue
				}
				n++
				if !(owner == "net/url.URL" && (fv.Name() == "Path" || fv.Name() == "RawQuery")) {
					bad = append(bad, fmt.Sprintf("%s: %s writes %s.%s (the upstream must receive the client's method, body, host and URI unchanged apart from the configured rewrite/query)", c.P.pos(st.Pos()), funcName(f), owner, fv.Name()))
				}
			}
		}
	}
	if n == 0 {
		c.undecided("request-writes", "pike", "-", "no write to URL.Path/RawQuery found at all (expected the rewrite and add-query code)")
		return
	}
	c.check(len(bad) == 0, "request-writes", "pike", "server/proxy.go", fmt.Sprintf("%d stores to request state in all pike code, all to URL.Path / URL.RawQuery", n), strings.Join(uniq(bad), " || "), n)
}

// ruleChainOrder: the middleware chain registers error < fresh < responder <
// cache < proxy.
func ruleChainOrder(c *Ctx, a *serverAnchors) {
	fn := a.start
	name, pos := funcName(fn), c.P.pos(fn.Pos())
	ctor := map[string]string{
		"github.com/vicanso/elton/middleware.NewDefaultError": "error",
		"github.com/vicanso/elton/middleware.NewDefaultFresh": "fresh",
		pikeMod + "/server.NewResponder":                      "responder",
		pikeMod + "/server.NewCache":                          "cache",
		pikeMod + "/server.NewProxy":                          "proxy",
	}
	n := 0
	bad := []string{}
	c.P.Simulate(fn, SimConfig{}, func(pr *PathResult) {
		order := []string{}
		for _, e := range pr.Events {
			if e.Kind == "call" && e.Callee != nil && e.Callee.String() == "(*github.com/vicanso/elton.Elton).Use" {
				for _, arg := range e.Args[1:] {
					arg.walk(func(x *Term) bool {
						if x.Op == "call" && x.Fn != nil {
							if k, ok := ctor[x.Fn.String()]; ok {
								order = append(order, k)
							}
						}
						if x.Op == "slice" && x.Args[0].Op == "alloc" {
							// the elements of the argument list, in index order
							cells := map[int64]*Term{}
							maxI := int64(-1)
							for k2, loc := range pr.State.heapLoc {
								if loc.Op == "ia" && loc.Args[0].Key() == x.Args[0].Key() {
									if i, ok := loc.Args[1].IntVal(); ok {
										cells[i] = pr.State.heap[k2]
										if i > maxI {
											maxI = i
										}
									}
								}
							}
							for i := int64(0); i <= maxI; i++ {
								if v := cells[i]; v != nil && v.Op == "call" && v.Fn != nil {
									if k, ok := ctor[v.Fn.String()]; ok {
										order = append(order, k)
									}
								}
							}
						}
						return true
					})
				}
			}
		}
		if len(order) == 0 {
			return
		}
		n++
		if strings.Join(order, "<") != "error<fresh<responder<cache<proxy" {
			bad = append(bad, "middleware order is "+strings.Join(order, " < ")+", expected error < fresh < responder < cache < proxy (the 304 evaluation must see the filled response with the restored validators; the cache must wrap the proxy)")
		}
	})
	if n == 0 {
		c.undecided("chain-order", name, pos, "no middleware registration recognised")
		return
	}
	c.check(len(bad) == 0, "chain-order", name, pos, "e.Use order: error < fresh < responder < cache < proxy", strings.Join(uniq(bad), " || "), n)
}
