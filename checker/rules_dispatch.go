package main

// Rules over the dispatcher / shard layer (package cache) and the cache key
// (server.getKey): get-or-create atomicity, entry freshness, key freshness and
// immutability, full-key lookup, capacity arithmetic, purge.

import (
	"fmt"
	"go/token"
	"go/types"
	"os"
	"strings"

	"golang.org/x/tools/go/ssa"
)

func inlineDispatch(callee *ssa.Function, depth int) bool {
	if depth >= 4 || !inPkg(callee, "cache") {
		return false
	}
	switch callee.Name() {
	case "byteSliceToString", "MemHash", "MemHashString", "memhash":
		return false
	}
	return true
}

func isLRUCall(e *Event, method string) bool {
	return e.Kind == "call" && e.Callee != nil && e.Callee.String() == "(*github.com/golang/groupcache/lru.Cache)."+method
}

// isKeyString: t is the string view of the whole key parameter.
func isKeyString(t, key *Term) bool {
	t = t.strip()
	if t.Op == "call" && t.Fn != nil && t.Fn.Name() == "byteSliceToString" && len(t.Args) == 1 && t.Args[0].Key() == key.Key() {
		return true
	}
	if t.Op == "conv" && len(t.Args) == 1 && t.Args[0].Key() == key.Key() {
		return true
	}
	return false
}

// ruleGetOrCreate: lookup and insert of an entry happen in one acquisition of
// the shard lock chosen by getLRU(key); the entry handed out is the lookup result
// or a freshly allocated entry that was inserted under that same lock with the
// full key.
func ruleGetOrCreate(c *Ctx) {
	fn := c.P.Method("cache", "dispatcher", "GetHTTPCache")
	if fn == nil {
		c.undecided("getorcreate-atomic", "GetHTTPCache", "-", "cache.(*dispatcher).GetHTTPCache not found")
		return
	}
	name, pos := funcName(fn), c.P.pos(fn.Pos())
	found := map[string][]string{}
	report := func(rule, msg string) {
		if len(found[rule]) < 3 {
			found[rule] = append(found[rule], msg)
		}
	}
	n, creates, hits := 0, 0, 0
	var key *Term
	sim := c.P.Simulate(fn, SimConfig{Inline: inlineDispatch, Init: func(s *Sim, st *State, params []*Term) { key = params[1] }}, func(pr *PathResult) {
		n++
		where := "path [" + condString(pr.Conds) + "]"
		if pr.Exit != "return" || len(pr.Results) != 1 {
			return
		}
		var lockT *Term
		locked := false
		var getEv, addEv *Event
		unlockedBetween := false
		var shard *Term
		for _, e := range pr.Events {
			switch {
			case e.Kind == "call" && e.Callee != nil && e.Callee.Name() == "getLRU":
				if len(e.Args) != 2 || e.Args[1].Key() != key.Key() {
					report("shard-function", "the shard is chosen from "+prettyTerm(e.Args[len(e.Args)-1])+", not from the key, on "+where)
				}
			case e.calleeIs("(*sync.Mutex).Lock", "(*sync.RWMutex).Lock"):
				locked, lockT = true, e.Args[0]
			case e.calleeIs("(*sync.RWMutex).RLock"):
				report("getorcreate-atomic", "the shard is read-locked only: lru.Cache.Get reorders the recency list and Add mutates the map, on "+where)
				locked, lockT = true, e.Args[0]
			case e.calleeIs("(*sync.Mutex).Unlock", "(*sync.RWMutex).Unlock", "(*sync.RWMutex).RUnlock"):
				locked = false
				if getEv != nil && addEv == nil {
					unlockedBetween = true
				}
			case e.Kind == "invoke" && e.Method != nil && strings.HasSuffix(e.Method.FullName(), "store.Store).Get"):
				if locked {
					report("getorcreate-atomic", "the persistent store is read while the shard lock is held: a slow or hung store stalls every key of the shard, memory hits included, on "+where)
				}
			case isLRUCall(e, "Get"):
				getEv = e
				shard = e.Args[0]
				if !locked {
					report("getorcreate-atomic", "the LRU is read without the shard lock on "+where)
				}
				if !isKeyString(e.Args[1], key) {
					report("full-key-lookup", "the LRU is looked up with "+prettyTerm(e.Args[1])+", not the whole key, on "+where)
				}
			case isLRUCall(e, "Add"):
				addEv = e
				if !locked {
					report("getorcreate-atomic", "the entry is inserted without the shard lock on "+where)
				}
				if shard != nil && e.Args[0].Key() != shard.Key() {
					report("getorcreate-atomic", "lookup and insert use different shards on "+where)
				}
				if !isKeyString(e.Args[1], key) {
					report("full-key-lookup", "the entry is inserted under "+prettyTerm(e.Args[1])+", not the whole key, on "+where)
				}
			}
		}
		_ = lockT
		if getEv == nil {
			report("getorcreate-atomic", "returns an entry without consulting the LRU on "+where)
			return
		}
		res := pr.Results[0]
		fromLookup := res.contains(func(x *Term) bool { return getEv.Result != nil && x.Key() == getEv.Result.Key() })
		if fromLookup {
			hits++
			if addEv != nil {
				report("getorcreate-atomic", "an entry found in the LRU is inserted again on "+where)
			}
			return
		}
		creates++
		if res.Op != "alloc" {
			report("entry-fresh", "on a miss the entry handed out is "+prettyTerm(res)+", not an entry allocated by this call (a recycled or shared object links two keys) on "+where)
		}
		if addEv == nil {
			report("getorcreate-atomic", "a new entry is handed out without being inserted (the next request creates another one: two fetches) on "+where)
			return
		}
		if unlockedBetween {
			report("getorcreate-atomic", "the shard lock is released between the lookup and the insert (two requests can both miss and create two entries) on "+where)
		}
		if addEv.Args[2].strip().Key() != res.Key() {
			report("getorcreate-atomic", "the entry inserted ("+prettyTerm(addEv.Args[2])+") is not the entry handed out on "+where)
		}
		// the key under which the new entry finds / writes its persisted record is the request's key itself
		if kf := c.P.StructField("cache", "httpCache", "key"); kf != nil && res.Op == "alloc" {
			for _, e := range pr.Events {
				if e.Kind == "store" && isFieldAddr(e.Addr, kf) && e.Addr.Args[0].Key() == res.Key() {
					if kv := e.Val; !(kv.Key() == key.Key() || kv.IsNil()) {
						report("full-key-lookup", "the new entry addresses its persisted record by "+prettyTerm(kv)+", not by the request's key (a key built on shared backing memory, or a transformed key, lets entries read and overwrite each other's records) on "+where)
					}
				}
			}
		}
	})
	if sim.Overflow || n == 0 || creates == 0 || hits == 0 {
		c.undecided("getorcreate-atomic", name, pos, fmt.Sprintf("idiom not recognised (paths=%d creates=%d hits=%d)", n, creates, hits))
		return
	}
	for _, r := range []string{"getorcreate-atomic", "entry-fresh", "full-key-lookup", "shard-function"} {
		if msgs := found[r]; len(msgs) > 0 {
			c.bad(r, name, pos, strings.Join(msgs, " || "), n)
		} else {
			c.ok(r, name, pos, fmt.Sprintf("holds on all %d paths (%d creating, %d found)", n, creates, hits), n)
		}
	}
}

// ruleShardFunction: getLRU depends on nothing but the key's hash and
// immutable dispatcher fields.
func ruleShardFunction(c *Ctx) {
	fn := c.P.Method("cache", "dispatcher", "getLRU")
	if fn == nil {
		c.undecided("shard-function", "getLRU", "-", "cache.(*dispatcher).getLRU not found")
		return
	}
	name, pos := funcName(fn), c.P.pos(fn.Pos())
	n := 0
	bad := []string{}
	c.P.Simulate(fn, SimConfig{}, func(pr *PathResult) {
		n++
		if len(pr.Results) != 1 {
			return
		}
		r := pr.Results[0]
		okShape := false
		// d.list[ MemHash(key) % d.zoneSize ]
		if r.Op == "init" && r.Args[0].Op == "ia" {
			idx := r.Args[0].Args[1]
			base := r.Args[0].Args[0]
			for idx.Op == "conv" {
				idx = idx.Args[0]
			}
			if idx.Op == "bin" && idx.Name == "%" && idx.Args[0].Op == "call" && strings.Contains(idx.Args[0].Name, "MemHash") &&
				idx.Args[0].Args[0].Op == "sym" && base.Op == "init" && base.Args[0].Op == "fa" {
				okShape = true
			}
		}
		if !okShape {
			bad = append(bad, "the shard is "+prettyTerm(r)+", not list[hash(key) % zoneSize]")
		}
		for _, e := range pr.Events {
			if e.Kind == "call" && e.Callee != nil {
				cn := e.Callee.String()
				if strings.HasPrefix(cn, "time.") || strings.Contains(cn, "rand") || strings.Contains(cn, "FastRand") {
					bad = append(bad, "the shard choice consults "+cn)
				}
			}
		}
	})
	if n == 0 {
		c.undecided("shard-function", name, pos, "no path")
		return
	}
	// the dispatcher's shard fields are written only in its constructor
	for _, f := range []string{"zoneSize", "list", "hitForPass", "store"} {
		v := c.P.StructField("cache", "dispatcher", f)
		if v == nil {
			continue
		}
		for _, w := range fieldWriters(c.P, v) {
			if w.Name() != "NewDispatcher" {
				bad = append(bad, "dispatcher."+f+" is written in "+funcName(w)+" (the same key would meet a different shard / period)")
			}
		}
	}
	if len(bad) > 0 {
		c.bad("shard-function", name, pos, strings.Join(uniq(bad), " || "), n)
	} else {
		c.ok("shard-function", name, pos, "shard = list[MemHash(key) % zoneSize]; zoneSize/list/hitForPass/store are written only by NewDispatcher", n)
	}
}

// fieldWriters: pike functions that store to field v (directly, or to an element of it).
func fieldWriters(p *Program, v *types.Var) []*ssa.Function {
	out := []*ssa.Function{}
	for _, f := range p.allFuncs {
		w := false
		for _, b := range f.Blocks {
			for _, in := range b.Instrs {
				if st, ok := in.(*ssa.Store); ok {
					if fa, ok := st.Addr.(*ssa.FieldAddr); ok && fieldOf(fa.X.Type(), fa.Field) == v {
						w = true
					}
				}
			}
		}
		if w {
			out = append(out, f)
		}
	}
	return out
}

// ruleKey: getKey builds METHOD SP HOST SP URI in a buffer allocated by the call.
func ruleKey(c *Ctx) {
	fn := c.P.Func("server", "getKey")
	if fn == nil {
		c.undecided("key-fresh", "getKey", "-", "server.getKey not found")
		return
	}
	name, pos := funcName(fn), c.P.pos(fn.Pos())
	n := 0
	fresh, comps := []string{}, []string{}
	c.P.Simulate(fn, SimConfig{}, func(pr *PathResult) {
		n++
		where := "path [" + condString(pr.Conds) + "]"
		if len(pr.Results) != 1 {
			return
		}
		buf := pr.Results[0]
		// the same key built by appending the components onto an empty buffer allocated here
		var appended []*Term
		if base, parts, isChain := appendChain(buf); isChain && base.Op == "make" && strings.HasPrefix(base.Name, "slice:") && len(base.Args) > 0 && isZeroInt(base.Args[0]) {
			appended = parts
			buf = base
		}
		if !(buf.Op == "make" && strings.HasPrefix(buf.Name, "slice:")) {
			fresh = append(fresh, "the key is "+prettyTerm(buf)+", not a buffer allocated by this call (the LRU keeps a zero-copy view of these bytes; a pooled or shared buffer rewrites stored keys) on "+where)
			return
		}
		for _, e := range pr.Events {
			if e.Kind == "defer" || e.Kind == "go" {
				fresh = append(fresh, "the key buffer outlives the call through a deferred/concurrent action on "+where)
			}
			if e.Kind == "call" && e.Callee != nil && strings.Contains(e.Callee.String(), "sync.Pool") {
				fresh = append(fresh, "the key buffer is exchanged with a sync.Pool on "+where)
			}
		}
		// components in order
		type wr struct {
			off *Term
			src *Term // nil = separator
		}
		ws := []wr{}
		// copy into a buffer sized for all components returns len(src): offsets advanced by copy's result are read that way
		subst := map[string]*Term{}
		for _, e := range pr.Events {
			if e.Kind == "builtin" && e.CalleeT.Name == "copy" && len(e.Args) == 2 && e.Result != nil {
				subst[e.Result.Key()] = &Term{Op: "len", Type: tInt, Args: []*Term{stripConvTerm(e.Args[1])}}
			}
		}
		for _, e := range pr.Events {
			if e.Kind == "builtin" && e.CalleeT.Name == "copy" && len(e.Args) == 2 {
				d := e.Args[0]
				if d.Op == "slice" && d.Args[0].Key() == buf.Key() {
					off := d.Args[1]
					if off.Op == "none" {
						off = intTerm(0)
					}
					ws = append(ws, wr{off, e.Args[1]})
				}
			}
			if e.Kind == "store" && e.Addr.Op == "ia" && e.Addr.Args[0].Key() == buf.Key() {
				if v, ok := e.Val.IntVal(); ok && v == ' ' {
					ws = append(ws, wr{e.Addr.Args[1], nil})
				} else {
					comps = append(comps, "byte "+prettyTerm(e.Val)+" written into the key on "+where)
				}
			}
			// no other write into the key: element stores through a sub-slice, or the
			// buffer (or a view of it) handed to a callee that is not inlined
			if e.Kind == "store" && e.Addr.Op == "ia" && e.Addr.Args[0].Key() != buf.Key() && e.Addr.Args[0].contains(func(x *Term) bool { return x.Key() == buf.Key() }) {
				comps = append(comps, "bytes of the key are rewritten after its components were copied in ("+prettyTerm(e.Addr)+" := "+prettyTerm(e.Val)+"): requests differing in those bytes share an entry, on "+where)
			}
			if (e.Kind == "call" || e.Kind == "invoke") && e.Callee != nil {
				for _, arg := range e.Args {
					if arg.Key() == buf.Key() || (arg.Op == "slice" && arg.contains(func(x *Term) bool { return x.Key() == buf.Key() })) {
						comps = append(comps, "the key buffer is handed to "+funcName(e.Callee)+", which may rewrite it, on "+where)
					}
				}
			}
		}
		fieldName := func(t *Term) string {
			for t != nil && t.Op == "conv" {
				t = t.Args[0]
			}
			if t != nil && t.Op == "init" && t.Args[0].Op == "fa" {
				// the field of the *request* (url.URL has a Host and a Path of its own)
				if o := t.Args[0].Obj; o != nil && o.Pkg() != nil && o.Pkg().Path() != "net/http" {
					return o.Pkg().Name() + "." + t.Args[0].Name
				}
				return t.Args[0].Name
			}
			if t != nil && t.Op == "call" && t.Fn != nil && t.Fn.String() == "(*net/url.URL).String" {
				return "URL.String()"
			}
			return prettyTerm(t)
		}
		if appended != nil {
			ws = ws[:0]
			for _, part := range appended {
				if part.Op == "slice" && part.Args[0].Op == "alloc" {
					// a variadic element list: single bytes
					cnt := 0
					for k, loc := range pr.State.heapLoc {
						if loc.Op == "ia" && loc.Args[0].Key() == part.Args[0].Key() {
							cnt++
							if v, ok := pr.State.heap[k].IntVal(); ok && v == ' ' && cnt == 1 {
								ws = append(ws, wr{nil, nil})
							} else {
								comps = append(comps, "byte(s) "+prettyTerm(pr.State.heap[k])+" appended to the key on "+where)
							}
						}
					}
					continue
				}
				ws = append(ws, wr{nil, part})
			}
		}
		if len(ws) != 5 {
			comps = append(comps, fmt.Sprintf("%d writes into the key instead of method, SP, host, SP, uri on %s", len(ws), where))
			return
		}
		wantSrc := []string{"Method", "", "Host", "", "uri"}
		var off *Term = intTerm(0)
		for i, w := range ws {
			if appended == nil && !sameLinear(substTerm(w.off, subst), off) {
				comps = append(comps, fmt.Sprintf("component %d is written at offset %s, expected %s (components overlap or leave gaps) on %s", i, prettyTerm(w.off), prettyTerm(off), where))
			}
			if w.src == nil {
				if wantSrc[i] != "" {
					comps = append(comps, fmt.Sprintf("component %d is a separator, expected %s on %s", i, wantSrc[i], where))
				}
				off = binTerm(addTok, off, intTerm(1), tInt)
				continue
			}
			fnm := fieldName(w.src)
			switch wantSrc[i] {
			case "Method", "Host":
				if fnm != wantSrc[i] {
					comps = append(comps, fmt.Sprintf("component %d is %s, expected the request's %s on %s", i, fnm, wantSrc[i], where))
				}
			case "uri":
				uriEmpty := false
				for _, l := range pr.Conds {
					if l.Atom.Op == "eq" && l.Pol && l.Atom.Args[0].Op == "len" && fieldName(l.Atom.Args[0].Args[0]) == "RequestURI" {
						uriEmpty = true
					}
					if l.Atom.Op == "eq" && l.Pol && fieldName(l.Atom.Args[0]) == "RequestURI" {
						if sv, ok := l.Atom.Args[1].StrVal(); ok && sv == "" {
							uriEmpty = true
						}
					}
				}
				if !(fnm == "RequestURI" && !uriEmpty) && !(fnm == "URL.String()" && uriEmpty) {
					comps = append(comps, fmt.Sprintf("the URI component is %s (RequestURI empty: %v); the key must carry the full request URI including the query on %s", fnm, uriEmpty, where))
				}
			default:
				comps = append(comps, fmt.Sprintf("component %d is %s, expected a separator on %s", i, fnm, where))
			}
			off = binTerm(addTok, off, &Term{Op: "len", Type: tInt, Args: []*Term{stripConvTerm(w.src)}}, tInt)
		}
		if appended == nil && !sameLinear(buf.Args[0], off) {
			comps = append(comps, "the buffer length "+prettyTerm(buf.Args[0])+" differs from the bytes written "+prettyTerm(off)+" on "+where)
		}
	})
	if n == 0 {
		c.undecided("key-fresh", name, pos, "no path")
		return
	}
	c.check(len(fresh) == 0, "key-fresh", name, pos, fmt.Sprintf("%d paths: the key is a slice made by the call, not pooled, deferred or shared", n), strings.Join(uniq(fresh), " || "), n)
	c.check(len(comps) == 0, "key-components", name, pos, fmt.Sprintf("%d paths: METHOD SP HOST SP URI written back to back, buffer length = bytes written", n), strings.Join(uniq(comps), " || "), n)
}

func stripConvTerm(t *Term) *Term {
	for t != nil && t.Op == "conv" && len(t.Args) == 1 {
		t = t.Args[0]
	}
	return t
}

// ruleKeyImmutable: forward taint from the key through every pike function it
// flows into (static calls and Store interface implementations): nothing writes
// into, appends onto or reslices it.
func ruleKeyImmutable(c *Ctx) {
	roots := []ssa.Value{}
	getKey := c.P.Func("server", "getKey")
	for _, f := range c.P.allFuncs {
		for _, b := range f.Blocks {
			for _, in := range b.Instrs {
				if call, ok := in.(*ssa.Call); ok && call.Call.StaticCallee() == getKey && getKey != nil {
					roots = append(roots, call)
				}
			}
		}
	}
	// the purge path's key too
	if rm := c.P.Func("cache", "RemoveHTTPCache"); rm != nil && len(rm.Params) == 2 {
		roots = append(roots, rm.Params[1])
	}
	if len(roots) < 2 {
		c.undecided("key-immutable", "key-flow", "-", "key sources not found")
		return
	}
	tainted := map[ssa.Value]bool{}
	work := append([]ssa.Value{}, roots...)
	funcs := map[*ssa.Function]bool{}
	bad := []string{}
	add := func(v ssa.Value) {
		if v != nil && !tainted[v] {
			tainted[v] = true
			work = append(work, v)
		}
	}
	for _, r := range roots {
		tainted[r] = true
	}
	for len(work) > 0 {
		v := work[len(work)-1]
		work = work[:len(work)-1]
		refs := v.Referrers()
		if refs == nil {
			continue
		}
		for _, in := range *refs {
			if in.Parent() != nil {
				funcs[in.Parent()] = true
			}
			switch x := in.(type) {
			case *ssa.Slice:
				if x.X == v {
					if x.Low != nil || x.High != nil {
						bad = append(bad, fmt.Sprintf("%s: the key is resliced in %s (entries or store records are addressed by part of the key)", c.P.pos(x.Pos()), funcName(x.Parent())))
					}
					add(x)
				}
			case *ssa.ChangeType:
				add(x)
			case *ssa.Convert:
				// string(key) copies; the copy is a new value but still "the key" for lookups
				add(x)
			case *ssa.MakeInterface:
				add(x)
			case *ssa.Phi:
				add(x)
			case *ssa.IndexAddr:
				if x.X == v {
					for _, r := range *x.Referrers() {
						if st, ok := r.(*ssa.Store); ok && st.Addr == x {
							bad = append(bad, fmt.Sprintf("%s: a byte of the key is overwritten in %s", c.P.pos(st.Pos()), funcName(st.Parent())))
						}
					}
				}
			case *ssa.Store:
				if x.Val == v {
					// stored into a variable / field: follow loads of that address within the function
					if al, ok := x.Addr.(*ssa.Alloc); ok {
						for _, r := range *al.Referrers() {
							if ld, ok := r.(*ssa.UnOp); ok {
								add(ld)
							}
							if cv, ok := r.(*ssa.Convert); ok {
								add(cv)
							}
							// captured by a function literal: the reads of the captured variable inside it
							if mc, ok := r.(*ssa.MakeClosure); ok {
								if lit, ok := mc.Fn.(*ssa.Function); ok {
									for j, bind := range mc.Bindings {
										if bind != ssa.Value(al) || j >= len(lit.FreeVars) {
											continue
										}
										for _, fr := range *lit.FreeVars[j].Referrers() {
											if ld, ok := fr.(*ssa.UnOp); ok {
												add(ld)
											}
										}
									}
								}
							}
						}
					}
				}
			case ssa.CallInstruction:
				cc := x.Common()
				if bi, ok := cc.Value.(*ssa.Builtin); ok {
					switch bi.Name() {
					case "copy":
						if cc.Args[0] == v {
							bad = append(bad, fmt.Sprintf("%s: copy into the key in %s", c.P.pos(x.Pos()), funcName(x.Parent())))
						}
					case "append":
						if cc.Args[0] == v {
							bad = append(bad, fmt.Sprintf("%s: append onto the key in %s (may write into its spare capacity)", c.P.pos(x.Pos()), funcName(x.Parent())))
						}
					}
					continue
				}
				var callees []*ssa.Function
				var args []ssa.Value
				if cc.IsInvoke() {
					callees = c.P.implsOf(cc.Method)
					args = append([]ssa.Value{cc.Value}, cc.Args...)
				} else if sc := cc.StaticCallee(); sc != nil && sc.Blocks != nil && isPikeFunc(sc) {
					callees = []*ssa.Function{sc}
					args = cc.Args
				}
				for _, callee := range callees {
					for i, a := range args {
						if a == v && i < len(callee.Params) {
							add(callee.Params[i])
						}
					}
				}
				if val, ok := x.(ssa.Value); ok {
					// helpers returning a view of the key
					if sc := cc.StaticCallee(); sc != nil && (sc.Name() == "byteSliceToString") {
						add(val)
					}
				}
			}
		}
	}
	if len(funcs) < 8 {
		c.undecided("key-immutable", "key-flow", "-", fmt.Sprintf("the key was followed into only %d functions (expected the dispatcher, the shard helpers and the store back ends)", len(funcs)))
		return
	}
	names := []string{}
	for f := range funcs {
		names = append(names, funcName(f))
	}
	c.check(len(bad) == 0, "key-immutable", "key-flow", c.P.pos(getKey.Pos()),
		fmt.Sprintf("the key flows into %d pike functions; none writes into, appends onto or reslices it", len(funcs)), strings.Join(uniq(bad), " || "), len(funcs))
}

// ruleUnsafeConfined: unsafe.Pointer conversions occur only in the two
// zero-copy helpers.
func ruleUnsafeConfined(c *Ctx) {
	n := 0
	bad := []string{}
	for _, f := range c.P.allFuncs {
		for _, b := range f.Blocks {
			for _, in := range b.Instrs {
				cv, ok := in.(*ssa.Convert)
				if !ok {
					continue
				}
				isUnsafe := func(t types.Type) bool {
					bt, ok := t.Underlying().(*types.Basic)
					return ok && bt.Kind() == types.UnsafePointer
				}
				if isUnsafe(cv.Type()) || isUnsafe(cv.X.Type()) {
					n++
					switch f.Name() {
					case "byteSliceToString", "MemHash", "MemHashString":
					default:
						bad = append(bad, fmt.Sprintf("%s: unsafe.Pointer conversion in %s", c.P.pos(cv.Pos()), funcName(f)))
					}
				}
			}
		}
	}
	if n == 0 {
		c.undecided("unsafe-confined", "pike", "-", "no unsafe conversion found at all (expected byteSliceToString and MemHash)")
		return
	}
	c.check(len(bad) == 0, "unsafe-confined", "pike", "cache/cache.go", fmt.Sprintf("%d unsafe conversions, all inside byteSliceToString / MemHash*", n), strings.Join(bad, " || "), n)
}

// closuresForParam: cc calls a func-typed parameter of its enclosing function; the result is the function
// literals passed for that parameter at every pike call site of the enclosing function (nil unless all are literals).
func closuresForParam(p *Program, cc *ssa.CallCommon) []*ssa.Function {
	prm, ok := cc.Value.(*ssa.Parameter)
	if !ok || cc.IsInvoke() {
		return nil
	}
	h := prm.Parent()
	idx := -1
	for i, q := range h.Params {
		if q == prm {
			idx = i
		}
	}
	if idx < 0 {
		return nil
	}
	var out []*ssa.Function
	for _, f := range p.allFuncs {
		for _, b := range f.Blocks {
			for _, in := range b.Instrs {
				ci, ok := in.(ssa.CallInstruction)
				if !ok || ci.Common().StaticCallee() != h || idx >= len(ci.Common().Args) {
					continue
				}
				mc, ok := ci.Common().Args[idx].(*ssa.MakeClosure)
				if !ok {
					return nil
				}
				lit, ok := mc.Fn.(*ssa.Function)
				if !ok {
					return nil
				}
				out = append(out, lit)
			}
		}
	}
	return out
}

// ruleStoreKeys: each Store back end addresses its record by the whole key.
func ruleStoreKeys(c *Ctx) {
	iface := c.P.NamedType("store", "Store")
	if iface == nil {
		c.undecided("store-full-key", "store.Store", "-", "interface store.Store not found")
		return
	}
	it := iface.Underlying().(*types.Interface)
	n := 0
	for i := 0; i < it.NumMethods(); i++ {
		m := it.Method(i)
		if m.Name() == "Close" {
			continue
		}
		for _, impl := range c.P.implsOf(m) {
			n++
			name, pos := funcName(impl), c.P.pos(impl.Pos())
			if len(impl.Params) < 2 {
				c.undecided("store-full-key", name, pos, "no key parameter")
				continue
			}
			keyP := impl.Params[1]
			bad := []string{}
			used := false
			// every use of the key parameter: passed on whole (possibly converted to string / concatenated with a prefix)
			var follow func(v ssa.Value, depth int)
			seen := map[ssa.Value]bool{}
			follow = func(v ssa.Value, depth int) {
				if seen[v] || depth > 6 || v.Referrers() == nil {
					return
				}
				seen[v] = true
				for _, r := range *v.Referrers() {
					switch x := r.(type) {
					case *ssa.Slice:
						if x.Low != nil || x.High != nil {
							bad = append(bad, fmt.Sprintf("%s: the record is addressed by a slice of the key (different keys share one record)", c.P.pos(x.Pos())))
						}
						follow(x, depth+1)
					case *ssa.Convert, *ssa.ChangeType, *ssa.MakeInterface, *ssa.Phi:
						follow(x.(ssa.Value), depth+1)
					case *ssa.BinOp:
						follow(x, depth+1)
					case *ssa.Store:
						if x.Val != v {
							break
						}
						if al, ok := x.Addr.(*ssa.Alloc); ok {
							for _, rr := range *al.Referrers() {
								if ld, ok := rr.(*ssa.UnOp); ok {
									follow(ld, depth+1)
								}
								if mc, ok := rr.(*ssa.MakeClosure); ok {
									for bi, bnd := range mc.Bindings {
										if bnd == al {
											fv := mc.Fn.(*ssa.Function).FreeVars[bi]
											for _, r3 := range *fv.Referrers() {
												if ld, ok := r3.(*ssa.UnOp); ok {
													follow(ld, depth+1)
												}
											}
										}
									}
								}
							}
						} else if ia, ok := x.Addr.(*ssa.IndexAddr); ok {
							// element of a variadic argument list: follow the list to its call
							if arr, ok := ia.X.(*ssa.Alloc); ok && arr.Referrers() != nil {
								for _, rr := range *arr.Referrers() {
									if sl, ok := rr.(*ssa.Slice); ok {
										follow(sl, depth+1)
									}
								}
							} else {
								used = true
							}
						} else {
							used = true // field of a struct handed to the back end
						}
					case *ssa.MakeClosure:
						for bi, bnd := range x.Bindings {
							if bnd == v {
								follow(x.Fn.(*ssa.Function).FreeVars[bi], depth+1)
							}
						}
					case ssa.CallInstruction:
						cc := x.Common()
						if lits := closuresForParam(c.P, cc); len(lits) > 0 {
							// a call of a func-typed parameter (withKey(key, func(ctx, k) …)): the literals handed in
							for _, lit := range lits {
								for ai, a := range cc.Args {
									if a == v && ai < len(lit.Params) {
										follow(lit.Params[ai], depth+1)
									}
								}
							}
						} else if sc := cc.StaticCallee(); sc != nil && sc.Blocks != nil && isPikeFunc(sc) {
							for ai, a := range cc.Args {
								if a == v && ai < len(sc.Params) {
									follow(sc.Params[ai], depth+1)
								}
							}
							if val, ok := x.(ssa.Value); ok {
								follow(val, depth+1)
							}
						} else if why := keyCalleeVerdict(cc); why == "" {
							used = true
						} else if why != "ignore" {
							bad = append(bad, fmt.Sprintf("%s: the key goes through %s before it addresses the record (keys that differ may be mapped to one record)", c.P.pos(x.Pos()), why))
						}
					}
				}
			}
			follow(keyP, 0)
			if !used {
				bad = append(bad, "the key parameter never reaches the back end")
			}
			c.check(len(bad) == 0, "store-full-key", name, pos, "the whole key (optionally prefixed / converted to string) addresses the record", strings.Join(uniq(bad), " || "), 1)
		}
	}
	if n < 9 {
		c.undecided("store-full-key", "store.Store", "-", fmt.Sprintf("only %d Get/Set/Delete implementations found (expected 3 back ends x 3)", n))
	}
}

// keyCalleeVerdict classifies a non-pike callee that receives the store key:
// "" = a back-end client call (the key is used as given), "ignore" = reads only
// its length, otherwise the name of a library function that transforms it.
func keyCalleeVerdict(cc *ssa.CallCommon) string {
	if b, ok := cc.Value.(*ssa.Builtin); ok && !cc.IsInvoke() {
		switch b.Name() {
		case "len", "cap", "print", "println":
			return "ignore"
		}
		return "builtin " + b.Name()
	}
	path, name := "", ""
	if cc.IsInvoke() {
		if cc.Method.Pkg() != nil {
			path = cc.Method.Pkg().Path()
		}
		name = cc.Method.FullName()
	} else if sc := cc.StaticCallee(); sc != nil {
		if sc.Pkg != nil {
			path = sc.Pkg.Pkg.Path()
		} else if sc.Object() != nil && sc.Object().Pkg() != nil {
			path = sc.Object().Pkg().Path()
		}
		name = sc.String()
	} else {
		return "a dynamic call"
	}
	for _, be := range []string{"github.com/dgraph-io/badger", "github.com/go-redis/redis", "go.mongodb.org/mongo-driver"} {
		if strings.HasPrefix(path, be) {
			return ""
		}
	}
	return name
}

// ruleCapacity: for every int size, each shard limit is >= 1 and the limits add
// up to at most the configured size.
func ruleCapacity(c *Ctx) {
	fn := c.P.Func("cache", "NewDispatcher")
	if fn == nil {
		c.undecided("shard-limit-positive", "NewDispatcher", "-", "cache.NewDispatcher not found")
		return
	}
	name, pos := funcName(fn), c.P.pos(fn.Pos())
	sizeF := c.P.StructField("cache", "DispatcherOption", "Size")
	n, news := 0, 0
	bad, sum := []string{}, []string{}
	sim := c.P.Simulate(fn, SimConfig{Inline: orHelpers(fn, func(callee *ssa.Function, d int) bool {
		return inPkg(callee, "cache") && callee.Name() == "newHTTPLRUCache"
	})}, func(pr *PathResult) {
		n++
		where := "path [" + condString(pr.Conds) + "]"
		var sizeSym *Term
		for _, l := range pr.Conds {
			l.Atom.walk(func(x *Term) bool {
				if x.Op == "fld" && x.Obj == sizeF {
					sizeSym = x
				}
				return true
			})
		}
		var shards *Term
		for _, e := range pr.Events {
			if e.Kind == "store" && e.Val.Op == "make" && strings.HasPrefix(e.Val.Name, "slice:") && e.Addr.Op == "fa" && e.Addr.Name == "list" {
				shards = e.Val.Args[0]
			}
		}
		for _, e := range pr.Events {
			if e.Kind == "call" && e.Callee != nil && e.Callee.String() == "github.com/golang/groupcache/lru.New" {
				news++
				lim := e.Args[0]
				iv := pr.Facts.Interval(lim)
				if iv.Lo == nil || iv.Lo.Sign() < 1 {
					bad = append(bad, fmt.Sprintf("lru.New(%s) with range %s: 0 means NO LIMIT in groupcache/lru (negative never evicts either) on %s", prettyTerm(lim), iv, where))
				}
				// sum: limit = size / V with V the number of shards
				sizePos := false
				if sizeSym != nil {
					// every path that a size >= 1 can take: the substitute for "size not set" is for sizes below 1 only
					if siv := pr.Facts.Interval(sizeSym); siv.Hi == nil || siv.Hi.Sign() >= 1 {
						sizePos = true
					}
				}
				if sizePos {
					okSum := lim.Op == "bin" && lim.Name == "/" && lim.Args[0].Key() == sizeSym.Key() && shards != nil && lim.Args[1].Key() == shards.Key()
					if !okSum {
						sum = append(sum, fmt.Sprintf("shard limit %s is not size / (number of shards %s): the limits need not add up to <= size on %s", prettyTerm(lim), prettyTerm(shards), where))
					}
				}
			}
		}
	})
	if sim.Overflow || n == 0 || news == 0 {
		c.undecided("shard-limit-positive", name, pos, "idiom not recognised: no lru.New reached")
		return
	}
	c.check(len(bad) == 0, "shard-limit-positive", name, pos, fmt.Sprintf("%d paths, %d shard constructions: the limit passed to lru.New is >= 1 for every int size", n, news), strings.Join(uniq(bad), " || "), news)
	c.check(len(sum) == 0, "shard-sum", name, pos, "for size >= 1: limit = size / V, V = number of shards, hence V*floor(size/V) <= size", strings.Join(uniq(sum), " || "), news)

	// who may construct / resize
	bad = nil
	sites := 0
	for _, f := range c.P.allFuncs {
		for _, b := range f.Blocks {
			for _, in := range b.Instrs {
				if ci, ok := in.(ssa.CallInstruction); ok {
					if sc := ci.Common().StaticCallee(); sc != nil && sc.String() == "github.com/golang/groupcache/lru.New" {
						sites++
						if !onlyReachedFrom(c.P, f, fn, map[*ssa.Function]bool{}) {
							bad = append(bad, fmt.Sprintf("%s: lru.New is called from %s, which is reachable other than through %s (a shard built or rebuilt outside the capacity arithmetic)", c.P.pos(in.Pos()), funcName(f), funcName(fn)))
						}
					}
				}
				if st, ok := in.(*ssa.Store); ok {
					if nt, ok := st.Val.Type().(*types.Named); ok && nt.Obj().Pkg() != nil && nt.Obj().Pkg().Path() == "github.com/golang/groupcache/lru" && nt.Obj().Name() == "Cache" {
						bad = append(bad, fmt.Sprintf("%s: %s overwrites a whole lru.Cache value (the limit given to lru.New is lost: a zero lru.Cache has MaxEntries 0, which means no limit)", c.P.pos(st.Pos()), funcName(f)))
					}
					if fa, ok := st.Addr.(*ssa.FieldAddr); ok {
						fv := fieldOf(fa.X.Type(), fa.Field)
						if fv.Pkg() != nil && fv.Pkg().Path() == "github.com/golang/groupcache/lru" && fv.Name() == "OnEvicted" && harmlessEvictionHook(st) {
							continue // an observer installed on a cache built in the same function
						}
						if fv.Pkg() != nil && fv.Pkg().Path() == "github.com/golang/groupcache/lru" {
							bad = append(bad, fmt.Sprintf("%s: %s writes lru.Cache.%s (limit/eviction hook changed behind the capacity arithmetic)", c.P.pos(st.Pos()), funcName(f), fv.Name()))
						}
					}
				}
			}
		}
	}
	if sites == 0 {
		c.undecided("only-constructor", "lru.New", "-", "no call of lru.New found")
	} else {
		c.check(len(bad) == 0, "only-constructor", "lru.New", pos, "lru.New is reached only through NewDispatcher, no pike code writes lru.Cache's limit (an eviction hook may only observe)", strings.Join(uniq(bad), " || "), sites)
	}
}

// onlyReachedFrom: f is root, or an unexported function all of whose static
// callers are (transitively) so, and whose address is never taken.
func onlyReachedFrom(p *Program, f, root *ssa.Function, seen map[*ssa.Function]bool) bool {
	if f == root {
		return true
	}
	if seen[f] {
		return true
	}
	seen[f] = true
	if f.Object() != nil && f.Object().Exported() {
		return false
	}
	callers := 0
	for _, g := range p.allFuncs {
		for _, b := range g.Blocks {
			for _, in := range b.Instrs {
				for _, op := range in.Operands(nil) {
					if *op != ssa.Value(f) {
						continue
					}
					ci, ok := in.(ssa.CallInstruction)
					if !ok || ci.Common().Value != f {
						return false // used as a value
					}
					if _, isGo := in.(*ssa.Go); isGo {
						return false
					}
					callers++
					if !onlyReachedFrom(p, g, root, seen) {
						return false
					}
				}
			}
		}
	}
	return callers > 0
}

// harmlessEvictionHook: the OnEvicted hook stored by st is a function literal
// that neither calls back into an lru.Cache nor keeps the evicted key or value,
// and it is installed on a cache built in the same function.
func harmlessEvictionHook(st *ssa.Store) bool {
	fa := st.Addr.(*ssa.FieldAddr)
	fresh := false
	if call, ok := fa.X.(*ssa.Call); ok {
		if sc := call.Call.StaticCallee(); sc != nil && sc.String() == "github.com/golang/groupcache/lru.New" {
			fresh = true
		}
	}
	if ld, ok := fa.X.(*ssa.UnOp); ok {
		// the cache field of the shard being built in this function
		if ofa, ok := ld.X.(*ssa.FieldAddr); ok {
			if _, isAlloc := ofa.X.(*ssa.Alloc); isAlloc {
				fresh = true
			}
		}
	}
	if !fresh {
		return false
	}
	var hook *ssa.Function
	switch x := st.Val.(type) {
	case *ssa.MakeClosure:
		hook, _ = x.Fn.(*ssa.Function)
	case *ssa.Function:
		hook = x
	}
	if hook == nil || hook.Blocks == nil {
		return false
	}
	for _, b := range hook.Blocks {
		for _, in := range b.Instrs {
			if ci, ok := in.(ssa.CallInstruction); ok {
				if sc := ci.Common().StaticCallee(); sc != nil && strings.Contains(sc.String(), "groupcache/lru.") {
					return false
				}
				// a hook that talks to the persistent store is not an observer
				if cc := ci.Common(); cc.IsInvoke() {
					if nt, ok := cc.Value.Type().(*types.Named); ok && nt.Obj().Pkg() != nil && nt.Obj().Pkg().Path() == pkgPath("store") {
						return false
					}
				}
				if ci.Common().StaticCallee() == nil && !ci.Common().IsInvoke() {
					if _, isB := ci.Common().Value.(*ssa.Builtin); !isB {
						return false
					}
				}
			}
		}
	}
	for _, prm := range hook.Params {
		if prm.Referrers() == nil {
			continue
		}
		for _, r := range *prm.Referrers() {
			if !transientUse(prm, r, map[ssa.Value]bool{}, 0) {
				return false
			}
		}
	}
	return true
}

// ruleEntryContainers: pointers to cache entries are retained only by the
// bounded LRU (lru.Cache.Add); no other field, map, slice, pool or channel holds
// them.
func ruleEntryContainers(c *Ctx, a *cacheAnchors) {
	entryPtr := types.NewPointer(a.entry)
	isEntry := func(t types.Type) bool { return types.Identical(t, entryPtr) }
	n := 0
	bad := []string{}
	// static types: no struct field / global of pike mentions *httpCache
	var mentions func(t types.Type, depth int) bool
	mentions = func(t types.Type, depth int) bool {
		if depth > 4 {
			return false
		}
		if isEntry(t) {
			return true
		}
		switch u := t.(type) {
		case *types.Slice:
			return mentions(u.Elem(), depth+1)
		case *types.Array:
			return mentions(u.Elem(), depth+1)
		case *types.Map:
			return mentions(u.Elem(), depth+1) || mentions(u.Key(), depth+1)
		case *types.Chan:
			return mentions(u.Elem(), depth+1)
		case *types.Pointer:
			return mentions(u.Elem(), depth+1) && !isEntry(t)
		}
		return false
	}
	for path, tp := range c.P.TypePkgs {
		if !strings.HasPrefix(path, pikeMod) {
			continue
		}
		for _, nm := range tp.Scope().Names() {
			switch o := tp.Scope().Lookup(nm).(type) {
			case *types.TypeName:
				if st, ok := o.Type().Underlying().(*types.Struct); ok {
					for i := 0; i < st.NumFields(); i++ {
						n++
						if mentions(st.Field(i).Type(), 0) {
							bad = append(bad, fmt.Sprintf("%s: field %s.%s of type %s retains cache entries outside the bounded LRU", c.P.pos(st.Field(i).Pos()), o.Name(), st.Field(i).Name(), types.TypeString(st.Field(i).Type(), nil)))
						}
					}
				}
			case *types.Var:
				n++
				if mentions(o.Type(), 0) {
					bad = append(bad, fmt.Sprintf("%s: package variable %s retains cache entries", c.P.pos(o.Pos()), o.Name()))
				}
			}
		}
	}
	// dynamic: an entry boxed into an interface may only go to lru.Cache.Add
	for _, f := range c.P.allFuncs {
		for _, b := range f.Blocks {
			for _, in := range b.Instrs {
				mi, ok := in.(*ssa.MakeInterface)
				if !ok || !isEntry(mi.X.Type()) {
					continue
				}
				for _, r := range *mi.Referrers() {
					n++
					okUse := false
					if ci, ok := r.(ssa.CallInstruction); ok {
						if sc := ci.Common().StaticCallee(); sc != nil && sc.String() == "(*github.com/golang/groupcache/lru.Cache).Add" {
							okUse = true
						}
					}
					if _, ok := r.(*ssa.Return); ok {
						okUse = true
					}
					if !okUse && transientUse(mi, r, map[ssa.Value]bool{}, 0) {
						okUse = true
					}
					if !okUse {
						bad = append(bad, fmt.Sprintf("%s: an entry is boxed and handed to something other than lru.Cache.Add in %s", c.P.pos(r.Pos()), funcName(f)))
					}
				}
			}
		}
	}
	c.check(len(bad) == 0, "entry-containers", "cache", "cache/dispatcher.go", fmt.Sprintf("%d fields/variables/boxings examined: only lru.Cache.Add retains *httpCache values", n), strings.Join(uniq(bad), " || "), n)
}

// transientUse: instruction r uses the boxed value v only for the duration of a
// call: as the receiver of an interface call, as an argument of a pike function
// whose parameter is in turn only used transiently, or captured by a function
// literal that is only called or deferred.
func transientUse(v ssa.Value, r ssa.Instruction, seen map[ssa.Value]bool, depth int) bool {
	if depth > 5 {
		return false
	}
	all := func(x ssa.Value) bool {
		if seen[x] {
			return true
		}
		seen[x] = true
		if x.Referrers() == nil {
			return false
		}
		for _, r2 := range *x.Referrers() {
			if !transientUse(x, r2, seen, depth+1) {
				if os.Getenv("PL_DEBUG") != "" {
					fmt.Fprintf(os.Stderr, "transientUse: %s used by %T %s\n", x, r2, r2)
				}
				return false
			}
		}
		return true
	}
	switch x := r.(type) {
	case *ssa.DebugRef:
		return true
	case ssa.CallInstruction:
		cc := x.Common()
		if cc.IsInvoke() && cc.Value == v {
			for _, a := range cc.Args {
				if a == v {
					return false
				}
			}
			return true
		}
		if _, isGo := r.(*ssa.Go); isGo {
			return false
		}
		sc := cc.StaticCallee()
		if cc.Value == v && sc == nil {
			return true // the value is itself the function being called (a closure)
		}
		if sc == nil || sc.Blocks == nil || !isPikeFunc(sc) {
			return false
		}
		for i, a := range cc.Args {
			if a == v {
				if i >= len(sc.Params) || !all(sc.Params[i]) {
					return false
				}
			}
		}
		return true
	case *ssa.MakeClosure:
		fn, ok := x.Fn.(*ssa.Function)
		if !ok {
			return false
		}
		for i, bnd := range x.Bindings {
			if bnd == v && !all(fn.FreeVars[i]) {
				return false
			}
		}
		// the literal itself must only be called / deferred
		if x.Referrers() == nil {
			return false
		}
		for _, r2 := range *x.Referrers() {
			switch y := r2.(type) {
			case *ssa.Defer:
				if y.Call.Value != x {
					return false
				}
			case *ssa.Call:
				if y.Call.Value != x {
					return false
				}
			case *ssa.DebugRef:
			default:
				return false
			}
		}
		return true
	case *ssa.Store:
		// spilled into a local variable (captured by a function literal): every read of
		// that variable must be transient too
		if x.Val != v {
			return true
		}
		var cell func(p ssa.Value, d int) bool
		cell = func(p ssa.Value, d int) bool {
			if d > 3 || p.Referrers() == nil {
				return false
			}
			if seen[p] {
				return true
			}
			seen[p] = true
			for _, r2 := range *p.Referrers() {
				switch y := r2.(type) {
				case *ssa.Store:
					if y.Addr != p {
						return false
					}
				case *ssa.UnOp:
					if !all(y) {
						return false
					}
				case *ssa.MakeClosure:
					fn, ok := y.Fn.(*ssa.Function)
					if !ok {
						return false
					}
					for i, bnd := range y.Bindings {
						if bnd == p && !cell(fn.FreeVars[i], d+1) {
							return false
						}
					}
					for _, r3 := range *y.Referrers() {
						switch z := r3.(type) {
						case *ssa.Defer:
							if z.Call.Value != y {
								return false
							}
						case *ssa.Call:
							if z.Call.Value != y {
								return false
							}
						case *ssa.DebugRef:
						default:
							return false
						}
					}
				case *ssa.DebugRef:
				default:
					return false
				}
			}
			return true
		}
		al, ok := x.Addr.(*ssa.Alloc)
		return ok && cell(al, 0)
	case *ssa.Phi:
		return all(x)
	case *ssa.ChangeInterface:
		return all(x)
	case *ssa.TypeAssert:
		return true // back to the concrete entry type: covered by the static field/variable scan
	case *ssa.BinOp:
		return true // comparison with nil
	}
	return false
}

// rulePurge: RemoveHTTPCache removes the key from the shard the lookup uses and,
// whenever a store is configured, deletes the record — on every path, under the
// shard lock, without touching an entry.
func rulePurge(c *Ctx, a *cacheAnchors) {
	fn := c.P.Method("cache", "dispatcher", "RemoveHTTPCache")
	if fn == nil {
		c.undecided("remove-both", "RemoveHTTPCache", "-", "cache.(*dispatcher).RemoveHTTPCache not found")
		return
	}
	name, pos := funcName(fn), c.P.pos(fn.Pos())
	n := 0
	bad := []string{}
	var key *Term
	withStore := 0
	sim := c.P.Simulate(fn, SimConfig{Inline: inlineDispatch, Init: func(s *Sim, st *State, params []*Term) { key = params[1] }}, func(pr *PathResult) {
		n++
		where := "path [" + condString(pr.Conds) + "]"
		removed, deleted, locked := false, false, false
		storeNil := false
		storeKnown := false
		for _, l := range pr.Conds {
			if l.Atom.Op == "eq" && l.Atom.Args[1].IsNil() && l.Atom.Args[0].Op == "init" && l.Atom.Args[0].Args[0].Name == "store" {
				storeKnown = true
				storeNil = l.Pol
			}
		}
		for _, e := range pr.Events {
			switch {
			case e.calleeIs("(*sync.Mutex).Lock", "(*sync.RWMutex).Lock"):
				locked = true
			case e.calleeIs("(*sync.Mutex).Unlock", "(*sync.RWMutex).Unlock"):
				locked = false
			case e.Kind == "call" && e.Callee != nil && e.Callee.Name() == "getLRU":
				if e.Args[1].Key() != key.Key() {
					bad = append(bad, "the shard purged is not the key's shard on "+where)
				}
			case isLRUCall(e, "Remove"):
				removed = true
				if !locked {
					bad = append(bad, "the LRU is modified without the shard lock on "+where)
				}
				if !isKeyString(e.Args[1], key) {
					bad = append(bad, "the LRU entry removed is "+prettyTerm(e.Args[1])+", not the whole key, on "+where)
				}
			case e.Kind == "call" && e.Callee != nil && e.Callee.Signature.Recv() != nil && strings.HasSuffix(e.Callee.Signature.Recv().Type().String(), "cache.httpCache") && e.Callee.Object() != nil && e.Callee.Object().Exported():
				// the entry's exported methods take the entry lock, which a completing fetch holds across store I/O
				bad = append(bad, "the purge calls "+funcName(e.Callee)+" on the entry: it takes the entry lock and so waits for an in-flight fetch's completion (and its store write) while holding the shard lock on "+where)
			case e.Kind == "invoke" && e.Method != nil && e.Method.Name() == "Delete":
				deleted = true
				if !locked {
					bad = append(bad, "the persisted record is deleted without the shard lock held (a request racing the purge re-creates the entry and restores it from the not-yet-deleted record) on "+where)
				}
				if e.Args[1].Key() != key.Key() {
					bad = append(bad, "the record deleted is "+prettyTerm(e.Args[1])+", not the key, on "+where)
				}
			case e.Kind == "store" && e.Addr.Op == "fa" && e.Addr.Obj != nil && e.Addr.Obj.Pkg() != nil && strings.HasSuffix(e.Addr.Obj.Pkg().Path(), "/cache"):
				if fv, ok := e.Addr.Obj.(*types.Var); ok && (fv == a.fStatus || fv == a.fChanList || fv == a.fResponse || fv == a.fExpiredAt || fv == a.fCreatedAt) {
					bad = append(bad, "the purge writes the entry's "+fv.Name()+" (requests holding the entry, e.g. waiters of an in-flight fetch, are affected) on "+where)
				}
			}
		}
		if !removed {
			bad = append(bad, "returns without removing the key from the LRU on "+where)
		}
		if !storeKnown {
			bad = append(bad, "does not test whether a store is configured on "+where)
		} else if !storeNil {
			withStore++
			if !deleted {
				bad = append(bad, "a store is configured but the persisted record is not deleted (the next lookup restores the purged entry) on "+where)
			}
		}
	})
	if sim.Overflow || n == 0 || withStore == 0 {
		c.undecided("remove-both", name, pos, "idiom not recognised")
		return
	}
	c.check(len(bad) == 0, "remove-both", name, pos, fmt.Sprintf("%d paths: LRU removal under the shard lock on every path, store.Delete(key) whenever a store is configured, no entry field touched", n), strings.Join(uniq(bad), " || "), n)
}

// rulePurgeAll: the unnamed purge visits every cache.
// everyArgPurges: every call of helper h in pike passes a function literal that calls RemoveHTTPCache.
func everyArgPurges(p *Program, h *ssa.Function) bool {
	sites := 0
	for _, f := range p.allFuncs {
		for _, b := range f.Blocks {
			for _, in := range b.Instrs {
				ci, ok := in.(ssa.CallInstruction)
				if !ok || ci.Common().StaticCallee() != h {
					continue
				}
				sites++
				okSite := false
				for _, a := range ci.Common().Args {
					if mc, ok := a.(*ssa.MakeClosure); ok {
						if lit, ok := mc.Fn.(*ssa.Function); ok {
							for _, bb := range lit.Blocks {
								for _, i2 := range bb.Instrs {
									if c2, ok := i2.(ssa.CallInstruction); ok {
										if sc := c2.Common().StaticCallee(); sc != nil && sc.Name() == "RemoveHTTPCache" {
											okSite = true
										}
									}
								}
							}
						}
					}
				}
				if !okSite {
					return false
				}
			}
		}
	}
	return sites > 0
}

func rulePurgeAll(c *Ctx) {
	fn := c.P.Method("cache", "dispatchers", "RemoveHTTPCache")
	if fn == nil {
		c.undecided("all-caches", "dispatchers.RemoveHTTPCache", "-", "not found")
		return
	}
	name, pos := funcName(fn), c.P.pos(fn.Pos())
	n := 0
	bad := []string{}
	sawRange, sawNamed := false, false
	c.P.Simulate(fn, SimConfig{}, func(pr *PathResult) {
		n++
		where := "path [" + condString(pr.Conds) + "]"
		nameSym := &Term{Op: "sym", Name: "p:" + fn.Params[1].Name(), Type: fn.Params[1].Type()}
		known, nameEmpty := pr.Facts.Decide(eqTerm(nameSym, strTerm("")))
		if !known {
			bad = append(bad, "does not distinguish the named from the unnamed purge on "+where)
			return
		}
		if nameEmpty {
			for _, e := range pr.Events {
				if e.Kind == "call" && e.Callee != nil && e.Callee.String() == "(*sync.Map).Range" {
					sawRange = true
				}
			}
		} else {
			sawNamed = true
			for _, e := range pr.Events {
				if e.Kind == "call" && e.Callee != nil && e.Callee.String() == "(*sync.Map).Range" {
					bad = append(bad, "a named purge touches every cache on "+where)
				}
			}
		}
	})
	if !sawRange {
		bad = append(bad, "the unnamed purge does not range over all caches")
	}
	// the Range callback: calls RemoveHTTPCache(key) on every dispatcher and always returns true
	cb := 0
	cbs := []*ssa.Function{}
	for g := range staticScope(fn, "cache", 2) {
		for _, b := range g.Blocks {
			for _, in := range b.Instrs {
				if ci, ok := in.(ssa.CallInstruction); ok {
					if sc := ci.Common().StaticCallee(); sc != nil && sc.String() == "(*sync.Map).Range" {
						if mc, ok := ci.Common().Args[1].(*ssa.MakeClosure); ok {
							cbs = append(cbs, mc.Fn.(*ssa.Function))
						}
					}
				}
			}
		}
	}
	for _, an := range cbs {
		c.P.Simulate(an, SimConfig{}, func(pr *PathResult) {
			cb++
			if len(pr.Results) != 1 || !pr.Results[0].IsTrue() {
				bad = append(bad, "the Range callback can return false: iteration stops after the first cache")
			}
			okT := false
			for _, l := range pr.Conds {
				if l.Atom.Op == "taok" && l.Pol {
					okT = true
				}
			}
			called := false
			for _, e := range pr.Events {
				if e.Kind == "call" && e.Callee != nil && e.Callee.Name() == "RemoveHTTPCache" {
					called = true
				}
				// an iteration helper (each(fn)): the function it is given must do the purge at every use
				if e.Kind == "dyncall" && an.Parent() != nil && an.Parent() != fn && everyArgPurges(c.P, an.Parent()) {
					called = true
				}
			}
			if okT && !called {
				bad = append(bad, "the Range callback skips a cache")
			}
		})
	}
	if cb == 0 || !sawNamed {
		c.undecided("all-caches", name, pos, "idiom not recognised")
		return
	}
	c.check(len(bad) == 0, "all-caches", name, pos, "unnamed purge ranges over every dispatcher, the callback purges each and always continues; a named purge touches one cache", strings.Join(uniq(bad), " || "), n+cb)
}

// ruleEntryWriters: the only functions that write the live entry's state fields
// are the verified ones (lookup, completions, store loader); the decoder writes
// them only on a scratch object.
func ruleEntryWriters(c *Ctx, a *cacheAnchors) {
	fields := map[*types.Var]bool{a.fStatus: true, a.fChanList: true, a.fResponse: true, a.fCreatedAt: true, a.fExpiredAt: true}
	verified := map[*ssa.Function]bool{a.get: true}
	for _, f := range a.completions {
		verified[f] = true
	}
	if a.initFromStore != nil {
		verified[a.initFromStore] = true
	}
	// helpers of the verified functions: every call site lies in a verified function (or another such helper) and
	// passes that function's own receiver, so the helper's stores are part of the paths the verified rules analyse
	for changed := true; changed; {
		changed = false
		for _, f := range c.P.allFuncs {
			if verified[f] || !isHelper(f) || !inPkg(f, "cache") || len(f.Params) == 0 {
				continue
			}
			sites, ok := 0, true
			for _, g := range c.P.allFuncs {
				for _, b := range g.Blocks {
					for _, in := range b.Instrs {
						if ci, isCall := in.(ssa.CallInstruction); isCall && ci.Common().StaticCallee() == f {
							sites++
							if _, isGo := in.(*ssa.Go); isGo {
								ok = false
							}
							arg := ci.Common().Args[0]
							if !(verified[g] && len(g.Params) > 0 && arg == ssa.Value(g.Params[0])) {
								if _, isAlloc := arg.(*ssa.Alloc); !isAlloc {
									ok = false
								}
							}
						}
					}
				}
			}
			if ok && sites > 0 {
				verified[f] = true
				changed = true
			}
		}
	}
	n := 0
	bad := []string{}
	for _, f := range c.P.allFuncs {
		writes := []string{}
		fresh := true
		for _, b := range f.Blocks {
			for _, in := range b.Instrs {
				st, ok := in.(*ssa.Store)
				if !ok {
					continue
				}
				fa, ok := st.Addr.(*ssa.FieldAddr)
				if !ok || !fields[fieldOf(fa.X.Type(), fa.Field)] {
					continue
				}
				writes = append(writes, fieldOf(fa.X.Type(), fa.Field).Name())
				if _, isAlloc := fa.X.(*ssa.Alloc); !isAlloc {
					fresh = false
				}
			}
		}
		if len(writes) == 0 {
			continue
		}
		n++
		if verified[f] || fresh {
			continue
		}
		// a decoder writing its receiver: every call site must pass a scratch object
		if len(f.Params) > 0 {
			okSites, sites := true, 0
			for _, g := range c.P.allFuncs {
				for _, b := range g.Blocks {
					for _, in := range b.Instrs {
						if ci, ok := in.(ssa.CallInstruction); ok && ci.Common().StaticCallee() == f {
							sites++
							if _, isAlloc := ci.Common().Args[0].(*ssa.Alloc); !isAlloc {
								okSites = false
								bad = append(bad, fmt.Sprintf("%s: %s (writes %s) is applied to a live entry in %s", c.P.pos(in.Pos()), funcName(f), strings.Join(uniq(writes), ","), funcName(g)))
							}
						}
					}
				}
			}
			if okSites {
				continue
			}
		} else {
			bad = append(bad, fmt.Sprintf("%s writes entry state (%s) outside the verified lookup/completion/loader functions", funcName(f), strings.Join(uniq(writes), ",")))
		}
	}
	c.check(len(bad) == 0, "entry-writers", "cache.httpCache", c.P.pos(a.get.Pos()),
		fmt.Sprintf("%d functions write status/chanList/response/createdAt/expiredAt: the lookup, the completions and the loader (each verified path by path), constructors, and the decoder on scratch objects only", n), strings.Join(uniq(bad), " || "), n)
}

const addTok = token.ADD

// ruleLRUContract (thorough tier, whole-program SSA): re-confirms in the
// dependency's own code the contract the capacity and locking rules assume:
// Add evicts exactly when MaxEntries != 0 and the list is longer than it (so 0
// means "no limit"), New stores its argument in MaxEntries, and Get reorders the
// list (so lookups need the exclusive lock).
func ruleLRUContract(c *Ctx) {
	if !c.P.Whole {
		return
	}
	var add, get, newf *ssa.Function
	for fn := range ssautilAll(c.P) {
		switch fn.String() {
		case "(*github.com/golang/groupcache/lru.Cache).Add":
			add = fn
		case "(*github.com/golang/groupcache/lru.Cache).Get":
			get = fn
		case "github.com/golang/groupcache/lru.New":
			newf = fn
		}
	}
	if add == nil || get == nil || newf == nil || add.Blocks == nil {
		c.undecided("lru-contract", "groupcache/lru", "-", "dependency functions not found in the whole-program SSA")
		return
	}
	bad := []string{}
	n := 0
	c.P.Simulate(add, SimConfig{}, func(pr *PathResult) {
		n++
		inserted, evicted := false, false
		var maxZero *bool
		over := false
		for _, e := range pr.Events {
			if e.Kind == "call" && e.Callee != nil {
				switch e.Callee.Name() {
				case "PushFront":
					inserted = true
				case "RemoveOldest":
					evicted = true
				}
			}
		}
		for _, l := range pr.Conds {
			if l.Atom.Op == "eq" && l.Atom.Args[0].Op == "init" && l.Atom.Args[0].Args[0].Name == "MaxEntries" {
				if v, ok := l.Atom.Args[1].IntVal(); ok && v == 0 {
					z := l.Pol
					maxZero = &z
				}
			}
			if l.Atom.Op == "lt" && l.Pol && l.Atom.Args[0].Op == "init" && l.Atom.Args[0].Args[0].Name == "MaxEntries" {
				over = true
			}
		}
		if !inserted {
			return
		}
		if maxZero == nil {
			bad = append(bad, "Add inserts without consulting MaxEntries")
			return
		}
		if *maxZero && evicted {
			bad = append(bad, "Add evicts although MaxEntries == 0")
		}
		if !*maxZero && over && !evicted {
			bad = append(bad, "Add does not evict although the list is longer than MaxEntries")
		}
		if !*maxZero && !over && evicted {
			bad = append(bad, "Add evicts although the list is within MaxEntries")
		}
	})
	reorders := false
	c.P.Simulate(get, SimConfig{}, func(pr *PathResult) {
		n++
		for _, e := range pr.Events {
			if e.Kind == "call" && e.Callee != nil && e.Callee.Name() == "MoveToFront" {
				reorders = true
			}
		}
	})
	if !reorders {
		bad = append(bad, "Get no longer reorders the list (the write-lock requirement of the shard lookup would be stronger than needed, not wrong)")
	}
	stores := false
	c.P.Simulate(newf, SimConfig{}, func(pr *PathResult) {
		n++
		for _, e := range pr.Events {
			if e.Kind == "store" && e.Addr.Op == "fa" && e.Addr.Name == "MaxEntries" && e.Val.Op == "sym" {
				stores = true
			}
		}
	})
	if !stores {
		bad = append(bad, "lru.New does not store its argument in MaxEntries")
	}
	c.check(len(bad) == 0, "lru-contract", "groupcache/lru", "github.com/golang/groupcache/lru", fmt.Sprintf("%d paths of the dependency: New(n) sets MaxEntries=n; Add evicts iff MaxEntries != 0 and Len() > MaxEntries (0 = unlimited); Get calls MoveToFront", n), strings.Join(uniq(bad), " || "), n)
}

func ssautilAll(p *Program) map[*ssa.Function]bool {
	out := map[*ssa.Function]bool{}
	for _, pkg := range p.Prog.AllPackages() {
		for _, m := range pkg.Members {
			switch m := m.(type) {
			case *ssa.Function:
				out[m] = true
			case *ssa.Type:
				for _, t := range []types.Type{m.Type(), types.NewPointer(m.Type())} {
					ms := p.Prog.MethodSets.MethodSet(t)
					for i := 0; i < ms.Len(); i++ {
						if f := p.Prog.MethodValue(ms.At(i)); f != nil {
							out[f] = true
						}
					}
				}
			}
		}
	}
	return out
}
