package main

// Field-level lockset analysis (interprocedural, summary based).
//
// For each pike function a forward dataflow over the SSA blocks computes the
// set of locks held at every instruction (meet = intersection; a deferred
// Unlock keeps the lock to the end of the function). A lock is identified by
// the access path of the object that owns the mutex (parameter i, free variable
// i, a call result, ...). Every access to a guarded field must hold the guard of
// the same object in a sufficient mode; when the object is a parameter and the
// lock is not held locally the function gets the summary "requires (param i,
// mode) at entry", which is checked at every call site and propagated.

import (
	"fmt"
	"go/token"
	"go/types"
	"sort"
	"strings"

	"golang.org/x/tools/go/ssa"
)

type guardSpec struct {
	pkg, typ, mutex string
	fields          []string
	useNeedsWrite   map[string]bool // fields whose mere use requires the write lock (non-thread-safe containers)
}

var guardTable = []guardSpec{
	{"cache", "httpCache", "mu", []string{"status", "chanList", "response", "createdAt", "expiredAt"}, nil},
	{"cache", "httpLRUCache", "mu", []string{"cache"}, map[string]bool{"cache": true}},
	{"server", "server", "mutex", []string{"locations", "cache", "compress", "compressMinLength", "compressContentTypeFilter", "listening", "e", "ln", "listenAddr"}, nil},
	{"location", "Locations", "mutex", []string{"locations"}, nil},
}

type lockMode int

const (
	modeR lockMode = 1
	modeW lockMode = 2
)

type heldLock struct {
	base string
	mode lockMode
}

type lockState map[string]lockMode // base -> strongest mode held

func (s lockState) clone() lockState {
	n := lockState{}
	for k, v := range s {
		n[k] = v
	}
	return n
}
func meetLocks(a, b lockState) lockState {
	n := lockState{}
	for k, v := range a {
		if w, ok := b[k]; ok {
			if w < v {
				v = w
			}
			n[k] = v
		}
	}
	return n
}
func (s lockState) equal(o lockState) bool {
	if len(s) != len(o) {
		return false
	}
	for k, v := range s {
		if o[k] != v {
			return false
		}
	}
	return true
}

type lockReq struct {
	param int
	mode  lockMode
	field string
}

type locksetResult struct {
	accesses   int
	violations []string
	unpaired   []string
	orderEdges map[string]map[string]string // a -> b -> site
	guardedFns int
	notJudged  []string
}

type lsAnalysis struct {
	p        *Program
	guards   map[*types.Var]*types.Var // guarded field -> mutex field
	needW    map[*types.Var]bool
	mutexes  map[*types.Var]string // mutex field -> "pkg.Type.field"
	reqs     map[*ssa.Function][]lockReq
	acquires map[*ssa.Function]map[string]bool // lock classes a function may acquire (transitively)
	res      *locksetResult
	reach    map[*ssa.Function]bool
	// paramCallLocks: for a pike function H and the index of one of its func-typed parameters, the locks
	// (named by H's own parameters) held at every place H calls that parameter: `withLock(fn)` helpers
	paramCallLocks map[*ssa.Function]map[int]lockState
}

// accessPath names the object a pointer value denotes, stable within a function.
func accessPath(v ssa.Value, depth int) (string, bool) {
	if depth > 8 {
		return "", false
	}
	switch x := v.(type) {
	case *ssa.Parameter:
		for i, p := range x.Parent().Params {
			if p == x {
				return fmt.Sprintf("p%d", i), true
			}
		}
	case *ssa.FreeVar:
		for i, p := range x.Parent().FreeVars {
			if p == x {
				return fmt.Sprintf("fv%d", i), true
			}
		}
	case *ssa.Alloc:
		return "alloc:" + x.Name(), true
	case *ssa.Call:
		return "call:" + x.Name(), true
	case *ssa.FieldAddr:
		b, ok := accessPath(x.X, depth+1)
		return b + "." + fieldOf(x.X.Type(), x.Field).Name(), ok
	case *ssa.UnOp:
		b, ok := accessPath(x.X, depth+1)
		return "*" + b, ok
	case *ssa.IndexAddr:
		b, ok := accessPath(x.X, depth+1)
		return b + "[]", ok
	case *ssa.Extract:
		b, ok := accessPath(x.Tuple, depth+1)
		return fmt.Sprintf("%s#%d", b, x.Index), ok
	case *ssa.TypeAssert:
		return accessPath(x.X, depth+1)
	case *ssa.ChangeType:
		return accessPath(x.X, depth+1)
	case *ssa.MakeInterface:
		return accessPath(x.X, depth+1)
	case *ssa.Phi:
		return "phi:" + x.Name(), true
	case *ssa.Global:
		return "global:" + x.Name(), true
	case *ssa.Lookup, *ssa.Index, *ssa.Next, *ssa.Field:
		return "val:" + v.Name(), true
	}
	return "", false
}

func isFreshBase(v ssa.Value, p *Program, depth int) bool {
	if depth > 4 {
		return false
	}
	switch x := v.(type) {
	case *ssa.Alloc:
		return true
	case *ssa.Call:
		// constructor: a pike function all of whose returns are fresh allocations
		if sc := x.Call.StaticCallee(); sc != nil && sc.Blocks != nil && isPikeFunc(sc) {
			all := true
			any := false
			for _, b := range sc.Blocks {
				for _, in := range b.Instrs {
					if r, ok := in.(*ssa.Return); ok && len(r.Results) > 0 {
						any = true
						if !isFreshBase(r.Results[0], p, depth+1) {
							all = false
						}
					}
				}
			}
			return any && all
		}
	case *ssa.Phi:
		for _, e := range x.Edges {
			if !isFreshBase(e, p, depth+1) {
				return false
			}
		}
		return len(x.Edges) > 0
	case *ssa.Extract:
		// first result of a constructor that also returns an error
		if call, ok := x.Tuple.(*ssa.Call); ok && x.Index == 0 {
			if sc := call.Call.StaticCallee(); sc != nil && sc.Blocks != nil && isPikeFunc(sc) {
				all, any := true, false
				for _, b := range sc.Blocks {
					for _, in := range b.Instrs {
						if r, ok := in.(*ssa.Return); ok && len(r.Results) > 0 {
							if cst, isC := r.Results[0].(*ssa.Const); isC && cst.Value == nil {
								continue // nil, err
							}
							any = true
							if !isFreshBase(r.Results[0], p, depth+1) {
								all = false
							}
						}
					}
				}
				return any && all
			}
		}
	}
	return false
}

func (p *Program) newLockset() *lsAnalysis {
	a := &lsAnalysis{p: p, guards: map[*types.Var]*types.Var{}, needW: map[*types.Var]bool{}, mutexes: map[*types.Var]string{},
		reqs: map[*ssa.Function][]lockReq{}, acquires: map[*ssa.Function]map[string]bool{}, paramCallLocks: map[*ssa.Function]map[int]lockState{}, res: &locksetResult{orderEdges: map[string]map[string]string{}}}
	for _, g := range guardTable {
		nt := p.NamedType(g.pkg, g.typ)
		if nt == nil {
			a.res.violations = append(a.res.violations, fmt.Sprintf("UNRESOLVED guarded type %s.%s", g.pkg, g.typ))
			continue
		}
		st, ok := nt.Underlying().(*types.Struct)
		if !ok {
			continue
		}
		// the guard: the struct's only mutex field (found by type, so a rename does not matter)
		var mu *types.Var
		for i := 0; i < st.NumFields(); i++ {
			ts := types.TypeString(st.Field(i).Type(), nil)
			if strings.HasSuffix(ts, "sync.RWMutex") || strings.HasSuffix(ts, "sync.Mutex") {
				mu = st.Field(i)
			}
		}
		if mu == nil {
			a.res.violations = append(a.res.violations, fmt.Sprintf("UNRESOLVED guard of %s.%s", g.pkg, g.typ))
			continue
		}
		a.mutexes[mu] = g.pkg + "." + g.typ + "." + mu.Name()
		// guarded: every other field that is neither listed as immutable after construction nor of an atomic type
		immutable := map[string]bool{}
		for _, f := range immutableFields[g.pkg+"."+g.typ] {
			immutable[f] = true
		}
		if len(g.useNeedsWrite) == 0 {
			// derived: a field that is only ever stored on an object still private to its constructor is
			// immutable after construction and may be read without the lock
			for i := 0; i < st.NumFields(); i++ {
				if fv := st.Field(i); fv != mu && storesOnlyOnFresh(p, fv) {
					immutable[fv.Name()] = true
				}
			}
		}
		for i := 0; i < st.NumFields(); i++ {
			fv := st.Field(i)
			if fv == mu || immutable[fv.Name()] || isAtomicType(fv.Type()) {
				continue
			}
			a.guards[fv] = mu
			if g.useNeedsWrite != nil && len(g.useNeedsWrite) > 0 {
				// non-thread-safe container (the LRU): any use needs the exclusive lock
				if _, isPtr := fv.Type().(*types.Pointer); isPtr {
					a.needW[fv] = true
				}
			}
		}
	}
	return a
}

// immutableFields: fields that are written only while their object is private to
// its constructor (checked by immutable-after-construction) and therefore read
// without a lock.
var immutableFields = map[string][]string{
	"cache.httpCache":    {"key", "store"},
	"cache.httpLRUCache": {},
	"server.server":      {"logFormat", "addr"},
	"location.Locations": {},
}

// storesOnlyOnFresh: field fv is stored to at least once and every store is on a
// freshly allocated object (a constructor).
func storesOnlyOnFresh(p *Program, fv *types.Var) bool {
	n := 0
	for _, f := range p.allFuncs {
		for _, b := range f.Blocks {
			for _, in := range b.Instrs {
				st, ok := in.(*ssa.Store)
				if !ok {
					continue
				}
				fa, ok := st.Addr.(*ssa.FieldAddr)
				if !ok || fieldOf(fa.X.Type(), fa.Field) != fv {
					continue
				}
				n++
				if !isFreshBase(fa.X, p, 0) {
					return false
				}
			}
		}
	}
	return n > 0
}

func isAtomicType(t types.Type) bool {
	if arr, ok := t.Underlying().(*types.Array); ok {
		return isAtomicType(arr.Elem())
	}
	if p, ok := t.(*types.Pointer); ok {
		t = p.Elem()
	}
	n, ok := t.(*types.Named)
	if !ok || n.Obj().Pkg() == nil {
		return false
	}
	pp := n.Obj().Pkg().Path()
	return pp == "go.uber.org/atomic" || pp == "sync/atomic"
}

// lockCall classifies a call as acquire/release of a guard mutex.
func (a *lsAnalysis) lockCall(c *ssa.CallCommon) (base string, mu *types.Var, mode lockMode, acquire bool, ok bool) {
	sc := c.StaticCallee()
	if sc == nil || len(c.Args) == 0 {
		return
	}
	switch sc.String() {
	case "(*sync.RWMutex).Lock", "(*sync.Mutex).Lock":
		mode, acquire = modeW, true
	case "(*sync.RWMutex).RLock":
		mode, acquire = modeR, true
	case "(*sync.RWMutex).Unlock", "(*sync.Mutex).Unlock":
		mode = modeW
	case "(*sync.RWMutex).RUnlock":
		mode = modeR
	default:
		return
	}
	// receiver: load of FieldAddr(owner, mutexField)  (pointer-typed mutex fields) or FieldAddr itself
	recv := c.Args[0]
	var fa *ssa.FieldAddr
	if ld, isLoad := recv.(*ssa.UnOp); isLoad {
		fa, _ = ld.X.(*ssa.FieldAddr)
	} else {
		fa, _ = recv.(*ssa.FieldAddr)
	}
	if fa == nil {
		return
	}
	mu = fieldOf(fa.X.Type(), fa.Field)
	if _, isGuard := a.mutexes[mu]; !isGuard {
		return "", nil, 0, false, false
	}
	b, okp := accessPath(fa.X, 0)
	if !okp {
		return
	}
	return b, mu, mode, acquire, true
}

func (a *lsAnalysis) analyzeFunc(fn *ssa.Function, final bool) bool {
	if fn.Blocks == nil {
		return false
	}
	in := map[*ssa.BasicBlock]lockState{}
	in[fn.Blocks[0]] = lockState{}
	deferredUnlock := map[string]bool{}
	// a function literal handed to a helper that calls it with a lock held starts with that lock
	for base, mode := range a.literalEntryLocks(fn) {
		in[fn.Blocks[0]][base] = mode
		deferredUnlock[base] = true // released by the helper, not by the literal
	}
	paramLocks := map[int]lockState{}
	work := []*ssa.BasicBlock{fn.Blocks[0]}
	seenBlock := map[*ssa.BasicBlock]bool{}
	var reqs []lockReq
	addReq := func(r lockReq) {
		for _, x := range reqs {
			if x.param == r.param && x.mode >= r.mode {
				return
			}
		}
		reqs = append(reqs, r)
	}
	report := func(msg string) {
		if final {
			a.res.violations = append(a.res.violations, msg)
		}
	}
	acq := map[string]bool{}
	transfer := func(b *ssa.BasicBlock, st lockState, check bool) lockState {
		st = st.clone()
		for _, ins := range b.Instrs {
			switch x := ins.(type) {
			case *ssa.Defer:
				if base, _, _, acquire, ok := a.lockCall(&x.Call); ok && !acquire {
					deferredUnlock[base] = true
				}
				continue
			case *ssa.FieldAddr:
				fv := fieldOf(x.X.Type(), x.Field)
				mu, guarded := a.guards[fv]
				if !guarded || !check {
					continue
				}
				_ = mu
				need := modeR
				if a.needW[fv] {
					need = modeW
				}
				for _, r := range *x.Referrers() {
					if s, ok := r.(*ssa.Store); ok && s.Addr == x {
						need = modeW
					}
				}
				base, okp := accessPath(x.X, 0)
				if final {
					a.res.accesses++
				}
				if okp && st[base] >= need {
					continue
				}
				if isFreshBase(x.X, a.p, 0) {
					continue // constructor: the object is not shared yet
				}
				if prm, ok := x.X.(*ssa.Parameter); ok {
					for i, pp := range fn.Params {
						if pp == prm {
							addReq(lockReq{i, need, fv.Name()})
						}
					}
					continue
				}
				mode := map[lockMode]string{modeR: "read", modeW: "write"}[need]
				report(fmt.Sprintf("%s: %s accesses %s.%s without holding its %s lock (held: %s)", a.p.pos(x.Pos()), funcName(fn), base, fv.Name(), mode, st.String()))
			case ssa.CallInstruction:
				cc := x.Common()
				if _, isGo := ins.(*ssa.Go); isGo {
					continue
				}
				if prm, ok := cc.Value.(*ssa.Parameter); ok && !cc.IsInvoke() && check {
					if _, isDefer := ins.(*ssa.Defer); !isDefer {
						for i, pp := range fn.Params {
							if pp != prm {
								continue
							}
							held := lockState{}
							for base, mode := range st {
								if strings.HasPrefix(base, "p") && !strings.ContainsAny(base, ".*[") {
									held[base] = mode
								}
							}
							if old, seen := paramLocks[i]; seen {
								paramLocks[i] = meetLocks(old, held)
							} else {
								paramLocks[i] = held
							}
						}
					}
				}
				if base, mu, mode, acquire, ok := a.lockCall(cc); ok {
					cls := a.mutexes[mu]
					if acquire {
						if check && final {
							for held := range st {
								hc := a.lockClassOf(fn, held)
								if hc != "" {
									if a.res.orderEdges[hc] == nil {
										a.res.orderEdges[hc] = map[string]string{}
									}
									a.res.orderEdges[hc][cls] = a.p.pos(ins.Pos())
								}
							}
						}
						acq[cls] = true
						if st[base] < mode {
							st[base] = mode
						}
					} else {
						if _, held := st[base]; !held && check {
							if _, isDefer := ins.(*ssa.Defer); !isDefer {
								report(fmt.Sprintf("%s: %s unlocks %s, a lock it does not hold at that point (when its caller releases the same lock afterwards the runtime aborts the process: unlock of unlocked mutex)", a.p.pos(ins.Pos()), funcName(fn), cls))
							}
						}
						delete(st, base)
					}
					continue
				}
				// call of a pike function with entry requirements
				var callees []*ssa.Function
				var args []ssa.Value
				if cc.IsInvoke() {
					callees = a.p.implsOf(cc.Method)
					args = append([]ssa.Value{cc.Value}, cc.Args...)
				} else if sc := cc.StaticCallee(); sc != nil && sc.Blocks != nil && isPikeFunc(sc) {
					callees = []*ssa.Function{sc}
					args = cc.Args
				}
				for _, callee := range callees {
					for k := range a.acquires[callee] {
						acq[k] = true
						if check && final {
							for held := range st {
								hc := a.lockClassOf(fn, held)
								if hc != "" {
									if a.res.orderEdges[hc] == nil {
										a.res.orderEdges[hc] = map[string]string{}
									}
									a.res.orderEdges[hc][k] = a.p.pos(ins.Pos())
								}
							}
						}
					}
					if !check {
						continue
					}
					for _, r := range a.reqs[callee] {
						if r.param >= len(args) {
							continue
						}
						arg := args[r.param]
						base, okp := accessPath(arg, 0)
						if okp && st[base] >= r.mode {
							continue
						}
						if isFreshBase(arg, a.p, 0) {
							continue
						}
						if prm, ok := arg.(*ssa.Parameter); ok {
							for i, pp := range fn.Params {
								if pp == prm {
									addReq(lockReq{i, r.mode, r.field})
								}
							}
							continue
						}
						mode := map[lockMode]string{modeR: "read", modeW: "write"}[r.mode]
						report(fmt.Sprintf("%s: %s calls %s, which accesses %s of its argument without locking, but does not hold that object's %s lock (held: %s)", a.p.pos(ins.Pos()), funcName(fn), funcName(callee), r.field, mode, st.String()))
					}
				}
			case *ssa.Return:
				if check && final {
					for base := range st {
						if !deferredUnlock[base] {
							a.res.unpaired = append(a.res.unpaired, fmt.Sprintf("%s: %s returns with the lock of %s still held", a.p.pos(x.Pos()), funcName(fn), base))
						}
					}
				}
			}
		}
		return st
	}
	// fixpoint on lock states
	for len(work) > 0 {
		b := work[0]
		work = work[1:]
		out := transfer(b, in[b], false)
		for _, s := range b.Succs {
			old, ok := in[s]
			var nw lockState
			if !ok {
				nw = out.clone()
			} else {
				nw = meetLocks(old, out)
			}
			if !ok || !nw.equal(old) {
				in[s] = nw
				work = append(work, s)
			}
		}
		seenBlock[b] = true
	}
	for _, b := range fn.Blocks {
		if st, ok := in[b]; ok {
			transfer(b, st, true)
		}
	}
	changed := false
	if len(paramLocks) > 0 || len(a.paramCallLocks[fn]) > 0 {
		oldPL := a.paramCallLocks[fn]
		if len(oldPL) != len(paramLocks) {
			changed = true
		}
		for i, ls := range paramLocks {
			if o, ok := oldPL[i]; !ok || !o.equal(ls) {
				changed = true
			}
		}
		a.paramCallLocks[fn] = paramLocks
	}
	old := a.reqs[fn]
	if len(old) != len(reqs) {
		changed = true
	}
	a.reqs[fn] = reqs
	oa := a.acquires[fn]
	if len(oa) != len(acq) {
		changed = true
	}
	a.acquires[fn] = acq
	return changed
}

// literalEntryLocks: fn is a function literal every use of which is as an argument of a pike function that calls
// that parameter only with some of its own parameters' locks held; the result names those locks as the literal
// sees the objects (through its free variables).
func (a *lsAnalysis) literalEntryLocks(fn *ssa.Function) lockState {
	parent := fn.Parent()
	if parent == nil {
		return nil
	}
	var result lockState
	uses := 0
	for _, b := range parent.Blocks {
		for _, ins := range b.Instrs {
			mc, ok := ins.(*ssa.MakeClosure)
			if !ok || mc.Fn != ssa.Value(fn) {
				continue
			}
			for _, r := range *mc.Referrers() {
				uses++
				ci, ok := r.(ssa.CallInstruction)
				if !ok {
					return nil
				}
				if _, isGo := r.(*ssa.Go); isGo {
					return nil
				}
				cc := ci.Common()
				sc := cc.StaticCallee()
				if sc == nil || !isPikeFunc(sc) || cc.Value == ssa.Value(mc) {
					return nil
				}
				here := lockState{}
				found := false
				for k, arg := range cc.Args {
					if arg != ssa.Value(mc) {
						continue
					}
					found = true
					for base, mode := range a.paramCallLocks[sc][k] {
						var idx int
						if _, err := fmt.Sscanf(base, "p%d", &idx); err != nil || idx >= len(cc.Args) {
							continue
						}
						// the object whose lock is held, as the literal names it
						obj := cc.Args[idx]
						for j, bind := range mc.Bindings {
							if ld, ok := obj.(*ssa.UnOp); ok && ld.Op == token.MUL && ld.X == bind {
								here[fmt.Sprintf("*fv%d", j)] = mode
							}
							if obj == bind {
								here[fmt.Sprintf("fv%d", j)] = mode
							}
						}
					}
				}
				if !found {
					return nil
				}
				if result == nil {
					result = here
				} else {
					result = meetLocks(result, here)
				}
			}
		}
	}
	if uses == 0 {
		return nil
	}
	return result
}

func (s lockState) String() string {
	ks := []string{}
	for k, v := range s {
		ks = append(ks, fmt.Sprintf("%s:%s", k, map[lockMode]string{modeR: "R", modeW: "W"}[v]))
	}
	sort.Strings(ks)
	if len(ks) == 0 {
		return "none"
	}
	return strings.Join(ks, ",")
}

// lockClassOf maps a held base back to the class of its mutex (by the type of
// the owner); approximated through the function's lock calls.
func (a *lsAnalysis) lockClassOf(fn *ssa.Function, base string) string {
	for _, b := range fn.Blocks {
		for _, ins := range b.Instrs {
			if ci, ok := ins.(ssa.CallInstruction); ok {
				if bs, mu, _, acquire, ok := a.lockCall(ci.Common()); ok && acquire && bs == base {
					return a.mutexes[mu]
				}
			}
		}
	}
	return ""
}

// reachableFromRoots: pike functions reachable from package main and the
// package initialisers through static calls, function values and interface
// implementations.
func (p *Program) reachableFromRoots() map[*ssa.Function]bool {
	reach := map[*ssa.Function]bool{}
	var work []*ssa.Function
	add := func(f *ssa.Function) {
		if f != nil && f.Blocks != nil && isPikeFunc(f) && !reach[f] {
			reach[f] = true
			work = append(work, f)
		}
	}
	for _, f := range p.allFuncs {
		if f.Pkg != nil && f.Pkg.Pkg.Path() == pikeMod && f.Parent() == nil {
			add(f)
		}
		if f.Name() == "init" || strings.HasPrefix(f.Name(), "init#") {
			add(f)
		}
	}
	for len(work) > 0 {
		f := work[len(work)-1]
		work = work[:len(work)-1]
		for _, b := range f.Blocks {
			for _, ins := range b.Instrs {
				for _, op := range ins.Operands(nil) {
					switch x := (*op).(type) {
					case *ssa.Function:
						add(x)
					case *ssa.MakeClosure:
						add(x.Fn.(*ssa.Function))
					}
				}
				if ci, ok := ins.(ssa.CallInstruction); ok {
					if ci.Common().IsInvoke() {
						for _, impl := range p.implsOf(ci.Common().Method) {
							add(impl)
						}
					} else if sc := ci.Common().StaticCallee(); sc != nil {
						add(sc)
					}
				}
				if mi, ok := ins.(*ssa.MakeInterface); ok {
					// methods of a concrete type that escapes into an interface may be called by libraries
					if it, ok := mi.Type().Underlying().(*types.Interface); ok && it.NumMethods() > 0 {
						ms := p.Prog.MethodSets.MethodSet(mi.X.Type())
						for i := 0; i < ms.Len(); i++ {
							for j := 0; j < it.NumMethods(); j++ {
								if it.Method(j).Name() == ms.At(i).Obj().Name() {
									add(p.Prog.MethodValue(ms.At(i)))
								}
							}
						}
					}
				}
			}
		}
		for _, an := range f.AnonFuncs {
			add(an)
		}
	}
	return reach
}

func (p *Program) runLockset() *locksetResult {
	a := p.newLockset()
	a.reach = p.reachableFromRoots()
	// fixpoint over summaries
	for iter := 0; iter < 10; iter++ {
		changed := false
		for _, f := range p.allFuncs {
			if a.analyzeFunc(f, false) {
				changed = true
			}
		}
		if !changed {
			break
		}
	}
	for _, f := range p.allFuncs {
		if !a.reach[f] {
			// outside the request / reload / purge paths (e.g. test-only accessors): listed, not judged
			a.analyzeFunc(f, false)
			if len(a.reqs[f]) > 0 {
				a.res.notJudged = append(a.res.notJudged, funcName(f))
			}
			continue
		}
		a.analyzeFunc(f, true)
	}
	// entry requirements that nobody discharges: functions with requirements that are called from outside pike
	callers := map[*ssa.Function]int{}
	for _, f := range p.allFuncs {
		for _, b := range f.Blocks {
			for _, ins := range b.Instrs {
				if ci, ok := ins.(ssa.CallInstruction); ok {
					if sc := ci.Common().StaticCallee(); sc != nil {
						callers[sc]++
					}
					if ci.Common().IsInvoke() {
						for _, impl := range p.implsOf(ci.Common().Method) {
							callers[impl]++
						}
					}
				}
			}
		}
	}
	for f, rs := range a.reqs {
		if len(rs) == 0 || !a.reach[f] {
			continue
		}
		a.res.guardedFns++
		exported := f.Object() != nil && f.Object().Exported()
		if callers[f] == 0 || (exported && f.Signature.Recv() == nil) {
			for _, r := range rs {
				a.res.violations = append(a.res.violations, fmt.Sprintf("%s: %s accesses %s of its argument without locking and has no caller that could hold the lock", p.pos(f.Pos()), funcName(f), r.field))
			}
		}
	}
	sort.Strings(a.res.violations)
	sort.Strings(a.res.unpaired)
	return a.res
}

func ruleLockset(c *Ctx, prefixes ...string) {
	res := c.P.runLockset()
	filter := func(msgs []string) []string {
		if len(prefixes) == 0 {
			return msgs
		}
		out := []string{}
		for _, m := range msgs {
			for _, p := range prefixes {
				if strings.Contains(m, p) {
					out = append(out, m)
					break
				}
			}
		}
		return out
	}
	if res.accesses < 40 {
		c.undecided("lockset", "guarded-fields", "-", fmt.Sprintf("only %d guarded accesses found (the guard table no longer matches the code)", res.accesses))
		return
	}
	v := filter(res.violations)
	if len(v) > 6 {
		v = append(v[:6], fmt.Sprintf("... and %d more", len(v)-6))
	}
	c.check(len(v) == 0, "lockset", "guarded-fields", "cache/http_cache.go", fmt.Sprintf("%d accesses to guarded fields (httpCache state, shard LRU, server settings, location list) in functions reachable from main: each holds the owner's lock in a sufficient mode, locally or through every caller; not judged (unreachable from main): %v", res.accesses, res.notJudged), strings.Join(v, " || "), res.accesses)
	c.check(len(res.unpaired) == 0, "lock-pairing", "pike", "-", "every lock acquired is released (explicitly or by defer) on every return of the acquiring function", strings.Join(res.unpaired, " || "), res.accesses)
	// lock order
	cyc := []string{}
	for a, m := range res.orderEdges {
		for b, site := range m {
			if a == b {
				cyc = append(cyc, fmt.Sprintf("%s is acquired while a lock of the same class is held (%s)", a, site))
			}
			if res.orderEdges[b] != nil {
				if s2, ok := res.orderEdges[b][a]; ok && a < b {
					cyc = append(cyc, fmt.Sprintf("lock-order cycle %s -> %s (%s) and %s -> %s (%s)", a, b, site, b, a, s2))
				}
			}
		}
	}
	sort.Strings(cyc)
	edges := []string{}
	for a, m := range res.orderEdges {
		for b := range m {
			edges = append(edges, a+"->"+b)
		}
	}
	sort.Strings(edges)
	c.check(len(cyc) == 0, "lock-order", "pike", "-", fmt.Sprintf("lock-order graph over pike's guard mutexes is acyclic (edges: %v)", edges), strings.Join(cyc, " || "), len(edges)+1)
}
