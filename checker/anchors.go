package main

// Anchor resolution: the constructs the properties are anchored in, resolved
// through the type-checked program. Central anchors have a structural fallback
// so that a rename does not turn every obligation into "undecided".

import (
	"go/constant"
	"go/types"
	"strings"

	"golang.org/x/tools/go/ssa"
)

type cacheAnchors struct {
	ok      bool
	missing []string

	entry                                                                    *types.Named // cache.httpCache
	fStatus, fChanList, fResponse, fCreatedAt, fExpiredAt, fMu, fKey, fStore *types.Var
	statusT                                                                  *types.Named
	stUnknown, stFetching, stHFP, stHit, stPassed                            int64

	Get, get, initFromStore, saveToStore, Age *ssa.Function
	completions                               []*ssa.Function // functions storing a terminal status (Hit / HitForPass) into the live entry
	statusWriters                             []*ssa.Function
}

func (p *Program) cacheAnchors() *cacheAnchors {
	a := &cacheAnchors{}
	miss := func(s string) { a.missing = append(a.missing, s) }
	a.entry = p.NamedType("cache", "httpCache")
	if a.entry == nil {
		// structural fallback: the struct in package cache with a []chan struct{} field and a *sync.RWMutex field
		if tp := p.TypePkgs[pkgPath("cache")]; tp != nil {
			for _, n := range tp.Scope().Names() {
				tn, ok := tp.Scope().Lookup(n).(*types.TypeName)
				if !ok {
					continue
				}
				st, ok := tn.Type().Underlying().(*types.Struct)
				if !ok {
					continue
				}
				hasChan, hasMu := false, false
				for i := 0; i < st.NumFields(); i++ {
					ts := types.TypeString(st.Field(i).Type(), nil)
					if ts == "[]chan struct{}" {
						hasChan = true
					}
					if strings.HasSuffix(ts, "sync.RWMutex") {
						hasMu = true
					}
				}
				if hasChan && hasMu {
					a.entry, _ = tn.Type().(*types.Named)
				}
			}
		}
	}
	if a.entry == nil {
		miss("type cache.httpCache")
		return a
	}
	st, _ := a.entry.Underlying().(*types.Struct)
	if st == nil {
		miss("cache.httpCache is not a struct")
		return a
	}
	for i := 0; i < st.NumFields(); i++ {
		f := st.Field(i)
		ts := types.TypeString(f.Type(), nil)
		switch {
		case f.Name() == "status":
			a.fStatus = f
		case f.Name() == "chanList" || ts == "[]chan struct{}":
			a.fChanList = f
		case f.Name() == "response":
			a.fResponse = f
		case f.Name() == "createdAt":
			a.fCreatedAt = f
		case f.Name() == "expiredAt":
			a.fExpiredAt = f
		case f.Name() == "mu" || strings.HasSuffix(ts, "sync.RWMutex"):
			a.fMu = f
		case f.Name() == "key":
			a.fKey = f
		case f.Name() == "store":
			a.fStore = f
		}
	}
	a.statusT = p.NamedType("cache", "Status")
	if a.fStatus == nil && a.statusT != nil {
		for i := 0; i < st.NumFields(); i++ {
			if types.Identical(st.Field(i).Type(), a.statusT) {
				a.fStatus = st.Field(i)
			}
		}
	}
	for name, fp := range map[string]**types.Var{"status": &a.fStatus, "chanList": &a.fChanList, "response": &a.fResponse,
		"createdAt": &a.fCreatedAt, "expiredAt": &a.fExpiredAt, "mu": &a.fMu, "key": &a.fKey, "store": &a.fStore} {
		if *fp == nil {
			miss("field httpCache." + name)
		}
	}
	cv := func(name string, dst *int64) {
		c := p.Const("cache", name)
		if c == nil {
			miss("const cache." + name)
			return
		}
		v, _ := constant.Int64Val(c.Val())
		*dst = v
	}
	cv("StatusUnknown", &a.stUnknown)
	cv("StatusFetching", &a.stFetching)
	cv("StatusHitForPass", &a.stHFP)
	cv("StatusHit", &a.stHit)
	cv("StatusPassed", &a.stPassed)
	if len(a.missing) > 0 {
		return a
	}
	// discover the writers of status by what they do
	for _, f := range p.allFuncs {
		writes := map[int64]bool{}
		nonconst := false
		for _, b := range f.Blocks {
			for _, in := range b.Instrs {
				s, ok := in.(*ssa.Store)
				if !ok {
					continue
				}
				fa, ok := s.Addr.(*ssa.FieldAddr)
				if !ok || fieldOf(fa.X.Type(), fa.Field) != a.fStatus {
					continue
				}
				if c, ok := s.Val.(*ssa.Const); ok && c.Value != nil {
					v, _ := constant.Int64Val(c.Value)
					writes[v] = true
				} else {
					nonconst = true
				}
			}
		}
		if len(writes) == 0 && !nonconst {
			continue
		}
		a.statusWriters = append(a.statusWriters, f)
		if writes[a.stFetching] && a.get == nil {
			a.get = f
		}
		if (writes[a.stHit] || writes[a.stHFP]) && !writes[a.stFetching] {
			a.completions = append(a.completions, f)
		}
	}
	if a.get == nil {
		miss("the lookup function that stores StatusFetching (cache.(*httpCache).get)")
	}
	a.Get = p.Method("cache", a.entry.Obj().Name(), "Get")
	if a.Get == nil {
		miss("cache.(*httpCache).Get")
	}
	a.initFromStore = p.Method("cache", a.entry.Obj().Name(), "initFromStore")
	a.saveToStore = p.Method("cache", a.entry.Obj().Name(), "saveToStore")
	a.Age = p.Method("cache", a.entry.Obj().Name(), "Age")
	a.ok = len(a.missing) == 0
	return a
}

// cell builds the address term of field f of the object base points to.
func cellOf(base *Term, f *types.Var) *Term {
	return &Term{Op: "fa", Name: f.Name(), Obj: f, Type: types.NewPointer(f.Type()), Args: []*Term{base}}
}

// finalCell returns the value of base.f at the end of a path.
func (s *Sim) finalCell(st *State, base *Term, f *types.Var) *Term {
	return s.load(st, cellOf(base, f), f.Type())
}

// isFieldOf reports whether addr is the cell of field f (of any base).
func isFieldAddr(addr *Term, f *types.Var) bool {
	return addr != nil && addr.Op == "fa" && addr.Obj == f
}

func inPkg(f *ssa.Function, short string) bool {
	if f == nil {
		return false
	}
	pk := f.Pkg
	if pk == nil && f.Parent() != nil {
		pk = f.Parent().Pkg
	}
	return pk != nil && pk.Pkg.Path() == pkgPath(short)
}

// calleeIs matches a call event against a library function by its full name,
// e.g. "(*sync.RWMutex).Lock", "time.Now".
func (e *Event) calleeIs(names ...string) bool {
	if e.Callee == nil || e.Kind == "defer" || e.Kind == "go" {
		return false
	}
	n := e.Callee.String()
	for _, x := range names {
		if n == x {
			return true
		}
	}
	return false
}

// methodIs matches an interface method call.
func (e *Event) methodIs(full string) bool {
	return e.Method != nil && e.Method.FullName() == full
}
