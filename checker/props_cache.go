package main

func init() {
	register("C01", "mechanism clauses of single flight", nil, func(c *Ctx) {
		a := c.P.cacheAnchors()
		if !a.ok {
			c.undecided("anchors", "cache", "-", "unresolved: "+joinStr(a.missing))
			return
		}
		ruleLookup(c, a, nil)
		ruleLockedWrapper(c, a)
		ruleStoreLoadAtomic(c, a)
		ruleDrainShape(c, a)
		ruleCompletionPaths(c, a, nil)
	})
}

func joinStr(xs []string) string {
	s := ""
	for i, x := range xs {
		if i > 0 {
			s += ", "
		}
		s += x
	}
	return s
}
