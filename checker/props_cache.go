package main

// Property registrations: which rules make up each property's check. A rule
// shared by several properties is evaluated under each property's id, restricted
// to the sub-rules that are a necessary condition of that property.

func set(xs ...string) map[string]bool {
	m := map[string]bool{}
	for _, x := range xs {
		m[x] = true
	}
	return m
}

func joinStr(xs []string) string {
	s := ""
	for i, x := range xs {
		if i > 0 {
			s += ", "
		}
		s += x
	}
	return s
}

func withAnchors(c *Ctx, f func(a *serverAnchors)) {
	a := c.P.serverAnchors()
	if !a.ok {
		c.undecided("anchors", "cache+server", "-", "unresolved: "+joinStr(a.missing))
		return
	}
	f(a)
}

func init() {
	register("C01",
		"Decides, on every control-flow path, the mechanism that makes one-fetch-per-unknown-key possible: the lookup's transition relation over four abstract entry states (only the unknown state becomes fetching, exactly the requests that find it fetching are registered as waiters and get the registered channel, a hit returns the stored response), the locked wrapper (lookup under the write lock; a woken waiter re-evaluates under the lock; nothing but that wrapper calls the lookup step), get-or-create of the entry in one shard critical section, the shard function (stateless: no shared hasher), the cache middleware forwarding only non-hit states exactly once, a persisted record being loaded inside the locked lookup only (never applied over a state another request has already advanced), a reload keeping every surviving cache's entries (an in-flight fetch stays the key's only fetch), a fetcher whose downstream call succeeded publishing the response as cacheable unless no lifetime or no response was recorded, and the stored expiry being the clock plus a positive lifetime (an entry stored already expired makes every waiter the next fetcher). Nothing reachable from the request-path middleware calls a purge function, so a request on one key cannot drop another key's entry while its fetch is in flight. A fetcher whose upstream answer has a positive lifetime always has that lifetime recorded (no further test of the proxy's own decides cacheability). The schedule quantifier itself (that the Go runtime, given these shapes, yields one fetch on every interleaving) is not decided.",
		nil, func(c *Ctx) {
			withAnchors(c, func(a *serverAnchors) {
				ruleShardStateless(c)
				rulePassMethods(c, a)
				ruleResetPrunes(c, "cache")
				ruleLookup(c, a.cacheA, set("lookup-shape", "state-determined", "no-exit-unknown", "fetching-only-from-unknown", "registration", "returned-status", "hit-data", "invariant-waiters", "no-waiter-dropped", "load-on-first-lookup", "load-only-when-unknown"))
				ruleKeepCache(c)
				ruleLockedWrapper(c, a.cacheA)
				ruleCacheMiddleware(c, a, set("hit-does-not-forward", "hit-serves-stored", "forward-once", "entry-of-request-key", "completion-only-by-fetcher", "cacheable-is-stored"))
				ruleProxyMiddleware(c, a, set("forward-once", "location-edits-order", "lifetime-recorded"))
				ruleCompletionPaths(c, a.cacheA, set("expiry-value", "ttl-positive", "no-wrap"))
				ruleGetOrCreate(c)
				ruleShardFunction(c)
				ruleEntryWriters(c, a.cacheA)
				ruleKey(c)
				ruleKeyImmutable(c)
				ruleWhoMayPurge(c)
			})
		})
	register("C02",
		"Decides that a wake-up cannot be lost or withheld by construction: every function that stores a terminal status reaches, on every return path, an exhaustive loop of blocking sends over the previous waiter list and clears the list, under the entry's write lock; the data invariant (not fetching => no waiters; unknown/fetching => no expiry) is inductive over the lookup, so no registered waiter is ever dropped; the fetcher's ticket is discharged exactly once on normal, error and downstream-panic exits of the cache middleware, and nothing before it in the deferred completion can panic on a registry lookup that came back nil; the waiter's receive is a plain receive with no lock held; a configured proxy timeout reaches the upstream call; neither the client-facing server nor the upstream transport carries a deadline or cap that cuts a waiting request off. The validator of a duration field accepts nothing its consumer's parser rejects (a proxy timeout that was accepted is the one armed). Liveness under the real scheduler is not decided.",
		nil, func(c *Ctx) {
			withAnchors(c, func(a *serverAnchors) {
				ruleDrainShape(c, a.cacheA)
				ruleNoWaitUnderLock(c)
				ruleLocksNotCopied(c)
				ruleCompletionPaths(c, a.cacheA, set("completes-on-every-path", "locked"))
				ruleLookup(c, a.cacheA, set("state-determined", "invariant-expiry", "invariant-waiters", "no-waiter-dropped", "no-exit-unknown", "registration"))
				ruleLookupNilChecked(c)
				ruleTransportUnbounded(c)
				ruleStoreLoadAtomic(c, a.cacheA)
				ruleLockedWrapper(c, a.cacheA)
				ruleCacheMiddleware(c, a, set("ticket-discharge", "completion-only-by-fetcher"))
				ruleProxyMiddleware(c, a, set("proxy-deadline", "upstream-error-propagates"))
				ruleLockset(c)
				ruleValidatorsAgree(c)
			})
		})
	register("C03",
		"Decides the gating structure for all header sets and methods: a non-zero lifetime is returned only after the Set-Cookie presence test, the Cache-Control emptiness test and the case-insensitive no-cache/no-store/private test (over all Cache-Control lines) have failed; the lifetime is the captured s-maxage, else max-age, minus a positive Age; only these three headers are consulted, and the location's configured response headers are only ever added next to the upstream's values in the header the classifier reads (never set over or deleted from it); storing is gated by fetching state, lifetime > 0, a non-nil response and a successful downstream handler; non-GET/HEAD requests bypass the cache, every request method is routed to the middleware chain and every request is forwarded at most once; the status label is the lookup's status. Numeric semantics of strconv.Atoi and directive tokenisation are not decided.",
		nil, func(c *Ctx) {
			withAnchors(c, func(a *serverAnchors) {
				ruleMaxAge(c, a, nil)
				rulePassMethods(c, a)
				ruleAllMethodsRouted(c)
				ruleContextKeys(c, a)
				ruleResponder(c, a)
				ruleProxyHandlerDirect(c)
				ruleLocationEdits(c)
				ruleCacheMiddleware(c, a, set("pass-methods", "forward-once", "label", "hit-does-not-forward", "store-gate", "completion-only-by-fetcher"))
				ruleProxyMiddleware(c, a, set("forward-once", "lifetime-plumbing", "lifetime-recorded", "upstream-error-propagates"))
			})
		})
	register("C04",
		"Decides that the expiry test (expiredAt >= clock read in this call) is applied on every lookup path that serves a hit or hit-for-pass state, after any load from the store and on the expiry value actually current; that an expired entry is reset; that the stored expiry is clock + ttl with 1 <= ttl <= 2^31 (no wrap) and createdAt is that same clock value; that a woken waiter re-runs the lookup (and its expiry test); that nothing on the lookup path extends the expiry; Age is clock - createdAt and is emitted only on hits; the lookup never overwrites createdAt (a request that already holds the response reads Age afterwards); the persisted status numbers keep their meaning (a marker is not read back as a hit); the lifetime T is s-maxage, else max-age, over all Cache-Control lines, minus a positive Age, computed from the upstream's own header, not from the stored copy that drops fields; a hit restored from the store takes createdAt (and a non-zero expiry) from the decoded record. Timed histories themselves are not decided.",
		nil, func(c *Ctx) {
			withAnchors(c, func(a *serverAnchors) {
				ruleLookup(c, a.cacheA, set("state-determined", "expiry-applied", "invariant-expiry", "hit-data", "returned-status", "creation-time-kept"))
				ruleWireConstants(c)
				ruleCompletionPaths(c, a.cacheA, set("expiry-value", "ttl-positive", "no-wrap", "stores-response"))
				ruleLockedWrapper(c, a.cacheA)
				ruleStoreLoadAtomic(c, a.cacheA)
				ruleCacheMiddleware(c, a, set("hit-age", "hit-serves-stored", "store-gate"))
				ruleProxyMiddleware(c, a, set("lifetime-plumbing", "lifetime-recorded", "location-edits-order"))
				ruleMaxAge(c, a, set("cache-control-all-lines", "lifetime-source", "smaxage-preferred", "age-subtracted"))
				ruleAge(c, a.cacheA)
				ruleResponder(c, a)
				ruleContextKeys(c, a)
			})
		})
	register("C07",
		"Decides, for all configured periods: a lookup in hit-for-pass state is never queued and never served a response; the marker always gets a period >= 1 (the default when the configured one is <= 0) added to the clock; it lapses through the same expiry test as hits, and that test keeps the entry through its expiry second (expired iff expiredAt < now), so the period is not cut short; the configured period is converted per cache (no value carried over from the previous cache's conversion), is what the fetcher passes and is kept in seconds (never a time.Duration squeezed into the int); the record is saved only after the entry's final state is set, and always when a store is configured (a marker without a response included), with a store lifetime that is never known to be <= 0; non-fetcher requests never complete (extend) the entry; hit-for-pass requests are forwarded once and reach the upstream with their headers untouched; no lock of the server is held across the upstream call; the upstream transport puts no cap on connections per host or streams per connection (forwarded requests do not queue behind one another inside net/http). Every entry is built with a lock allocated for it and no entry is ever copied as a value, so requests on one key queue only behind that key. Outside the purge nothing deletes a persisted record (no eviction hook takes the marker's stored copy with it). The marker's default period is used only where the period passed in is known to be <= 0, and the converter hands the configured seconds on as parsed. On every successful path the fetcher's upstream answer is examined for a lifetime, whatever headers the request carried. Timed histories are not decided.",
		nil, func(c *Ctx) {
			withAnchors(c, func(a *serverAnchors) {
				ruleLookup(c, a.cacheA, set("state-determined", "registration", "hit-data", "expiry-applied", "expiry-exact", "invariant-expiry", "returned-status"))
				ruleCompletionPaths(c, a.cacheA, set("completes-on-every-path", "ttl-positive", "expiry-value", "persist-final", "persist-ttl"))
				rulePeriodUnits(c)
				ruleSaveUnconditional(c, a.cacheA)
				ruleConverterPerItem(c)
				ruleNoWaitUnderLock(c)
				ruleLookupNilChecked(c)
				ruleCacheMiddleware(c, a, set("ticket-discharge", "hit-for-pass-period", "completion-only-by-fetcher", "forward-once"))
				ruleProxyMiddleware(c, a, set("withheld-on-fetch", "lifetime-plumbing", "lifetime-recorded"))
				ruleTransportUnbounded(c)
				ruleLockedWrapper(c, a.cacheA)
				ruleStoreLoadAtomic(c, a.cacheA)
				ruleConverters(c)
				ruleEntryOwnLock(c)
				ruleRecordDeletedOnlyByPurge(c)
				rulePeriodKept(c)
			})
		})
	register("C08",
		"Decides the safety clauses: a record is read from the store only on the first lookup of an unknown entry; it is adopted all-or-nothing, only as hit/hit-for-pass with a non-zero expiry (hit with a response); pike's own expiry test is applied to the adopted expiry before the state is served; absolute createdAt/expiredAt are what is written and restored, each number written as the field stands and stored as read; nothing changes the entry's state after the call that saves it; the status numbers keep the meaning records already on disk give them; no function outside the verified ones (an eviction hook, say) writes a live entry or a published response; the body of a restored entry is recovered from a stored variant whenever its raw body is empty (a restored record carries an empty, non-nil raw body); each back end's Get, Set and Delete address one and the same record for a key; adoption does not depend on the decoded response's content (empty bodies are valid). Badger is opened with its directory lock, on disk and writable; NewStore looks up, opens and registers a store in one critical section of its package lock and gives the lock back on every return. Outside the purge nothing deletes a persisted record; every successful path of the record writer emits the same sequence of elements and every successful path of the reader consumes the same sequence; the store registry is looked up by the URL, never searched. The redis client gets address list, db, password and master name on every path; the age reported for an entry is computed from persisted fields only. The crash-point quantifier (what the store's files contain after a kill) is not applicable to static analysis.",
		nil, func(c *Ctx) {
			withAnchors(c, func(a *serverAnchors) {
				ruleLookup(c, a.cacheA, set("state-determined", "load-on-first-lookup", "load-only-when-unknown", "expiry-applied", "invariant-expiry", "hit-data"))
				ruleStoreLoadAtomic(c, a.cacheA)
				ruleCompletionPaths(c, a.cacheA, set("persist-final", "persist-ttl", "expiry-value", "stores-response"))
				ruleSaveUnconditional(c, a.cacheA)
				ruleKeepCache(c)
				ruleDecisionTable(c)
				ruleBadgerCommits(c)
				ruleWireConstants(c)
				rulePublishedResponse(c, a)
				ruleEntryWriters(c, a.cacheA)
				ruleEncodedFresh(c)
				ruleLayout(c)
				ruleTruncation(c)
				ruleStoreOpenNonFatal(c)
				ruleStoreSiblings(c)
				ruleStoreWriteOrdered(c)
				ruleTypedNilStore(c)
				ruleStoreKeyAgreement(c)
				ruleStoreExactKey(c)
				ruleStoreRegistryKey(c)
				ruleCacheMiddleware(c, a, set("hit-age", "hit-serves-stored", "store-gate"))
				ruleResponder(c, a)
				ruleRawProvenance(c)
				ruleBadgerOpenOptions(c)
				ruleNewStoreLock(c)
				ruleRecordDeletedOnlyByPurge(c)
				ruleRedisOptionsUnconditional(c)
				ruleAge(c, a.cacheA)
			})
		})
	register("C10",
		"Decides that store failures cannot reach clients or strand waiters: a failed, truncated or impossible record leaves the live entry untouched (all-or-nothing adoption) and the lookup continues as a miss; every completion path drains the waiters and sets the state whatever the store write returns; the fetcher's ticket is always discharged; whatever expiry a restored record carries goes through the same expiry test as any entry (no sign or value of it is exempt); the record decoders contain no panicking-by-contract call, explicit panic or unchecked data-sized allocation and every index / fixed-width read is provably inside the data (a panic under the entry lock would wedge the key); a purge deletes the persisted record while still holding the shard lock and never takes the entry lock; the lookup never writes to the store (memory hits do not wait for it); a store constructor hands out a store only with a nil error; the loader calls nothing that takes an entry lock. NewStore returns its lock on every path (an open that fails does not wedge the next one), and the error of opening a store reaches no result, branch or panic of package main: the rest of an update is applied whatever the store does. The record reader consumes the same sequence of elements on every successful path, so a block that is not decoded is still skipped and a good record cannot be misread into an immortal expiry. The header block is decoded by a whole-input decoder (a block damaged after its first value is a miss), and no decoder asserts a type without the comma-ok form. A reload keeps every surviving cache (and what it holds in memory) whatever its store did, and the caches are reset before the servers that name them. Slow calls and flipped body bits are not decided.",
		nil, func(c *Ctx) {
			withAnchors(c, func(a *serverAnchors) {
				ruleStoreLoadAtomic(c, a.cacheA)
				ruleLookup(c, a.cacheA, set("state-determined", "expiry-applied", "invariant-expiry", "invariant-waiters", "no-exit-unknown", "load-only-when-unknown", "lookup-no-store-write"))
				ruleCompletionPaths(c, a.cacheA, set("completes-on-every-path"))
				ruleCacheMiddleware(c, a, set("ticket-discharge"))
				ruleLookupNilChecked(c)
				ruleDecoderStateless(c, map[string]bool{"cache": true})
				ruleStringersTotal(c)
				ruleDrainShape(c, a.cacheA)
				rulePurge(c, a.cacheA)
				ruleDecodersNoPanic(c, map[string]bool{"cache": true})
				ruleDecoderBounds(c, map[string]bool{"cache": true})
				ruleEmptyResponseSection(c)
				ruleCompletionNoNilDeref(c, a.cacheA)
				ruleStoreRegistryKey(c)
				ruleStoreSiblings(c)
				ruleStoreOpenNonFatal(c)
				ruleTypedNilStore(c)
				ruleStoreCtorNilOnError(c)
				ruleGetOrCreate(c)
				ruleNewStoreLock(c)
				ruleStoreOpenErrorLocal(c)
				ruleLayout(c)
				ruleDecodersWholeInput(c)
				ruleKeepCache(c)
				ruleSectionsApplied(c)
			})
		})
	register("C06",
		"Decides ownership and identity of the key bytes: the key is a buffer allocated per request holding METHOD SP HOST SP REQUEST-URI back to back; nothing it flows into writes, appends to or reslices it (the LRU keeps a zero-copy view); entries are looked up, inserted and removed by the whole key, the hash only picks the shard; every store back end addresses its record by the whole key, and its Get, Set and Delete derive the address in the same way; on a miss the entry handed out is freshly allocated (never recycled or shared between keys); unsafe conversions are confined to the two zero-copy helpers. Hash collision behaviour is irrelevant given full-key lookup.",
		nil, func(c *Ctx) {
			withAnchors(c, func(a *serverAnchors) {
				ruleKey(c)
				ruleProxyMiddleware(c, a, set("forward-once"))
				ruleRawProvenance(c)
				ruleRequestWrites(c)
				ruleQueryEdits(c)
				ruleKeyImmutable(c)
				ruleUnsafeConfined(c)
				ruleGetOrCreate(c)
				ruleShardFunction(c)
				ruleShardStateless(c)
				ruleStoreKeys(c)
				ruleStoreKeyAgreement(c)
				ruleStoreExactKey(c)
				ruleStoreSiblings(c)
				ruleEntryWriters(c, a.cacheA)
				ruleEntryContainers(c, a.cacheA)
				ruleRewriteChain(c)
				ruleCacheMiddleware(c, a, set("entry-of-request-key", "hit-serves-stored"))
			})
		})
	register("C11",
		"Decides, for every int size: the limit passed to each shard's lru.New is >= 1 (0 means unlimited in groupcache/lru) and the limits add up to at most the configured size (limit = size / number of shards); shards are constructed only by NewDispatcher and no pike code changes an lru.Cache's limit or eviction hook; cache entries are retained by nothing but the bounded LRU; no shard (or any other value holding a lock) is copied, so the shard lock really serialises access to its LRU. No whole lru.Cache value is ever overwritten (a zero one has no limit), and limit = size / shards holds on every path a configured size >= 1 can take (the built-in default replaces sizes below 1 only). LRU order inside the dependency is not analysed.",
		[]string{"groupcache/lru: MaxEntries == 0 means no limit; Add evicts the oldest entry beyond MaxEntries"}, func(c *Ctx) {
			withAnchors(c, func(a *serverAnchors) {
				ruleCapacity(c)
				ruleConverterPerItem(c)
				ruleKeepCache(c)
				ruleLockset(c)
				ruleResetPrunes(c, "cache")
				ruleLocksNotCopied(c)
				ruleEntryContainers(c, a.cacheA)
				ruleGetOrCreate(c)
				ruleKey(c)
				ruleKeyImmutable(c)
				ruleLRUContract(c)
			})
		})
	register("C18",
		"Decides that a purge removes the key from the shard the lookup consults (same shard function, whole key) on every path and deletes the persisted record whenever a store is configured; the unnamed form visits every cache and never stops early, the named form touches one; the admin handler purges on every request that carries a key; the package-level purge hands (cache name, key) unchanged to the one default registry; each back end deletes the record its Get and Set address; a purge writes no entry state and takes no entry lock, so it can neither block on nor strand an in-flight fetch; an entry enters a shard's LRU only from the function that has just constructed it, so a purged entry is never put back by its fetcher; the badger back end's writes and deletes are committed before success is reported. Each back end's Delete addresses the record by the whole key in the form its Set used, and the redis client is not told to serve reads from replicas (a purged record cannot be read back from a lagging copy). The history clause about a purge racing a fetch that later re-persists is not decided.",
		nil, func(c *Ctx) {
			withAnchors(c, func(a *serverAnchors) {
				rulePurge(c, a.cacheA)
				rulePurgeAll(c)
				ruleLRUAddFresh(c)
				ruleBadgerCommits(c)
				ruleStoreWriteOrdered(c)
				ruleAdminPurge(c)
				ruleStoreKeyAgreement(c)
				ruleStoreExactKey(c)
				ruleCacheMiddleware(c, a, set("ticket-discharge"))
				ruleForwarders(c, "cache")
				ruleShardFunction(c)
				ruleEntryWriters(c, a.cacheA)
				ruleRedisReadsMaster(c)
				ruleStoreKeys(c)
			})
		})
	register("C05",
		"Decides label/bytes agreement and provenance on every path: each encoding label handed to a client is paired with the stored variant of that coding, the raw body, or a transcode of the raw body; the raw body is RawBody, else gunzip(GzipBody), else brotli-decode(BrBody); upstream bodies are filed under exactly the variant their encoding names and every other documented encoding is decoded by its own codec; Fill writes label, body, status and header of one negotiation and, after merging the stored header, sets nothing but Content-Encoding; the stored header is a deep copy minus only the fields pike recomputes; pre-compression drops the raw body only when both variants exist; the lz4 destination covers the format's maximum expansion; the five content-coding constants carry the documented wire names; the upstream transport and the client-facing server set no header-size cap or read/write deadline that would replace the upstream's answer; the cache key keeps the request method, so a body-less answer to HEAD is never what a GET is served. After the upstream has answered, the proxy handler returns no error of its own before the response is built. A stored compressed variant is only ever set, never cleared (the raw body may already be gone). Between the upstream call and the building of the response the proxy step deletes or overwrites nothing in the upstream's response header. Byte-identity of codec round trips is not decidable statically.",
		nil, func(c *Ctx) {
			withAnchors(c, func(a *serverAnchors) {
				ruleDecisionTable(c)
				ruleRawProvenance(c)
				ruleFill(c)
				ruleIngest(c)
				ruleIgnoredHeaders(c)
				ruleCompressVariants(c)
				ruleDecoderDispatch(c)
				ruleEncodingNames(c)
				ruleDecodersReadAll(c)
				rulePooledBytes(c)
				ruleLZ4Bound(c)
				ruleProxyMiddleware(c, a, set("response-built", "location-edits-order", "proxy-deadline", "withheld-on-fetch", "restore"))
				ruleCacheMiddleware(c, a, set("hit-serves-stored"))
				rulePrecompress(c, a)
				ruleTransportUnbounded(c)
				ruleMiddlewareChain(c)
				ruleKey(c)
				ruleResponder(c, a)
				ruleContextKeys(c, a)
				ruleVariantsNeverDropped(c)
			})
		})
	register("C13",
		"Decides the negotiation logic completely: the function from (accept-br, accept-gzip, has-br, has-gzip, should-compress) to (label, body provenance) is extracted from the code's paths and compared with the documented decision list on all 32 cells, with determinism; should-compress is false iff all variants are <= the minimum length and otherwise the content-type filter (default when unset) decides; cacheable responses are compressed once with the best-compression profile before publication and nowhere else; each response carries the server's compress settings, and a live update computes those settings from the option exactly as the constructor does (a removed filter falls back to the default); no library middleware that rewrites responses is installed in the proxying chain; the filter is compiled with the parser its validator uses and per server (nothing carried over from the previous server's conversion). The built-in default filter is a plain list of words matched anywhere in the content type (no assertion, repetition or class) and covers the documented words. Pre-compression gives up only after it has asked for the raw body, which is recovered from a stored variant, so a response that arrived compressed still gets its other variant when stored. Nothing but the proxy step edits the client's request header, so Accept-Encoding reaches the negotiation as the client sent it. Substring matching of Accept-Encoding tokens and q-values are outside the statement.",
		nil, func(c *Ctx) {
			withAnchors(c, func(a *serverAnchors) {
				ruleDecisionTable(c)
				ruleThreshold(c)
				rulePrecompress(c, a)
				ruleCompressVariants(c)
				ruleCodecLevels(c)
				ruleLevelApplied(c)
				rulePublishedResponse(c, a)
				ruleRawProvenance(c)
				ruleProxyMiddleware(c, a, set("server-settings"))
				ruleCacheMiddleware(c, a, set("store-gate"))
				ruleValidatorsAgree(c)
				ruleForwarders(c, "compress")
				ruleMiddlewareChain(c)
				ruleConverterPerItem(c)
				ruleCtorUpdateAgree(c)
				ruleDefaultFilter(c)
				ruleCompressFromAnyVariant(c)
				ruleRequestHeaderWrites(c)
			})
		})
	register("C12",
		"Decides stream finalisation order (the compressing writer is closed on every successful path and the buffer is not read before that), level clamping for every int (the value reaching gzip.NewWriterLevel is in [-2,9], brotli's in [0,11]), propagation of every codec library error, the lz4 destination bound (a short-buffer failure is final only at 255 x input) that the lz4 retry loop has a feasible exit while the short-buffer error persists (no hang on malformed blocks), the decoder dispatch, that pike's own decoder code has no Must* call, explicit panic, allocation sized by an unchecked number taken from the stream or index that is not provably inside the data, that the five decoders are reached under the documented wire names, and that the zstd decoder is built without options that reject valid frames or whose value is taken from the machine (GOMAXPROCS, environment), that encoders write into an empty buffer, and that the stream decoders share no mutable package-level state. On every successful path a stream encoder hands its writer the input parameter itself, exactly once (no pieces cut by computed offsets). No codec library call is handed the same buffer as source and destination. No decoder asserts a type without the comma-ok form; the compressing writers write into a growing bytes.Buffer. Every error a stream decoder returns is the codec library's own (no check of pike's is added behind it). That the codec libraries are exact inverses for every byte string and themselves never panic on malformed input is behaviour of third-party code: not applicable to static analysis.",
		nil, func(c *Ctx) {
			ruleEncoders(c)
			ruleLevelApplied(c)
			ruleDecodersReadAll(c)
			ruleCodecLevels(c)
			ruleLZ4Bound(c)
			ruleDecoderErrors(c)
			ruleDecoderDispatch(c)
			ruleForwarders(c, "compress")
			ruleEncodingNames(c)
			ruleDecoderOptions(c)
			ruleWriterBufferEmpty(c)
			ruleDecoderStateless(c, map[string]bool{"compress": true})
			ruleDecodersNoPrefilter(c)
			ruleResultBeforeError(c, map[string]bool{"compress": true})
			ruleDecodersNoPanic(c, map[string]bool{"compress": true})
			ruleDecoderBounds(c, map[string]bool{"compress": true})
			ruleCodecNoAlias(c)
			ruleDecodersNoPostFilter(c)
		})
	register("C09",
		"Decides writer/reader layout agreement for both record types (element kinds, widths, order and the field each element belongs to, every variable-length element preceded by its own length), that every read is bounded (fixed-width reads fail on short input, variable reads are checked against 0 and the remaining length), that no allocation in a decoder is sized by record data and no decoder calls a panicking-by-contract function (Must*) on record data, that every index and fixed-width byte-order read in a decoder is inside the data by the comparisons made before it, that the loader accepts every record the completions write (adoption depends only on status, expiry and, for a hit, the presence of a response, not on its content; markers with and without a response are taken), that a record cut anywhere fails to decode (the tail is a checked read), that encoded records are freshly allocated, that integer writers and readers agree on width and byte order, that the persisted status numbers are the ones records on disk carry, that String() of a decoded status cannot index outside its table, that a record saved without a content-type filter is restored without one, and that decoding keeps no package-level state (the same record always decodes the same way). What the writer marshals is the entry's field as it stands, and the reader puts no constant of its own into a decoded field. Every successful writer path emits, and every successful reader path consumes, the same sequence of elements (no element is conditional on one side only). The reader puts no package-level object into a decoded field and decodes the header block with a decoder that rejects trailing bytes. Exact value round-trip of contents (e.g. JSON re-encoding of non-UTF-8 header values) is value semantics of libraries and not decided.",
		nil, func(c *Ctx) {
			ruleLayout(c)
			ruleDecodersWholeInput(c)
			ruleFilterRoundTrip(c)
			ruleWireConstants(c)
			ruleDecoderStateless(c, map[string]bool{"cache": true})
			ruleStringersTotal(c)
			ruleBoundedReads(c)
			ruleTruncation(c)
			ruleEncodedFresh(c)
			ruleWriterWidths(c)
			ruleDecodersNoPanic(c, map[string]bool{"cache": true})
			ruleDecoderBounds(c, map[string]bool{"cache": true})
			withAnchors(c, func(a *serverAnchors) {
				ruleStoreLoadAtomic(c, a.cacheA)
			})
			ruleEmptyResponseSection(c)
		})
	register("C14",
		"Decides that Match is exactly (no hosts or host listed) and (no prefixes or some prefix of the URI) and depends on nothing else; that the four specificity classes get strictly increasing, non-zero priorities in the order prefix+host < prefix < host < none; that the list is sorted ascending by that priority (comparator over the very slice being sorted) before it is published under the write lock, and is built from the new options alone (nothing kept from the list it replaces; hosts, prefixes and name are written by the converter only); that only an element of the sorted list whose name is one of the server's own names and which matches is returned, with the sorted list as the outer loop, left early only with a match; that the proxy resolves with the request's Host and request URI and fails with a 5xx before any upstream contact when no location or upstream is found.",
		nil, func(c *Ctx) {
			withAnchors(c, func(a *serverAnchors) {
				ruleMatch(c)
				rulePriority(c)
				ruleSortedPublish(c)
				ruleLocationsFromOptions(c)
				ruleMatchFieldsVerbatim(c)
				ruleGetVisitsAll(c)
				ruleNamedOnly(c)
				ruleForwarders(c, "location")
				ruleErrorCodes(c)
				ruleProxyMiddleware(c, a, set("proxy-resolution", "forward-once"))
			})
		})
	register("C15",
		"Decides which request state the proxy middleware changes before the upstream call and that each change is undone on every exit after it: on a cold (fetching) request If-None-Match, If-Modified-Since, Range and If-Range are removed or known absent at the upstream call, on every other request they are untouched; every header the middleware removed or overrode (incl. Accept-Encoding) is set back to the value read before; the upstream's Accept-Encoding override is exactly the configured value and is applied whenever one is configured (also when the client sent no Accept-Encoding); the location's configured request headers and query parameters are added next to the client's own (never set over, assigned or deleted, and added whatever the client or upstream already sent; the query is written back on every path and built on the client's own); every wildcard of a rewrite rule becomes a capture group that also matches an empty remainder and each rule is matched against what the previous rules produced; configured header and query values are used as written (only a leading '$' means an environment lookup); the location's response headers are added to the upstream's header before the response (and its header clone) is built; a lifetime is recorded only for fetchers; the original next handler is restored and run once. The configured query and header collections are never read through a first-value accessor, so every configured value of a repeated key is added. What the rewriter writes back into the path is the rules' result (or the path as it came), with nothing applied on top. The rewrite rules are kept and applied in a slice, in the configured order. What the upstream receives byte for byte is not decided.",
		nil, func(c *Ctx) {
			withAnchors(c, func(a *serverAnchors) {
				ruleProxyMiddleware(c, a, set("withheld-on-fetch", "restore", "accept-encoding-override", "location-edits-order", "lifetime-plumbing", "lifetime-recorded", "next-restored", "response-built", "forward-once", "upstream-error-propagates"))
				ruleCacheMiddleware(c, a, set("completion-only-by-fetcher", "store-gate"))
				ruleRequestWrites(c)
				ruleProxyHandlerDirect(c)
				ruleFill(c)
				ruleLocationEdits(c)
				ruleQueryEdits(c)
				ruleRewriteWildcards(c)
				ruleRewriteMatch(c)
				ruleRewriteSource(c)
				ruleRewriteChain(c)
				ruleRewriteOrdered(c)
				ruleIngest(c)
				ruleContextKeys(c, a)
				ruleMergeUnconditional(c)
				ruleWildcardGroup(c)
				ruleConfigValueVerbatim(c)
				ruleChainOrder(c, a)
				ruleConfiguredValuesAll(c)
			})
		})
	register("C16",
		"Decides that the two ways a configuration reaches a running object agree: NewServer and Update compute the same value from the option for every field both assign (only the documented restart-only fields are construction-only); main.update applies every section of the configuration just read, each referenced section before the ones that name it, and then starts the servers; every registry's reset removes names that disappeared (or replaces the collection wholesale) on every path, an empty configuration included, and the shared delete helper visits every key; surviving caches are kept; persistent stores are closed only by package store (they are registry singletons that are never re-opened); every configured upstream and compress profile is replaced by one freshly built from the new options; only instances no longer in service are destroyed; removed servers are closed; the proxy resolves the server's locations, and the cache middleware the server's cache, per request (nothing captured when the handler was built); a server is marked as listening only after net.Listen succeeded, so a failed start is retried by the next update; starting the server list visits and starts every registered server; closing a listening server clears that flag, stops the handler that actually serves (GracefulClose, or shutting down the http.Server it runs in) and closes the listener; the package-level entry points main.update calls hand the configuration, converted by the package's converter, to the one default registry. The file watcher recognises a write by masking the event's bit set, calls back on every write event and leaves its loop only when the watcher is closed. Whether a registry entry is removed on an update is decided by its name alone (an entry still configured is updated in place, never rebuilt); a submitted configuration is decoded into an empty value, so what is saved depends on the submission and not on what was stored before. config.Watch passes every change event on to the caller's callback (no filter of its own); no registry reset edits the option list it is walking. No registry reset waits (for the graceful close of a removed server, say) before the rest is applied, and the published location list is not built by walking a map. Differential behaviour of two live processes and in-flight requests during the swap are not decided.",
		nil, func(c *Ctx) {
			ruleCtorUpdateAgree(c)
			ruleConverters(c)
			ruleConverterPerItem(c)
			ruleSectionsApplied(c)
			ruleResetPrunes(c)
			ruleMapDeleteVisitsAll(c)
			ruleKeepCache(c)
			ruleUpstreamSwap(c)
			ruleCompressReset(c)
			ruleServersReset(c)
			ruleUpstreamCtor(c)
			ruleWatchEveryWrite(c)
			withAnchors(c, func(a *serverAnchors) {
				ruleProxyMiddleware(c, a, set("proxy-resolution"))
				ruleCacheMiddleware(c, a, set("cache-binding"))
			})
			ruleListenFlag(c)
			ruleServerClose(c)
			ruleLoopClosures(c)
			ruleConfigClients(c)
			ruleDestroyOnlyStops(c)
			ruleStoreCloseOwner(c)
			ruleServersStartAll(c)
			ruleForwarders(c, "cache", "location", "server", "compress")
			ruleSaveDecodesFresh(c)
			ruleWatchForwardsCallback(c)
			ruleResetInputReadOnly(c)
			ruleResetDoesNotWait(c)
			ruleSetPublishesAll(c)
		})
	register("C19",
		"Decides pike's wiring of the health-checked pool (the pool itself lives in the dependency github.com/vicanso/upstream): servers marked backup are registered as backups and only those, each with its own address; policy and ping path reach the pool exactly as configured (the converter copies them unedited); a health check runs before a pool is published and periodically after; a reload never stops the health check of an instance that stays in service; pike never writes into or appends onto the server list the pool hands out; the upstream transport uses no environment proxy; a wrapper around the reverse proxy always calls it; the proxy target is only what the pool's Next() returned (no fixed target is configured, and the picker asks the pool for nothing else, so no request runs or waits for a health check) and 'no healthy server' is a 5xx error. The upstream transport's dialer carries only relative limits (no absolute deadline fixed when the upstream is built), so a server that recovers can be connected to again. Every error the proxy step makes up itself has a 5xx status. The fault-sequence quantifier (up/down timing, recovery, even distribution) is run-time behaviour of the dependency and the network: not applicable.",
		[]string{"github.com/vicanso/upstream: Next() returns only servers whose last health check passed, backups only when no primary is healthy"}, func(c *Ctx) {
			withAnchors(c, func(a *serverAnchors) {
				ruleUpstreamCtor(c)
				ruleYAMLTable(c)
				ruleTransportUnbounded(c)
				ruleProxyHandlerDirect(c)
				rulePickerOnly(c)
				rulePoolFields(c)
				ruleUpstreamContract(c)
				ruleConverters(c)
				ruleForwarders(c, "upstream")
				ruleLibrarySlices(c)
				ruleStatusCallbackNonBlocking(c)
				ruleDestroyOnlyStops(c)
				ruleTargetPicker(c)
				ruleUpstreamSwap(c)
				ruleDialerNoAbsoluteDeadline(c)
				ruleProxyErrors5xx(c)
				ruleProxyMiddleware(c, a, set("proxy-resolution", "forward-once"))
			})
		})
	register("C17",
		"Decides that Validate runs field validation first and checks each of the four reference relations on exactly the (referrer field, referenced name) pair, per referrer, returning its error; that a reference whose run-time lookup can come back nil (the server's cache, the location's upstream) cannot be left empty in an accepted configuration; that the run-time lookups go to the same default registries the reload fills and are made per request with the server's current settings; that each configuration back end reads, writes and watches one and the same location, writes the bytes it is given, and that Read decodes the bytes it read into the configuration it returns; that Write stores the YAML of the configuration only after Validate returned nil, unedited in between, and never reports success without writing; that no configuration field is lost or merged by the YAML/JSON field table, the YAML key of every field is its documented (JSON) key and the shipped pike.yml uses known keys only; that the admin handlers write configuration entries back only as copies of the entries they annotate; that a path accepted by the path validator starts with '/'; that lists of validated structs are validated element-wise (dive) and Validate never reports success from inside one of its loops; that no back-end method rewrites the configured location before using it; that every validate tag is registered and every place that leniently parses a configuration field uses the parser its validator uses (including a value the upstream library parses on pike's behalf). In tags and aliases no bound or custom rule is one side of an \"or\" (the bound would not be enforced); a validator runs no second parser its consumers do not run. Nothing is decoded over the configuration between its validation and the write; applying a configuration publishes one location for each it was given. A list of configuration entries the admin view rebuilds is allocated with the length of the list it replaces; a server's update applies the same fields its constructor takes. Every iteration of Validate's loop over the servers runs its reference checks. Quoting behaviour of the YAML library is not decided.",
		nil, func(c *Ctx) {
			ruleValidateRefs(c)
			ruleRequiredRefs(c)
			ruleConfigClients(c)
			ruleLinearizableConfigRead(c)
			withAnchors(c, func(a *serverAnchors) {
				ruleProxyMiddleware(c, a, set("proxy-resolution"))
				ruleCacheMiddleware(c, a, set("cache-binding"))
			})
			ruleForwarders(c, "cache", "upstream", "compress", "location")
			ruleWriteValidates(c)
			ruleYAMLTable(c)
			ruleAnnotatePreserves(c)
			ruleDiveTags(c)
			rulePathValidator(c)
			ruleValidateVisitsAll(c)
			ruleValidatorsAgree(c)
			ruleConverters(c)
			ruleKeepCache(c)
			ruleStoreOpenNonFatal(c)
			ruleBoundsConjunctive(c)
			ruleSetPublishesAll(c)
			ruleStatusListSizedBySource(c)
			ruleValidateEveryServer(c)
			ruleCtorUpdateAgree(c)
		})
	register("C20",
		"Decides lock discipline for all shared mutable state reachable from main (request, purge, admin and reload paths): every access to a guarded field (entry state, shard LRU, server settings, location list) holds the owner's lock in a sufficient mode, locally or through every caller; every lock is released on every return and only by a function that holds it; the lock-order graph is acyclic; fields read without a lock are written only while their object is private to its constructor; a published response is never written; memory from a sync.Pool never escapes into keys, bodies or records; error values (which reach requests through shared package-level sentinels) are written only by the function that built them; no value holding a lock is copied; slices owned by the upstream pool are never written; configuration reloads are invoked synchronously from the single watcher goroutine; the entry lookup is made under the write lock and a woken waiter re-reads under the lock; a registry lookup that can return nil is tested before use; a reload publishes referenced sections before the sections that name them. Each nilable field that closing a server dereferences is guarded by a field set only together with it (a server whose listen failed can be closed). A response object is never overwritten as a whole once built (readers that were handed it keep a consistent generation). Pike stores to no field of the request or of a URL other than the request's own path and query (the upstream library's shared target URL is never edited). Race-detector stress and 'the process does not crash' over schedules are not applicable to static analysis.",
		nil, func(c *Ctx) {
			withAnchors(c, func(a *serverAnchors) {
				ruleLockset(c)
				ruleLRUContract(c)
				ruleImmutableAfterConstruction(c)
				rulePublishedResponse(c, a)
				rulePooledBytes(c)
				ruleRegistriesTyped(c)
				ruleErrorsImmutable(c)
				ruleLocksNotCopied(c)
				ruleLoopClosures(c)
				ruleNoWaitUnderLock(c)
				ruleQueryEdits(c)
				ruleCtorUpdateAgree(c)
				ruleLibrarySlices(c)
				ruleWatchEveryWrite(c)
				ruleLockedWrapper(c, a.cacheA)
				ruleGetOrCreate(c)
				ruleCompletionPaths(c, a.cacheA, set("locked", "completes-on-every-path"))
				ruleCacheMiddleware(c, a, set("ticket-discharge"))
				ruleLookupNilChecked(c)
				ruleProxyMiddleware(c, a, set("withheld-on-fetch", "restore"))
				ruleSectionsApplied(c)
				ruleLookup(c, a.cacheA, set("creation-time-kept"))
				rulePrecompress(c, a)
				ruleEntryWriters(c, a.cacheA)
				ruleCloseListenerGuard(c)
				ruleResponseNeverOverwritten(c)
				ruleRequestWrites(c)
			})
		})
}
