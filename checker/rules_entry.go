package main

// Rules over the cache entry state machine (package cache, type httpCache):
// the lookup function get(), its locked wrapper Get(), the store loader
// initFromStore() and the completion functions (Cacheable, HitForPass and any
// other function that stores a terminal status).
//
// They are shared by C01, C02, C04, C07, C08, C10 and C20; each property's
// check registers the subset that is a necessary condition of that property.

import (
	"fmt"
	"go/types"
	"strings"

	"golang.org/x/tools/go/ssa"
)

// inlineCache: simulate pike-local helpers of package cache in place, except
// the response decoder (its internals are irrelevant to the entry's state; it
// only writes its own receiver).
func inlineCache(callee *ssa.Function, depth int) bool {
	if depth >= 6 || callee == nil {
		return false
	}
	if !inPkg(callee, "cache") {
		return false
	}
	if callee.Name() == "FromBytes" && strings.Contains(callee.String(), "HTTPResponse") {
		return false
	}
	if callee.Name() == "Bytes" || callee.Name() == "Compress" {
		return false
	}
	return true
}

func isClock(t *Term) bool {
	if t == nil || t.Op != "call" || t.Fn == nil {
		return false
	}
	if t.Fn.String() != "(time.Time).Unix" || len(t.Args) != 1 {
		return false
	}
	a := t.Args[0]
	return a.Op == "call" && a.Fn != nil && a.Fn.String() == "time.Now"
}

func isEmptySlice(t *Term) bool {
	if t == nil {
		return false
	}
	switch t.Op {
	case "nil":
		return true
	case "make":
		if strings.HasPrefix(t.Name, "slice:") && len(t.Args) > 0 {
			if v, ok := t.Args[0].IntVal(); ok && v == 0 {
				return true
			}
		}
	case "slice":
		// new([N]T)[:0]
		if len(t.Args) == 4 {
			if v, ok := t.Args[2].IntVal(); ok && v == 0 {
				return true
			}
		}
	}
	return false
}

// classify decides which of the constants cs the term equals on this path.
func classify(f *Facts, t *Term, typ types.Type, cs ...int64) (int64, bool) {
	for _, c := range cs {
		ct := intTerm(c)
		ct.Type = typ
		if k, v := f.Decide(eqTerm(t, ct)); k && v {
			return c, true
		}
	}
	return 0, false
}

type entryCase struct {
	name     string
	status   int64
	expNon0  bool
	listNil  bool
	respNon0 bool
}

func (a *cacheAnchors) statusName(v int64) string {
	switch v {
	case a.stUnknown:
		return "unknown"
	case a.stFetching:
		return "fetching"
	case a.stHFP:
		return "hitForPass"
	case a.stHit:
		return "hit"
	case a.stPassed:
		return "passed"
	}
	return fmt.Sprint(v)
}

// seedEntry installs an abstract pre-state of the entry the receiver points to.
func (a *cacheAnchors) seedEntry(s *Sim, st *State, hc *Term, ec entryCase) {
	stv := intTerm(ec.status)
	stv.Type = a.fStatus.Type()
	s.store(st, cellOf(hc, a.fStatus), stv)
	if !ec.expNon0 {
		z := intTerm(0)
		z.Type = a.fExpiredAt.Type()
		s.store(st, cellOf(hc, a.fExpiredAt), z)
	} else {
		e := s.load(st, cellOf(hc, a.fExpiredAt), a.fExpiredAt.Type())
		z := intTerm(0)
		z.Type = a.fExpiredAt.Type()
		st.facts.Assume(eqTerm(e, z), false)
	}
	if ec.listNil {
		s.store(st, cellOf(hc, a.fChanList), nilTerm(a.fChanList.Type()))
	}
	if ec.respNon0 {
		r := s.load(st, cellOf(hc, a.fResponse), a.fResponse.Type())
		st.facts.Assume(eqTerm(r, nilTerm(a.fResponse.Type())), false)
	}
}

func (a *cacheAnchors) cases() []entryCase {
	return []entryCase{
		{"unknown", a.stUnknown, false, true, false},
		{"fetching", a.stFetching, false, false, false},
		{"hitForPass", a.stHFP, true, true, false},
		{"hit", a.stHit, true, true, true},
	}
}

// ruleLookup checks the lookup function's transitions for every abstract
// pre-state satisfying the data invariant
//
//	I: status in {unknown, fetching} => expiredAt == 0
//	I': status in {hitForPass, hit}  => expiredAt != 0
//	J: status != fetching            => waiter list empty
//
// and shows the invariant is re-established on every exit.
func ruleLookup(c *Ctx, a *cacheAnchors, want map[string]bool) {
	get := a.get
	pos := c.P.pos(get.Pos())
	name := funcName(get)
	type viol struct{ rule, msg string }
	npaths := 0
	found := map[string][]string{}
	seen := map[string]int{}
	report := func(rule, msg string) {
		if len(found[rule]) < 3 {
			found[rule] = append(found[rule], msg)
		}
	}
	loaderScope := map[*ssa.Function]bool{}
	if a.initFromStore != nil {
		loaderScope = staticScope(a.initFromStore, "cache", 4)
	}
	for _, ec := range a.cases() {
		ec := ec
		var hc *Term
		var preL *Term
		storeReads := 0
		sim := c.P.Simulate(get, SimConfig{
			Inline: inlineCache,
			Init: func(s *Sim, st *State, params []*Term) {
				hc = params[0]
				a.seedEntry(s, st, hc, ec)
				preL = s.load(st, cellOf(hc, a.fChanList), a.fChanList.Type())
			},
		}, func(pr *PathResult) {
			npaths++
			s := &Sim{P: c.P, Cfg: SimConfig{NoHavoc: true}}
			st := pr.State
			f := pr.Facts
			S := s.finalCell(st, hc, a.fStatus)
			E := s.finalCell(st, hc, a.fExpiredAt)
			L := s.finalCell(st, hc, a.fChanList)
			R := s.finalCell(st, hc, a.fResponse)
			where := fmt.Sprintf("pre-state %s, path [%s]", ec.name, condString(pr.Conds))
			if pr.Exit != "return" || len(pr.Results) != 3 {
				report("lookup-shape", "unexpected exit "+pr.Exit+" on "+where)
				return
			}
			rs, rdone, rdata := pr.Results[0], pr.Results[1], pr.Results[2]
			// the lookup itself never touches the creation time: a client that was just handed a hit reads
			// Age() in a second lock acquisition, possibly after another client found the entry expired
			for _, e := range pr.Events {
				if e.Kind == "store" && e.Addr.Op == "fa" && e.Addr.Args[0].Key() == hc.Key() && e.Addr.Obj == types.Object(a.fCreatedAt) && !loaderScope[e.Fn] {
					report("creation-time-kept", "the lookup overwrites createdAt ("+prettyTerm(e.Val)+") on "+where+": a request that already holds this entry's response computes its Age from the new value")
				}
			}
			// the lookup reads the store at most (first lookup of an unknown entry): a write from here would put
			// store latency and store failures on every memory hit, under the entry lock
			for _, e := range pr.Events {
				isWrite := e.Kind == "call" && e.Callee != nil && e.Callee == a.saveToStore
				if e.Kind == "invoke" && e.Method != nil && (e.Method.Name() == "Set" || e.Method.Name() == "Delete") && strings.HasSuffix(e.Method.FullName(), "store.Store)."+e.Method.Name()) {
					isWrite = true
				}
				if isWrite {
					report("lookup-no-store-write", "the lookup writes to the persistent store on "+where+": a slow or failing store then delays or blocks requests that are answered from memory")
				}
			}
			cls, ok := classify(f, S, a.fStatus.Type(), a.stUnknown, a.stFetching, a.stHFP, a.stHit)
			seen["paths"]++
			if !ok {
				report("state-determined", "final status "+prettyTerm(S)+" is not one of the four entry states on "+where)
				return
			}
			zeroE := intTerm(0)
			zeroE.Type = a.fExpiredAt.Type()
			eIsZeroK, eIsZero := f.Decide(eqTerm(E, zeroE))
			// invariant I / I'
			if cls == a.stUnknown || cls == a.stFetching {
				if !(eIsZeroK && eIsZero) {
					report("invariant-expiry", fmt.Sprintf("exit with status %s but expiredAt=%s not known to be 0 on %s", a.statusName(cls), prettyTerm(E), where))
				}
			} else if !(eIsZeroK && !eIsZero) {
				report("invariant-expiry", fmt.Sprintf("exit with status %s but expiredAt=%s may be 0 (immortal entry) on %s", a.statusName(cls), prettyTerm(E), where))
			}
			if cls == a.stUnknown {
				report("no-exit-unknown", "lookup returns leaving the entry in state unknown (nobody becomes the fetcher) on "+where)
			}
			// which status stores happened
			storedFetching := false
			cur := intTerm(ec.status)
			cur.Type = a.fStatus.Type()
			var curT *Term = cur
			for _, e := range pr.Events {
				if e.Kind == "store" && isFieldAddr(e.Addr, a.fStatus) && e.Addr.Args[0].Key() == hc.Key() {
					if v, ok := e.Val.IntVal(); ok && v == a.stFetching {
						storedFetching = true
						if pc, ok := classify(f, curT, a.fStatus.Type(), a.stUnknown, a.stFetching, a.stHFP, a.stHit); !ok || pc != a.stUnknown {
							report("fetching-only-from-unknown", fmt.Sprintf("status set to fetching while it was %s on %s", prettyTerm(curT), where))
						}
					}
					curT = e.Val
				}
				if e.Kind == "invoke" && e.Method != nil && e.Method.Name() == "Get" && strings.HasSuffix(e.Method.FullName(), "store.Store).Get") {
					storeReads++
					if ec.status != a.stUnknown {
						report("load-only-when-unknown", "the persistent store is read although the entry is "+ec.name+" on "+where)
					}
				}
			}
			// J + no-drop
			if cls != a.stFetching {
				if !isEmptySlice(L) {
					report("invariant-waiters", fmt.Sprintf("exit with status %s but waiter list %s not empty on %s", a.statusName(cls), prettyTerm(L), where))
				}
			} else {
				okL := L.Key() == preL.Key() ||
					(L.Op == "append" && len(L.Args) >= 1 && L.Args[0].Key() == preL.Key()) ||
					(ec.status != a.stFetching && isEmptySlice(L))
				if !okL {
					report("no-waiter-dropped", fmt.Sprintf("waiter list becomes %s (was %s): registered waiters are dropped on %s", prettyTerm(L), prettyTerm(preL), where))
				}
			}
			// registration <=> returned channel
			doneNonNil := !rdone.IsNil()
			if doneNonNil {
				seen["registered"]++
				if !(rdone.Op == "make" && strings.HasPrefix(rdone.Name, "chan:")) {
					report("registration", "returned wait channel "+prettyTerm(rdone)+" is not a channel made by this call on "+where)
				} else if sz, ok := rdone.Args[0].IntVal(); !ok || sz != 0 {
					// buffered channels are a different wake-up idiom; note it for the rendezvous rule
					seen["buffered"]++
				}
				if cls != a.stFetching || storedFetching {
					report("registration", fmt.Sprintf("a wait channel is returned although the entry is %s / this call became the fetcher on %s", a.statusName(cls), where))
				}
				if !(L.Op == "append" && appendedContains(st, L, rdone)) {
					report("registration", "the returned wait channel is not the one appended to the waiter list ("+prettyTerm(L)+") on "+where)
				}
			} else if cls == a.stFetching && !storedFetching {
				report("registration", "the entry stays fetching but the request neither waits nor became the fetcher (second upstream fetch) on "+where)
			}
			if storedFetching {
				seen["became-fetcher"]++
			}
			// returned status is the final status
			if rs.Key() != S.Key() {
				if rc, ok := classify(f, rs, a.fStatus.Type(), a.stUnknown, a.stFetching, a.stHFP, a.stHit, a.stPassed); !ok || rc != cls {
					report("returned-status", fmt.Sprintf("returns status %s but the entry is left %s on %s", prettyTerm(rs), a.statusName(cls), where))
				}
			}
			// data only on hit, and it is the stored response
			if cls == a.stHit {
				seen["hit"]++
				if rdata.Key() != R.Key() {
					report("hit-data", "hit returns "+prettyTerm(rdata)+" instead of the stored response "+prettyTerm(R)+" on "+where)
				}
			} else if !rdata.IsNil() {
				report("hit-data", fmt.Sprintf("a response is returned in state %s on %s", a.statusName(cls), where))
			}
			// served states must have passed the expiry test against a clock read in this call
			if cls == a.stHit || cls == a.stHFP {
				fresh := false
				for _, l := range pr.Conds {
					if l.Atom.Op != "lt" {
						continue
					}
					x, y := l.Atom.Args[0], l.Atom.Args[1]
					if !l.Pol && x.Key() == E.Key() && isClock(y) { // !(E < now)
						fresh = true
					}
					if l.Pol && y.Key() == E.Key() && isClock(x) { // now < E
						fresh = true
						report("expiry-exact", fmt.Sprintf("state %s is served only while now < expiredAt: the entry lapses when the clock reaches its expiry second, so a period of N whole seconds lasts between N-1 and N seconds (requests in the configured period's last second find the key lapsed and queue behind a probe) on %s", a.statusName(cls), where))
					}
				}
				if !fresh {
					report("expiry-applied", fmt.Sprintf("state %s is served without the test expiredAt >= now on the current expiry %s on %s", a.statusName(cls), prettyTerm(E), where))
				}
			}
		})
		if sim.Overflow {
			c.undecided("lookup-transitions", name, pos, "path enumeration overflow")
			return
		}
		if ec.status == a.stUnknown && storeReads == 0 {
			report("load-on-first-lookup", "no path of the unknown state reads the persistent store")
		}
	}
	rules := []string{"lookup-shape", "state-determined", "invariant-expiry", "no-exit-unknown", "fetching-only-from-unknown",
		"load-only-when-unknown", "load-on-first-lookup", "invariant-waiters", "no-waiter-dropped", "registration", "returned-status", "hit-data", "expiry-applied", "expiry-exact", "creation-time-kept", "lookup-no-store-write"}
	if seen["registered"] == 0 || seen["became-fetcher"] == 0 || seen["hit"] == 0 {
		c.undecided("lookup-transitions", name, pos, fmt.Sprintf("expected paths not found (registered=%d became-fetcher=%d hit=%d): idiom not recognised", seen["registered"], seen["became-fetcher"], seen["hit"]))
		return
	}
	for _, r := range rules {
		if want != nil && !want[r] {
			continue
		}
		if msgs := found[r]; len(msgs) > 0 {
			c.bad(r, name, pos, strings.Join(msgs, " || "), npaths)
		} else {
			c.ok(r, name, pos, fmt.Sprintf("holds on all %d paths over the 4 abstract pre-states", npaths), npaths)
		}
	}
}

func condString(cs []Lit) string {
	parts := []string{}
	for _, l := range cs {
		s := l.String()
		if len(s) > 90 {
			s = s[:90] + "…"
		}
		parts = append(parts, s)
	}
	if len(parts) > 8 {
		parts = append(parts[:8], fmt.Sprintf("…+%d", len(parts)-8))
	}
	return strings.Join(parts, " ; ")
}

// ruleStoreLoadAtomic: the loader adopts a persisted record all-or-nothing.
// On every path that returns a non-nil error the four state fields of the live
// entry are unchanged (or back at their zero values); on success paths that
// changed them the adopted state is a persisted one (hit / hitForPass, with an
// expiry, hit with a response).
func ruleStoreLoadAtomic(c *Ctx, a *cacheAnchors) {
	fn := a.initFromStore
	if fn == nil {
		// discover: the function in package cache that calls Store.Get
		for _, f := range c.P.allFuncs {
			if !inPkg(f, "cache") {
				continue
			}
			for _, b := range f.Blocks {
				for _, in := range b.Instrs {
					if ci, ok := in.(ssa.CallInstruction); ok && ci.Common().IsInvoke() && ci.Common().Method.Name() == "Get" &&
						strings.HasSuffix(ci.Common().Method.FullName(), "store.Store).Get") {
						fn = f
					}
				}
			}
		}
	}
	if fn == nil {
		c.undecided("load-atomic", "initFromStore", "-", "no function of package cache reads the persistent store")
		return
	}
	name, pos := funcName(fn), c.P.pos(fn.Pos())
	if len(fn.Params) == 0 {
		c.undecided("load-atomic", name, pos, "loader has no receiver")
		return
	}
	fields := []*types.Var{a.fStatus, a.fResponse, a.fCreatedAt, a.fExpiredAt, a.fChanList}
	var hc *Term
	n, adopted := 0, 0
	hfpAdopted, hfpWithResp := 0, 0
	bad := []string{}
	strict := []string{}
	created := []string{}
	sim := c.P.Simulate(fn, SimConfig{Inline: inlineCache, Init: func(s *Sim, st *State, params []*Term) { hc = params[0] }}, func(pr *PathResult) {
		n++
		s := &Sim{P: c.P, Cfg: SimConfig{NoHavoc: true}}
		if len(pr.Results) == 0 {
			return
		}
		// the loader runs inside the locked lookup: it calls no method that takes an entry's lock (on the live
		// entry that dead-locks, on the scratch entry the lock is a nil pointer)
		for _, e := range pr.Events {
			if e.Kind == "call" && e.Callee != nil && e.Callee.Signature.Recv() != nil && strings.HasSuffix(e.Callee.Signature.Recv().Type().String(), "cache.httpCache") && e.Callee.Object() != nil && e.Callee.Object().Exported() {
				switch e.Callee.Name() {
				case "Bytes", "FromBytes":
				default:
					if len(bad) < 3 {
						bad = append(bad, fmt.Sprintf("the loader calls %s, which takes the entry lock: the lookup already holds the live entry's, and the scratch entry's is nil (a panic that leaves the key locked for ever) on path [%s]", funcName(e.Callee), condString(pr.Conds)))
					}
				}
			}
		}
		errT := pr.Results[len(pr.Results)-1]
		changed := []string{}
		for _, f := range fields {
			v := s.finalCell(pr.State, hc, f)
			if v.Op == "init" && len(v.Args) == 1 && v.Args[0].Key() == cellOf(hc, f).Key() && v.Name == "" {
				continue
			}
			if v.Key() == zeroTerm(f.Type()).Key() {
				continue
			}
			changed = append(changed, f.Name()+"="+prettyTerm(v))
		}
		isNilErr := errT.IsNil()
		if !isNilErr {
			if len(changed) > 0 && len(bad) < 3 {
				bad = append(bad, fmt.Sprintf("returns error %s after changing %s on path [%s]", prettyTerm(errT), strings.Join(changed, ", "), condString(pr.Conds)))
			}
			return
		}
		if len(changed) == 0 {
			return
		}
		adopted++
		// the loader must accept every record the completions write: a hit-for-pass marker has no
		// response and may have createdAt == 0, so only status, expiry and (for a hit) the response may be tested
		decodedCreated := map[string]bool{}
		for _, e := range pr.Events {
			if e.Kind == "store" && isFieldAddr(e.Addr, a.fCreatedAt) && e.Addr.Args[0].Op == "alloc" {
				decodedCreated[e.Val.Key()] = true
			}
		}
		respFields := map[types.Object]bool{}
		if rn := c.P.NamedType("cache", "HTTPResponse"); rn != nil {
			if st, ok := rn.Underlying().(*types.Struct); ok {
				for i := 0; i < st.NumFields(); i++ {
					respFields[st.Field(i)] = true
				}
			}
		}
		for _, l := range pr.Conds {
			l.Atom.walk(func(x *Term) bool {
				if (x.Op == "fa" || x.Op == "fld") && x.Obj != nil && respFields[x.Obj] {
					strict = append(strict, fmt.Sprintf("the loader makes adoption depend on the decoded response's %s (%s): responses with an empty body (redirects, 204, answers to HEAD) or any header set are valid records the completions write, and would be thrown away on reload", x.Name, l.String()))
					return false
				}
				return true
			})
		}
		for _, l := range pr.Conds {
			l.Atom.walk(func(x *Term) bool {
				if decodedCreated[x.Key()] && !x.IsConst() {
					strict = append(strict, fmt.Sprintf("the loader tests createdAt of the decoded record (%s): hit-for-pass markers are written with createdAt == 0 and would be thrown away on reload, so the key is probed and queued again inside its period", l.String()))
					return false
				}
				if x.Op == "init" && len(x.Args) == 1 && x.Args[0].Op == "fa" && x.Args[0].Args[0].Op == "alloc" {
					if fv, ok := x.Args[0].Obj.(*types.Var); ok && fv == a.fCreatedAt {
						strict = append(strict, fmt.Sprintf("the loader tests createdAt of the decoded record (%s): hit-for-pass markers are written with createdAt == 0 and would be thrown away on reload, so the key is probed and queued again inside its period", l.String()))
					}
				}
				return true
			})
		}
		S := s.finalCell(pr.State, hc, a.fStatus)
		E := s.finalCell(pr.State, hc, a.fExpiredAt)
		R := s.finalCell(pr.State, hc, a.fResponse)
		cls, ok := classify(pr.Facts, S, a.fStatus.Type(), a.stHFP, a.stHit)
		if !ok {
			bad = append(bad, fmt.Sprintf("adopts status %s which is not checked to be hit / hitForPass on path [%s]", prettyTerm(S), condString(pr.Conds)))
			return
		}
		z := intTerm(0)
		z.Type = a.fExpiredAt.Type()
		if k, v := pr.Facts.Decide(eqTerm(E, z)); !(k && !v) {
			bad = append(bad, fmt.Sprintf("adopts a record whose expiry %s may be 0 (immortal entry) on path [%s]", prettyTerm(E), condString(pr.Conds)))
		}
		if cls == a.stHFP {
			hfpAdopted++
			if k, v := pr.Facts.Decide(eqTerm(R, nilTerm(a.fResponse.Type()))); !(k && v) && !R.IsNil() {
				hfpWithResp++
			}
			// a marker is written with whatever response the entry held (HitForPass never clears it): present or not
			for _, l := range pr.Conds {
				if l.Atom.contains(func(x *Term) bool {
					fv, ok := x.Obj.(*types.Var)
					return ok && fv == a.fResponse && (x.Op == "fa" || x.Op == "fld") && len(x.Args) > 0 && x.Args[0].Op == "alloc"
				}) {
					strict = append(strict, fmt.Sprintf("the loader makes adoption of a hit-for-pass marker depend on the decoded record's response (%s): the completion writes markers both with and without one (an entry that was cacheable before keeps its old response), so valid markers would be thrown away on reload", l.String()))
				}
			}
		}
		if cls == a.stHit {
			C := s.finalCell(pr.State, hc, a.fCreatedAt)
			if !decodedCreated[C.Key()] {
				created = append(created, fmt.Sprintf("adopts a hit but leaves createdAt = %s, not the decoded record's creation time (the restored entry reports a wrong Age) on path [%s]", prettyTerm(C), condString(pr.Conds)))
			}
			if k, v := pr.Facts.Decide(eqTerm(R, nilTerm(a.fResponse.Type()))); !(k && !v) && !knownNonNil(R) {
				bad = append(bad, fmt.Sprintf("adopts a hit whose response %s may be nil on path [%s]", prettyTerm(R), condString(pr.Conds)))
			}
		}
	})
	if sim.Overflow {
		c.undecided("load-atomic", name, pos, "path enumeration overflow")
		return
	}
	if adopted == 0 {
		c.undecided("load-atomic", name, pos, "no path adopts a record: loader idiom not recognised")
		return
	}
	if hfpAdopted > 0 && hfpWithResp == 0 {
		strict = append(strict, "no path adopts a hit-for-pass marker that carries a response: the completion writes such markers (an entry that was cacheable before keeps its old response when it turns hit-for-pass), and they would be thrown away on reload, so the key is probed and queued again inside its period")
	}
	c.check(len(created) == 0, "loader-restores-age", name, pos, "every adopted hit takes createdAt from the decoded record", strings.Join(uniq(created), " || "), adopted)
	c.check(len(strict) == 0, "loader-accepts-saved", name, pos, "adopting paths test only status, expiry and (for a hit) the response: every record a completion writes is accepted", strings.Join(uniq(strict), " || "), adopted)
	if len(bad) > 0 {
		if len(bad) > 3 {
			bad = bad[:3]
		}
		c.bad("load-atomic", name, pos, strings.Join(bad, " || "), n)
	} else {
		c.ok("load-atomic", name, pos, fmt.Sprintf("%d paths: error exits leave status/response/createdAt/expiredAt untouched; %d adopting paths validated (state, expiry, response)", n, adopted), n)
	}
}

// ruleLockedWrapper checks Get(): what it returns is the result of the last
// lookup made under the write lock; a woken waiter goes back through the lookup;
// the wait is a plain receive with no lock held.
func ruleLockedWrapper(c *Ctx, a *cacheAnchors) {
	fn := a.Get
	name, pos := funcName(fn), c.P.pos(fn.Pos())
	n, waits := 0, 0
	bad := []string{}
	add := func(s string) {
		if len(bad) < 3 {
			bad = append(bad, s)
		}
	}
	sim := c.P.Simulate(fn, SimConfig{NoWiden: true, Inline: func(callee *ssa.Function, depth int) bool {
		return inlineCache(callee, depth) && callee != a.get
	}}, func(pr *PathResult) {
		n++
		if pr.Exit != "return" || len(pr.Results) != 2 {
			add("unexpected exit " + pr.Exit)
			return
		}
		var last *Event
		lastIdx := -1
		locked := false
		released, reacquired := false, false // since the last lookup
		for i, e := range pr.Events {
			switch {
			case e.calleeIs("(*sync.RWMutex).Lock"):
				locked = true
				if released {
					reacquired = true
				}
			case e.calleeIs("(*sync.RWMutex).RLock"):
				// a read lock is not enough for the lookup (it mutates the entry)
				if released {
					reacquired = true
				}
			case e.calleeIs("(*sync.RWMutex).Unlock", "(*sync.RWMutex).RUnlock"):
				locked = false
				if last != nil {
					released = true
				}
			case e.Kind == "call" && e.Callee == a.get:
				if !locked {
					add("the lookup is called without the entry's write lock")
				}
				last, lastIdx = e, i
				released, reacquired = false, false
			case e.Kind == "recv":
				waits++
				if reacquired {
					add("takes the entry lock again between registering as a waiter and waiting: the completion holds the write lock while it hands the result over to the registered waiters, so the two block each other forever")
				}
				released, reacquired = false, false
				if locked {
					add("waits on the channel while holding the entry lock")
				}
				if last == nil || e.Addr.Key() != (&Term{Op: "ext", Name: "1", Args: []*Term{last.Result}}).Key() {
					add("waits on " + prettyTerm(e.Addr) + " which is not the channel returned by the preceding lookup")
				}
			case e.Kind == "select":
				add("the wait is a select (a waiter that stops listening blocks the completer's send forever)")
			}
		}
		if last == nil {
			add("returns without a lookup")
			return
		}
		for _, e := range pr.Events[lastIdx+1:] {
			if e.Kind == "recv" {
				add("returns after a wake-up without re-evaluating the entry under the lock (stale or racy state)")
			}
		}
		if locked {
			add("returns with the entry lock held")
		}
		want0 := (&Term{Op: "ext", Name: "0", Args: []*Term{last.Result}}).Key()
		want2 := (&Term{Op: "ext", Name: "2", Args: []*Term{last.Result}}).Key()
		if pr.Results[0].Key() != want0 || pr.Results[1].Key() != want2 {
			add(fmt.Sprintf("returns (%s, %s) instead of the status/response of the last locked lookup", prettyTerm(pr.Results[0]), prettyTerm(pr.Results[1])))
		}
		// the last lookup returned no channel
		doneT := &Term{Op: "ext", Name: "1", Args: []*Term{last.Result}}
		if k, v := pr.Facts.Decide(eqTerm(doneT, nilTerm(doneT.Type))); !(k && v) {
			add("returns although the last lookup handed out a wait channel")
		}
	})
	if sim.Overflow {
		c.undecided("locked-lookup", name, pos, "path enumeration overflow")
		return
	}
	if waits == 0 {
		c.undecided("locked-lookup", name, pos, "no path waits on a channel: wrapper idiom not recognised")
		return
	}
	// the lookup step is a transition, not a peek: it is reached only through this wrapper, which waits on the
	// channel it hands out and whose caller completes the fetch it starts
	if !onlyReachedFrom(c.P, a.get, fn, map[*ssa.Function]bool{}) {
		for _, g := range c.P.allFuncs {
			if g == fn || onlyReachedFrom(c.P, g, fn, map[*ssa.Function]bool{}) && g != a.get {
				continue
			}
			for _, b := range g.Blocks {
				for _, in := range b.Instrs {
					if ci, ok := in.(ssa.CallInstruction); ok && ci.Common().StaticCallee() == a.get {
						add(fmt.Sprintf("%s: %s calls the lookup step directly: becoming the fetcher or registering as a waiter are side effects it throws away (the key stays fetching with no fetcher; a completion blocks on a channel nobody reads)", c.P.pos(in.Pos()), funcName(g)))
					}
				}
			}
		}
		if len(bad) == 0 {
			add("the lookup step is reachable from outside the locked wrapper")
		}
	}
	if len(bad) > 0 {
		c.bad("locked-lookup", name, pos, strings.Join(bad, " || "), n)
	} else {
		c.ok("locked-lookup", name, pos, fmt.Sprintf("%d paths: every return hands out the result of the last lookup made under the write lock; waits are plain receives on that lookup's channel with no lock held; a woken waiter re-runs the lookup", n), n)
	}
}

// ------------------------------------------------------------ completions

// chanListDerived reports whether channel value v is an element of a slice
// loaded from the waiter-list field (through index, range, phi, and — for a
// helper — through the arguments at its call sites inside `scope`).
func (a *cacheAnchors) chanListDerived(p *Program, v ssa.Value, scope map[*ssa.Function]bool, depth int) bool {
	if depth > 6 {
		return false
	}
	switch x := stripConv(v).(type) {
	case *ssa.UnOp:
		switch y := x.X.(type) {
		case *ssa.IndexAddr:
			return a.sliceFromChanList(p, y.X, scope, depth+1)
		}
	case *ssa.Index:
		return a.sliceFromChanList(p, x.X, scope, depth+1)
	case *ssa.Extract:
		if nx, ok := x.Tuple.(*ssa.Next); ok {
			if r, ok := nx.Iter.(*ssa.Range); ok {
				return a.sliceFromChanList(p, r.X, scope, depth+1)
			}
		}
	case *ssa.Phi:
		for _, e := range x.Edges {
			if e != v && a.chanListDerived(p, e, scope, depth+1) {
				return true
			}
		}
	case *ssa.Parameter:
		return a.paramFrom(p, x, scope, depth, func(arg ssa.Value) bool { return a.chanListDerived(p, arg, scope, depth+1) })
	}
	return false
}

func (a *cacheAnchors) sliceFromChanList(p *Program, v ssa.Value, scope map[*ssa.Function]bool, depth int) bool {
	if depth > 6 {
		return false
	}
	switch x := stripConv(v).(type) {
	case *ssa.UnOp:
		if fa, ok := x.X.(*ssa.FieldAddr); ok {
			return fieldOf(fa.X.Type(), fa.Field) == a.fChanList
		}
		if al, ok := x.X.(*ssa.Alloc); ok {
			// local variable spilled to memory: look at what is stored in it
			for _, r := range *al.Referrers() {
				if st, ok := r.(*ssa.Store); ok && st.Addr == al && a.sliceFromChanList(p, st.Val, scope, depth+1) {
					return true
				}
			}
		}
	case *ssa.Slice:
		return a.sliceFromChanList(p, x.X, scope, depth+1)
	case *ssa.Phi:
		for _, e := range x.Edges {
			if e != v && a.sliceFromChanList(p, e, scope, depth+1) {
				return true
			}
		}
	case *ssa.Parameter:
		return a.paramFrom(p, x, scope, depth, func(arg ssa.Value) bool { return a.sliceFromChanList(p, arg, scope, depth+1) })
	}
	return false
}

func (a *cacheAnchors) paramFrom(p *Program, prm *ssa.Parameter, scope map[*ssa.Function]bool, depth int, pred func(ssa.Value) bool) bool {
	fn := prm.Parent()
	idx := -1
	for i, q := range fn.Params {
		if q == prm {
			idx = i
		}
	}
	if idx < 0 {
		return false
	}
	for caller := range scope {
		for _, b := range caller.Blocks {
			for _, in := range b.Instrs {
				ci, ok := in.(ssa.CallInstruction)
				if !ok || ci.Common().StaticCallee() != fn {
					continue
				}
				if idx < len(ci.Common().Args) && pred(ci.Common().Args[idx]) {
					return true
				}
			}
		}
	}
	return false
}

// cycleOf returns the blocks on a cycle through b (empty if b is in no loop).
func cycleOf(b *ssa.BasicBlock) map[*ssa.BasicBlock]bool {
	fwd := map[*ssa.BasicBlock]bool{}
	var f func(x *ssa.BasicBlock)
	f = func(x *ssa.BasicBlock) {
		for _, s := range x.Succs {
			if !fwd[s] {
				fwd[s] = true
				f(s)
			}
		}
	}
	f(b)
	if !fwd[b] {
		return nil
	}
	bwd := map[*ssa.BasicBlock]bool{}
	var g func(x *ssa.BasicBlock)
	g = func(x *ssa.BasicBlock) {
		for _, s := range x.Preds {
			if !bwd[s] {
				bwd[s] = true
				g(s)
			}
		}
	}
	g(b)
	out := map[*ssa.BasicBlock]bool{}
	for x := range fwd {
		if bwd[x] {
			out[x] = true
		}
	}
	return out
}

func staticScope(root *ssa.Function, pkg string, maxDepth int) map[*ssa.Function]bool {
	scope := map[*ssa.Function]bool{root: true}
	var walk func(f *ssa.Function, d int)
	walk = func(f *ssa.Function, d int) {
		if d >= maxDepth {
			return
		}
		for _, b := range f.Blocks {
			for _, in := range b.Instrs {
				if ci, ok := in.(ssa.CallInstruction); ok {
					callee := ci.Common().StaticCallee()
					if callee != nil && callee.Blocks != nil && inPkg(callee, pkg) && !scope[callee] {
						scope[callee] = true
						walk(callee, d+1)
					}
				}
			}
		}
		for _, an := range f.AnonFuncs {
			if !scope[an] {
				scope[an] = true
				walk(an, d+1)
			}
		}
	}
	walk(root, 0)
	return scope
}

// ruleDrainShape: the wake-up in each completion function is an exhaustive loop
// of blocking sends (or closes) over the waiter list.
func ruleDrainShape(c *Ctx, a *cacheAnchors) {
	if len(a.completions) < 2 {
		c.undecided("drain-shape", "completions", "-", fmt.Sprintf("expected at least the two completion functions, found %d", len(a.completions)))
		return
	}
	for _, F := range a.completions {
		name, pos := funcName(F), c.P.pos(F.Pos())
		scope := staticScope(F, "cache", 3)
		sites := 0
		bad := []string{}
		for fn := range scope {
			for _, b := range fn.Blocks {
				for _, in := range b.Instrs {
					var ch ssa.Value
					kind := ""
					switch x := in.(type) {
					case *ssa.Send:
						ch, kind = x.Chan, "send"
					case *ssa.Select:
						for _, st := range x.States {
							if a.chanListDerived(c.P, st.Chan, scope, 0) {
								bad = append(bad, fmt.Sprintf("%s: waiters are woken through a select%s — a registered waiter that is not yet receiving is skipped and then blocks forever", c.P.pos(x.Pos()), map[bool]string{true: "", false: " with default"}[x.Blocking]))
								sites++
							}
						}
						continue
					case *ssa.Call:
						if bi, ok := x.Call.Value.(*ssa.Builtin); ok && bi.Name() == "close" {
							ch, kind = x.Call.Args[0], "close"
						}
					}
					if ch == nil || !a.chanListDerived(c.P, ch, scope, 0) {
						continue
					}
					sites++
					cyc := cycleOf(b)
					if cyc == nil {
						bad = append(bad, fmt.Sprintf("%s: %s on a waiter channel is not in a loop over the list", c.P.pos(in.Pos()), kind))
						continue
					}
					// header: the block of the cycle entered from outside
					var header *ssa.BasicBlock
					for x := range cyc {
						for _, pr := range x.Preds {
							if !cyc[pr] {
								header = x
							}
						}
					}
					if header == nil {
						bad = append(bad, fmt.Sprintf("%s: loop header not found", c.P.pos(in.Pos())))
						continue
					}
					for x := range cyc {
						for _, s := range x.Succs {
							if !cyc[s] && x != header {
								bad = append(bad, fmt.Sprintf("%s: the wake-up loop can be left early from %s (break/return): later waiters stay blocked", c.P.pos(in.Pos()), c.P.pos(firstPos(x).Pos())))
							}
						}
					}
					for _, pr := range header.Preds {
						if cyc[pr] && !b.Dominates(pr) {
							bad = append(bad, fmt.Sprintf("%s: an iteration of the wake-up loop can skip the %s", c.P.pos(in.Pos()), kind))
						}
					}
					// the loop condition ranges over the whole list: idx < len(list)
					okCond := false
					if iff, ok := header.Instrs[len(header.Instrs)-1].(*ssa.If); ok {
						if bo, ok := iff.Cond.(*ssa.BinOp); ok && bo.Op.String() == "<" {
							if ln, ok := bo.Y.(*ssa.Call); ok {
								if bi, ok := ln.Call.Value.(*ssa.Builtin); ok && bi.Name() == "len" && a.sliceFromChanList(c.P, ln.Call.Args[0], scope, 0) {
									okCond = true
								}
							}
						}
						if _, ok := iff.Cond.(*ssa.Extract); ok {
							okCond = true // range over map/channel iterator: runs to exhaustion
						}
					}
					if !okCond {
						bad = append(bad, fmt.Sprintf("%s: the wake-up loop is not bounded by the length of the waiter list", c.P.pos(in.Pos())))
					}
				}
			}
		}
		if sites == 0 {
			c.bad("drain-shape", name, pos, "stores a terminal status but contains no wake-up of the waiter list (neither directly nor in a helper of package cache)", 1)
			continue
		}
		if len(bad) > 0 {
			c.bad("drain-shape", name, pos, strings.Join(bad, " || "), sites)
		} else {
			c.ok("drain-shape", name, pos, fmt.Sprintf("%d wake-up site(s): blocking send/close on every element of the waiter list, loop left only on exhaustion", sites), sites)
		}
	}
}

func firstPos(b *ssa.BasicBlock) (p ssa.Instruction) {
	for _, in := range b.Instrs {
		if in.Pos().IsValid() {
			return in
		}
	}
	return b.Instrs[0]
}

// ruleCompletionPaths: every return path of a completion function, started on a
// fetching entry, ends with a terminal status, an expiry = clock + ttl (ttl>=1),
// an empty waiter list whose previous content was handed to the wake-up loop,
// all under the entry's write lock.
func ruleCompletionPaths(c *Ctx, a *cacheAnchors, want map[string]bool) {
	for _, F := range a.completions {
		name, pos := funcName(F), c.P.pos(F.Pos())
		var hc, preL *Term
		var ttlParam, respParam *Term
		found := map[string][]string{}
		report := func(rule, msg string) {
			if len(found[rule]) < 3 {
				found[rule] = append(found[rule], msg)
			}
		}
		n := 0
		sim := c.P.Simulate(F, SimConfig{Inline: inlineCache, Init: func(s *Sim, st *State, params []*Term) {
			hc = params[0]
			a.seedEntry(s, st, hc, entryCase{"fetching", a.stFetching, false, false, false})
			preL = s.load(st, cellOf(hc, a.fChanList), a.fChanList.Type())
			for i, prm := range F.Params {
				if i == 0 {
					continue
				}
				if isIntType(prm.Type()) {
					ttlParam = params[i]
				} else if _, ok := prm.Type().(*types.Pointer); ok {
					respParam = params[i]
				}
			}
		}}, func(pr *PathResult) {
			n++
			s := &Sim{P: c.P, Cfg: SimConfig{NoHavoc: true}}
			st, f := pr.State, pr.Facts
			where := "path [" + condString(pr.Conds) + "]"
			if pr.Exit != "return" {
				return
			}
			S := s.finalCell(st, hc, a.fStatus)
			E := s.finalCell(st, hc, a.fExpiredAt)
			L := s.finalCell(st, hc, a.fChanList)
			cls, ok := classify(f, S, a.fStatus.Type(), a.stUnknown, a.stFetching, a.stHFP, a.stHit)
			if !ok || (cls != a.stHFP && cls != a.stHit) {
				report("completes-on-every-path", "returns leaving the entry "+prettyTerm(S)+" (still fetching: the key is stuck and waiters are never released) on "+where)
				return
			}
			if !isEmptySlice(L) {
				report("completes-on-every-path", "returns with waiter list "+prettyTerm(L)+" not cleared on "+where)
			}
			// the record's lifetime in the store is that of the entry: never a duration known to be <= 0 while the
			// entry itself got a positive one (badger / mongo drop such a record at once, redis keeps it for ever)
			for _, e := range pr.Events {
				if e.Kind == "invoke" && e.Method != nil && e.Method.Name() == "Set" && len(e.Args) == 4 {
					factsE := factsAt(c.P, pr, e)
					if iv := factsE.Interval(signBase(e.Args[3])); iv.Hi != nil && iv.Hi.Sign() <= 0 {
						report("persist-ttl", "the record is written with a store lifetime of "+prettyTerm(e.Args[3])+", known to be <= 0, although the entry is kept in memory for a positive period: once the entry is evicted the marker is gone and the key is probed (and queued) again inside its period, on "+where)
					}
				}
			}
			// what is persisted is the final state: no state field is written after the record was saved
			saveAt := -1
			for i, e := range pr.Events {
				if e.Kind == "call" && e.Callee == a.saveToStore && saveAt < 0 {
					saveAt = i
				}
				if saveAt >= 0 && i > saveAt && e.Kind == "store" && e.Addr.Op == "fa" && e.Addr.Args[0].Key() == hc.Key() {
					if fv, ok := e.Addr.Obj.(*types.Var); ok && (fv == a.fStatus || fv == a.fExpiredAt || fv == a.fCreatedAt || fv == a.fResponse) {
						report("persist-final", "the entry's "+fv.Name()+" is written after the record was saved to the store: what is persisted is not the state the completion leaves (e.g. a marker saved as 'fetching' is thrown away on reload) on "+where)
					}
				}
			}
			// drain reached, lock discipline
			locked, drained := false, false
			for _, e := range pr.Events {
				switch {
				case e.calleeIs("(*sync.RWMutex).Lock"):
					locked = true
				case e.calleeIs("(*sync.RWMutex).Unlock"):
					locked = false
				case e.Kind == "store" && e.Addr.Op == "fa" && e.Addr.Args[0].Key() == hc.Key():
					if !locked {
						report("locked", "writes "+e.Addr.Name+" without the entry's write lock on "+where)
					}
				case e.Kind == "send" || (e.Kind == "builtin" && e.CalleeT != nil && e.CalleeT.Name == "close"):
					t := e.Addr
					if e.Kind == "builtin" {
						t = e.Args[0]
					}
					if t.contains(func(x *Term) bool { return x.Key() == preL.Key() }) {
						drained = true
						if !locked {
							report("locked", "wakes waiters outside the critical section that changed the state on "+where)
						}
					}
				}
			}
			if !drained {
				for _, l := range pr.Conds {
					if l.Atom.Op == "lt" && l.Atom.Args[1].Op == "len" && l.Atom.Args[1].Args[0].Key() == preL.Key() {
						drained = true // the loop condition over the previous list was evaluated (zero waiters)
					}
				}
			}
			if !drained {
				report("completes-on-every-path", "returns without running the wake-up loop over the registered waiters on "+where)
			}
			// expiry value
			okE := false
			var T *Term
			if E.Op == "bin" && E.Name == "+" {
				x, y := E.Args[0], E.Args[1]
				if isClock(y) {
					x, y = y, x
				}
				var Tconv *Term
				if isClock(x) {
					T = y
					Tconv = y
					for T.Op == "conv" {
						T = T.Args[0]
					}
					okE = true
				}
				_ = Tconv
			}
			if !okE {
				report("expiry-value", "expiry "+prettyTerm(E)+" is not (clock read in this call) + ttl on "+where)
			} else {
				iv := f.Interval(T)
				// the bound may have been established on the converted value (int64(ttl) > 0)
				if iv.Lo == nil || iv.Lo.Sign() < 1 {
					for u := E.Args[0]; ; {
						if !isClock(u) {
							if iv2 := f.Interval(u); iv2.Lo != nil && iv2.Lo.Sign() >= 1 {
								iv = iv2
							}
						}
						if u == E.Args[1] {
							break
						}
						u = E.Args[1]
					}
				}
				if iv.Lo == nil || iv.Lo.Sign() < 1 {
					report("ttl-positive", fmt.Sprintf("ttl %s added to the clock has range %s: a non-positive period makes the marker/entry lapse at once on %s", prettyTerm(T), iv, where))
				}
				// the upper bound, too, may have been established on the converted value (int64(ttl) <= max)
				if iv.Hi == nil || iv.Hi.BitLen() > 33 {
					for _, u := range []*Term{E.Args[0], E.Args[1]} {
						if !isClock(u) {
							if iv2 := f.Interval(u); iv2.Hi != nil && iv2.Hi.BitLen() <= 33 {
								iv.Hi = iv2.Hi
							}
						}
					}
				}
				if cls == a.stHit && (iv.Hi == nil || iv.Hi.BitLen() > 33) {
					report("no-wrap", fmt.Sprintf("ttl %s has range %s: clock + ttl can overflow int64 (entry expired at birth) on %s", prettyTerm(T), iv, where))
				}
				if T.Key() != ttlParam.Key() && !T.IsConst() {
					report("expiry-value", "ttl term "+prettyTerm(T)+" is neither the ttl argument nor a constant on "+where)
				}
			}
			if cls == a.stHit {
				Cr := s.finalCell(st, hc, a.fCreatedAt)
				if !isClock(Cr) || (okE && !E.contains(func(x *Term) bool { return x.Key() == Cr.Key() })) {
					report("expiry-value", "createdAt "+prettyTerm(Cr)+" is not the clock value the expiry is computed from on "+where)
				}
				R := s.finalCell(st, hc, a.fResponse)
				if respParam == nil || R.Key() != respParam.Key() {
					report("stores-response", "hit entry's response is "+prettyTerm(R)+", not the response argument on "+where)
				}
			}
		})
		if sim.Overflow {
			c.undecided("completion-paths", name, pos, "path enumeration overflow")
			continue
		}
		if n == 0 {
			c.undecided("completion-paths", name, pos, "no return path")
			continue
		}
		if len(found["ttl-positive"]) > 0 && ttlParam != nil {
			// the function relies on its callers for a positive ttl: check every call site
			idx := -1
			for i, prm := range F.Params {
				if isIntType(prm.Type()) {
					idx = i
				}
			}
			if msgs, sites := argAlwaysPositive(c.P, F, idx); sites > 0 && len(msgs) == 0 {
				delete(found, "ttl-positive")
				c.Notes = append(c.Notes, fmt.Sprintf("%s does not default a non-positive ttl itself; all %d call sites pass a value proved >= 1", name, sites))
			} else {
				found["ttl-positive"] = append(found["ttl-positive"], msgs...)
				if sites == 0 {
					found["ttl-positive"] = append(found["ttl-positive"], "no call site found to establish ttl >= 1")
				}
			}
		}
		for _, r := range []string{"completes-on-every-path", "locked", "expiry-value", "ttl-positive", "no-wrap", "stores-response", "persist-final", "persist-ttl"} {
			if want != nil && !want[r] {
				continue
			}
			if msgs := found[r]; len(msgs) > 0 {
				c.bad(r, name, pos, strings.Join(msgs, " || "), n)
			} else {
				c.ok(r, name, pos, fmt.Sprintf("holds on all %d return paths", n), n)
			}
		}
	}
}

// argAlwaysPositive: at every static call site of F in pike, argument idx has a
// lower bound >= 1 on every path reaching the call.
func argAlwaysPositive(p *Program, F *ssa.Function, idx int) (msgs []string, sites int) {
	// an interface call that F's receiver type can satisfy is a call site too
	mayDispatch := func(m *types.Func) bool {
		if m == nil || m.Name() != F.Name() || F.Signature.Recv() == nil {
			return false
		}
		sig, ok := m.Type().(*types.Signature)
		if !ok || sig.Recv() == nil {
			return false
		}
		it, ok := sig.Recv().Type().Underlying().(*types.Interface)
		return ok && types.Implements(F.Signature.Recv().Type(), it)
	}
	for _, caller := range p.allFuncs {
		calls := false
		for _, b := range caller.Blocks {
			for _, in := range b.Instrs {
				if ci, ok := in.(ssa.CallInstruction); ok && (ci.Common().StaticCallee() == F || (ci.Common().IsInvoke() && mayDispatch(ci.Common().Method))) {
					calls = true
				}
			}
		}
		if !calls {
			continue
		}
		sim := p.Simulate(caller, SimConfig{}, func(pr *PathResult) {
			for _, e := range pr.Events {
				if (((e.Kind == "call" || e.Kind == "defer" || e.Kind == "go") && e.Callee == F) || (e.Kind == "invoke" && mayDispatch(e.Method))) && !e.Deferred && idx < len(e.Args) {
					sites++
					iv := pr.Facts.Interval(e.Args[idx])
					if iv.Lo == nil || iv.Lo.Sign() < 1 {
						if len(msgs) < 3 {
							msgs = append(msgs, fmt.Sprintf("%s passes %s with range %s at %s on path [%s]", funcName(caller), prettyTerm(e.Args[idx]), iv, p.pos(e.Instr.Pos()), condString(pr.Conds)))
						}
					}
				}
			}
		})
		if sim.Overflow {
			msgs = append(msgs, "path overflow in "+funcName(caller))
		}
	}
	return
}

// appendedContains: L = append(old, elems...) and v is one of the appended
// elements (go/ssa lowers the variadic part to a fresh array whose cells are
// stored individually).
func appendedContains(st *State, L, v *Term) bool {
	if L.Op != "append" || len(L.Args) < 2 {
		return false
	}
	for _, arg := range L.Args[1:] {
		if arg.Key() == v.Key() {
			return true
		}
		if arg.Op == "slice" && len(arg.Args) > 0 && arg.Args[0].Op == "alloc" {
			for k, loc := range st.heapLoc {
				if loc.Op == "ia" && loc.Args[0].Key() == arg.Args[0].Key() && st.heap[k].Key() == v.Key() {
					return true
				}
			}
		}
	}
	return false
}

// signBase strips conversions and multiplications by a positive constant: the result has the sign of t.
func signBase(t *Term) *Term {
	for i := 0; i < 8; i++ {
		u := stripConvTerm(t)
		if u.Op == "bin" && u.Name == "*" && len(u.Args) == 2 {
			if k, ok := u.Args[1].IntVal(); ok && k > 0 {
				t = u.Args[0]
				continue
			}
			if k, ok := u.Args[0].IntVal(); ok && k > 0 {
				t = u.Args[1]
				continue
			}
		}
		return u
	}
	return t
}
