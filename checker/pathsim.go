package main

// PathSim: a path-sensitive dataflow engine over go/ssa.
//
// It enumerates the acyclic control-flow paths of one function (loop bodies are
// visited at most twice, the second time with widened loop variables), keeps a
// symbolic description (Term) of every SSA value and tracked heap cell along the
// path, folds constants, correlates repeated predicates and refines integer
// intervals on branches, and records the externally visible actions (calls,
// stores, sends, receives, defers, returns) in order. Pike-local callees chosen
// by the rule are inlined to a stated depth; every other call is an event whose
// result is an opaque symbol and which havocs what it may write.
//
// Nothing is executed and no solver is involved; a rule is a predicate over the
// finite set of paths (events + branch literals + results) of its function.

import (
	"fmt"
	"go/constant"
	"go/token"
	"go/types"
	"strings"

	"golang.org/x/tools/go/ssa"
)

type Event struct {
	Kind     string // call dyncall invoke store send recv defer go select mapupdate panic builtin
	Fn       *ssa.Function
	Instr    ssa.Instruction
	Callee   *ssa.Function
	Method   *types.Func
	CalleeT  *Term
	Args     []*Term
	Addr     *Term
	Val      *Term
	Result   *Term
	Depth    int
	NConds   int
	Deferred bool
	InDefer  bool  // executed while running deferred calls
	Blocking bool  // select without default
	Ok       *Term // the "received from an open channel" flag of a select / v, ok := <-ch
}

func (e *Event) CalleeName() string {
	if e.Callee != nil {
		return funcName(e.Callee)
	}
	if e.Method != nil {
		return e.Method.FullName()
	}
	if e.CalleeT != nil {
		return "dyn:" + prettyTerm(e.CalleeT)
	}
	return ""
}

type PathResult struct {
	Events  []*Event
	Conds   []Lit
	Results []*Term
	Exit    string // return | panic
	Facts   *Facts
	State   *State
}

type State struct {
	heap    map[string]*Term
	heapLoc map[string]*Term
	epoch   map[string]int
	fresh   map[string]bool // alloc keys whose unwritten cells are still zero
	facts   *Facts
	conds   []Lit
	events  []*Event
	counter map[string]int
	inDefer int
}

func (st *State) clone() *State {
	n := &State{
		heap: make(map[string]*Term, len(st.heap)), heapLoc: make(map[string]*Term, len(st.heapLoc)),
		epoch: make(map[string]int, len(st.epoch)), fresh: make(map[string]bool, len(st.fresh)),
		facts: st.facts.clone(), counter: make(map[string]int, len(st.counter)), inDefer: st.inDefer,
	}
	for k, v := range st.heap {
		n.heap[k] = v
	}
	for k, v := range st.heapLoc {
		n.heapLoc[k] = v
	}
	for k, v := range st.epoch {
		n.epoch[k] = v
	}
	for k, v := range st.fresh {
		n.fresh[k] = v
	}
	for k, v := range st.counter {
		n.counter[k] = v
	}
	n.conds = append([]Lit{}, st.conds...)
	n.events = append([]*Event{}, st.events...)
	return n
}

type deferred struct {
	instr *ssa.Defer
	fn    *ssa.Function // static callee or closure body
	calT  *Term
	meth  *types.Func
	args  []*Term
}

type Frame struct {
	fn      *ssa.Function
	env     map[ssa.Value]*Term
	visits  map[*ssa.BasicBlock]int
	lastPhi map[*ssa.Phi]*Term
	defers  []deferred
	depth   int
	id      string
	trip    map[*ssa.BasicBlock]int64 // loops whose bound evaluated to a small constant on this path
}

func (fr *Frame) clone() *Frame {
	n := &Frame{fn: fr.fn, depth: fr.depth, id: fr.id,
		env: make(map[ssa.Value]*Term, len(fr.env)), visits: make(map[*ssa.BasicBlock]int, len(fr.visits)),
		lastPhi: make(map[*ssa.Phi]*Term, len(fr.lastPhi))}
	for k, v := range fr.env {
		n.env[k] = v
	}
	for k, v := range fr.visits {
		n.visits[k] = v
	}
	for k, v := range fr.lastPhi {
		n.lastPhi[k] = v
	}
	n.defers = append([]deferred{}, fr.defers...)
	if fr.trip != nil {
		n.trip = make(map[*ssa.BasicBlock]int64, len(fr.trip))
		for k, v := range fr.trip {
			n.trip[k] = v
		}
	}
	return n
}

type SimConfig struct {
	// Inline decides whether a statically resolved callee with a body is
	// simulated in place. depth is the depth of the calling frame (0 = root).
	Inline func(callee *ssa.Function, depth int) bool
	// Pure marks callees whose result depends on the arguments only.
	Pure     func(name string) bool
	MaxPaths int
	IntBits  int
	// Init lets the rule seed the initial heap / facts.
	Init func(s *Sim, st *State, params []*Term)
	// KeepHeap: do not let unknown calls havoc anything (used by rules that
	// only look at values, not at heap state).
	NoHavoc bool
	// NoWiden: loop-carried values keep their concrete terms on the last visit of a
	// loop header (paths needing more iterations are cut instead of continuing with
	// widened values).
	NoWiden bool
	// DerefEvents: record every field access through a pointer loaded from memory.
	DerefEvents bool
	// IndexEvents: record every run-time-checked index into a slice or string as an event.
	IndexEvents bool
	// ArrayIndexEvents: also record indexes into arrays whose index is not a constant.
	ArrayIndexEvents bool
	// SliceEvents: record slice expressions with a non-constant bound (x[a:b]) as "slicebounds" events.
	SliceEvents bool
	// MaxSteps bounds the total number of instructions simulated (default 20 million).
	MaxSteps int
	// MaxVisits: how often a block may be entered per activation (default 3:
	// two concrete loop iterations, then one with widened loop variables).
	MaxVisits int
	// PanicAtDyncall adds, for every call through a function value (handlers
	// such as c.Next()), the path on which that call panics: the deferred
	// calls registered so far run and the function exits abnormally.
	PanicAtDyncall bool
}

type Sim struct {
	P        *Program
	Cfg      SimConfig
	Steps    int
	Paths    int
	Pruned   int
	LoopCuts int
	Overflow bool
	onPath   func(*PathResult)
}

type cont func(st *State, results []*Term, exit string)

func defaultPure(name string) bool {
	for _, p := range []string{"strings.", "strconv.", "path.", "unicode.", "bytes.Equal", "bytes.Contains",
		"(*regexp.Regexp).MatchString", "(*regexp.Regexp).String", "(*regexp.Regexp).FindStringSubmatch"} {
		if strings.HasPrefix(name, p) {
			return true
		}
	}
	return false
}

// Run enumerates the paths of fn. Parameters (and free variables) are symbols
// named after them.
// simulated records every function whose paths some rule enumerated in this run
// (as a root or in place); `pikelint -coverage` lists the functions no path rule looked at.
var simulated = map[*ssa.Function]bool{}

func (p *Program) Simulate(fn *ssa.Function, cfg SimConfig, onPath func(*PathResult)) *Sim {
	if cfg.MaxPaths == 0 {
		cfg.MaxPaths = 1 << 18
	}
	if cfg.IntBits == 0 {
		cfg.IntBits = p.IntBits
	}
	if cfg.Pure == nil {
		cfg.Pure = defaultPure
	}
	if cfg.Inline == nil {
		cfg.Inline = inlineHelpersOf(fn)
	}
	if cfg.MaxSteps == 0 {
		cfg.MaxSteps = 20_000_000
	}
	simulated[fn] = true
	p.constAggregate(nil) // make the constant tables of this program current
	s := &Sim{P: p, Cfg: cfg, onPath: onPath}
	st := &State{heap: map[string]*Term{}, heapLoc: map[string]*Term{}, epoch: map[string]int{}, fresh: map[string]bool{},
		facts: newFacts(cfg.IntBits), counter: map[string]int{}}
	args := []*Term{}
	for _, prm := range fn.Params {
		args = append(args, &Term{Op: "sym", Name: "p:" + prm.Name(), Type: prm.Type()})
	}
	fvs := []*Term{}
	for _, fv := range fn.FreeVars {
		fvs = append(fvs, &Term{Op: "sym", Name: "fv:" + fv.Name(), Type: fv.Type()})
	}
	if cfg.Init != nil {
		cfg.Init(s, st, args)
	}
	s.simFunc(fn, args, fvs, st, 0, func(st *State, results []*Term, exit string) {
		s.Paths++
		if s.Paths > s.Cfg.MaxPaths {
			s.Overflow = true
			return
		}
		if onPath != nil {
			onPath(&PathResult{Events: st.events, Conds: st.conds, Results: results, Exit: exit, Facts: st.facts, State: st})
		}
	})
	return s
}

func (s *Sim) simFunc(fn *ssa.Function, args, fvs []*Term, st *State, depth int, k cont) {
	if s.Overflow {
		return
	}
	if fn.Blocks == nil {
		k(st, nil, "return")
		return
	}
	st.counter["frame:"+fn.String()]++
	fr := &Frame{fn: fn, env: map[ssa.Value]*Term{}, visits: map[*ssa.BasicBlock]int{}, lastPhi: map[*ssa.Phi]*Term{}, depth: depth,
		id: fmt.Sprintf("%s@%d", fn.Name(), st.counter["frame:"+fn.String()])}
	for i, prm := range fn.Params {
		if i < len(args) {
			fr.env[prm] = args[i]
		}
	}
	for i, fv := range fn.FreeVars {
		if i < len(fvs) {
			fr.env[fv] = fvs[i]
		}
	}
	s.enterBlock(fr, st, fn.Blocks[0], nil, k)
}

func (s *Sim) enterBlock(fr *Frame, st *State, b, pred *ssa.BasicBlock, k cont) {
	if s.Overflow {
		return
	}
	fr.visits[b]++
	v := fr.visits[b]
	maxV := s.Cfg.MaxVisits
	if maxV == 0 {
		maxV = defaultMaxVisits
	}
	if n := loopTrip(b); n+1 > int64(maxV) {
		maxV = int(n + 1) // a loop with a small constant trip count is followed to its end
	}
	if isLoopHeader(b) && fr.visits[b] == 1 {
		// a counting loop whose bound is not a syntactic constant but evaluates to one here
		if n, ok := s.dynamicTrip(fr, st, b); ok {
			if fr.trip == nil {
				fr.trip = map[*ssa.BasicBlock]int64{}
			}
			for x := range naturalLoop(b) {
				if n > fr.trip[x] {
					fr.trip[x] = n
				}
			}
		}
	}
	if n := fr.trip[b]; n+1 > int64(maxV) {
		maxV = int(n + 1)
	}
	dynBounded := fr.trip[b] > 0
	if v > maxV {
		s.LoopCuts++
		return
	}
	// phis
	if pred != nil {
		idx := -1
		for i, p := range b.Preds {
			if p == pred {
				idx = i
				break
			}
		}
		vals := map[*ssa.Phi]*Term{}
		for _, in := range b.Instrs {
			phi, ok := in.(*ssa.Phi)
			if !ok {
				break
			}
			t := s.val(fr, st, phi.Edges[idx])
			if v >= maxV && isLoopHeader(b) && !staticallyBounded(b) && !dynBounded && !s.Cfg.NoWiden {
				if last, ok := fr.lastPhi[phi]; ok && last.Key() != t.Key() {
					// widen loop-carried values on the second visit
					st.counter["widen"]++
					t = &Term{Op: "sym", Name: fmt.Sprintf("widen:%s#%d", phi.Name(), st.counter["widen"]), Type: phi.Type()}
				}
			}
			vals[phi] = t
		}
		for phi, t := range vals {
			fr.env[phi] = t
			fr.lastPhi[phi] = t
		}
	}
	s.simInstrs(fr, st, b, 0, k)
}

// isLoopHeader: b has an incoming back edge (a predecessor it dominates).
func isLoopHeader(b *ssa.BasicBlock) bool {
	for _, p := range b.Preds {
		if b.Dominates(p) {
			return true
		}
	}
	return false
}

// staticallyBounded: the loop at header b runs a small constant number of times
// (index < constant, or index < len of a fixed-size array literal); its iterations
// are followed concretely instead of being widened.
func staticallyBounded(b *ssa.BasicBlock) bool {
	_, ok := headerTrip(b)
	return ok
}

// defaultMaxVisits: how often a block may be entered per activation when a rule
// does not say (3 = loop bodies seen twice; the thorough tier uses 4).
var defaultMaxVisits = 3

// maxTrip is the largest constant trip count that is unrolled.
const maxTrip = 16

// headerTrip: b is the header of a counting loop `i < N` with N a small constant
// or the length of a fixed-size array.
func headerTrip(b *ssa.BasicBlock) (int64, bool) {
	if len(b.Instrs) == 0 {
		return 0, false
	}
	iff, ok := b.Instrs[len(b.Instrs)-1].(*ssa.If)
	if !ok {
		return 0, false
	}
	bo, ok := iff.Cond.(*ssa.BinOp)
	if !ok || bo.Op != token.LSS {
		return 0, false
	}
	// the counter: a phi of this block advanced by one per iteration from a constant
	ph, ok := bo.X.(*ssa.Phi)
	rangeForm := false
	if !ok {
		// range loop: the header compares phi+1 (phi starts at -1)
		if inc, isInc := bo.X.(*ssa.BinOp); isInc && inc.Op == token.ADD {
			if c, isC := inc.Y.(*ssa.Const); isC && c.Value != nil && c.Int64() == 1 {
				ph, ok = inc.X.(*ssa.Phi)
				rangeForm = true
			}
		}
	}
	if !ok || ph.Block() != b {
		return 0, false
	}
	start := int64(-1 << 62)
	stepOK := false
	for _, e := range ph.Edges {
		switch x := e.(type) {
		case *ssa.Const:
			if x.Value != nil {
				start = x.Int64()
			}
		case *ssa.BinOp:
			if c, ok := x.Y.(*ssa.Const); ok && x.Op == token.ADD && x.X == ph && c.Value != nil && c.Int64() == 1 {
				stepOK = true
			}
		}
	}
	if rangeForm {
		// the back edge carries the incremented value itself
		for _, e := range ph.Edges {
			if e == bo.X {
				stepOK = true
			}
		}
		if start != -1 {
			return 0, false
		}
		start = 0
	}
	if !stepOK || start < 0 || start > 0 {
		return 0, false
	}
	n := int64(-1)
	if c, ok := bo.Y.(*ssa.Const); ok && c.Value != nil {
		n = c.Int64()
	}
	if call, ok := bo.Y.(*ssa.Call); ok {
		if bi, ok := call.Call.Value.(*ssa.Builtin); ok && bi.Name() == "len" {
			if m, ok := fixedLen(call.Call.Args[0]); ok {
				n = m
			}
		}
	}
	n -= start
	if n < 0 || n > maxTrip {
		return 0, false
	}
	return n, true
}

// counterLoop: b's terminator compares a counter (a phi of b stepping by one from
// 0, or the range form stepping from -1) with a bound; returns the bound value.
func counterLoop(b *ssa.BasicBlock) (ssa.Value, bool) {
	if len(b.Instrs) == 0 {
		return nil, false
	}
	iff, ok := b.Instrs[len(b.Instrs)-1].(*ssa.If)
	if !ok {
		return nil, false
	}
	bo, ok := iff.Cond.(*ssa.BinOp)
	if !ok || bo.Op != token.LSS {
		return nil, false
	}
	ph, isPhi := bo.X.(*ssa.Phi)
	start := int64(0)
	if !isPhi {
		inc, isInc := bo.X.(*ssa.BinOp)
		if !isInc || inc.Op != token.ADD {
			return nil, false
		}
		if c, isC := inc.Y.(*ssa.Const); !isC || c.Value == nil || c.Int64() != 1 {
			return nil, false
		}
		ph, isPhi = inc.X.(*ssa.Phi)
		start = -1
	}
	if !isPhi || ph.Block() != b {
		return nil, false
	}
	okStart, okStep := false, false
	for _, e := range ph.Edges {
		switch x := e.(type) {
		case *ssa.Const:
			if x.Value != nil && x.Int64() == start {
				okStart = true
			}
		case *ssa.BinOp:
			if c, ok := x.Y.(*ssa.Const); ok && x.Op == token.ADD && x.X == ph && c.Value != nil && c.Int64() == 1 {
				okStep = true
			}
		}
	}
	if !okStart || !okStep {
		return nil, false
	}
	return bo.Y, true
}

// dynamicTrip: the bound of the counting loop at b evaluates to a small constant
// in the current state (the length of a constant table handed in as an argument,
// of a slice built by a known number of appends, …).
func (s *Sim) dynamicTrip(fr *Frame, st *State, b *ssa.BasicBlock) (int64, bool) {
	bound, ok := counterLoop(b)
	if !ok {
		return 0, false
	}
	if _, known := fr.env[bound]; !known {
		if _, isC := bound.(*ssa.Const); !isC {
			return 0, false
		}
	}
	n, ok := s.val(fr, st, bound).IntVal()
	if !ok || n < 1 || n > maxTrip {
		return 0, false
	}
	return n, true
}

var naturalLoopMemo = map[*ssa.BasicBlock]map[*ssa.BasicBlock]bool{}

// naturalLoop: the blocks of the loop headed by h.
func naturalLoop(h *ssa.BasicBlock) map[*ssa.BasicBlock]bool {
	if m, ok := naturalLoopMemo[h]; ok {
		return m
	}
	body := map[*ssa.BasicBlock]bool{h: true}
	var work []*ssa.BasicBlock
	for _, p := range h.Preds {
		if h.Dominates(p) && !body[p] {
			body[p] = true
			work = append(work, p)
		}
	}
	for len(work) > 0 {
		x := work[len(work)-1]
		work = work[:len(work)-1]
		for _, p := range x.Preds {
			if !body[p] {
				body[p] = true
				work = append(work, p)
			}
		}
	}
	naturalLoopMemo[h] = body
	return body
}

var loopTripMemo = map[*ssa.BasicBlock]int64{}

// loopTrip: the largest constant trip count of a statically bounded loop that
// block b belongs to (0 if none).
func loopTrip(b *ssa.BasicBlock) int64 {
	if n, ok := loopTripMemo[b]; ok {
		return n
	}
	fn := b.Parent()
	for _, x := range fn.Blocks {
		loopTripMemo[x] = 0
	}
	for _, h := range fn.Blocks {
		n, ok := headerTrip(h)
		if !ok || !isLoopHeader(h) {
			continue
		}
		// natural loop of h: blocks that reach a back edge of h without leaving through h
		body := map[*ssa.BasicBlock]bool{h: true}
		var work []*ssa.BasicBlock
		for _, p := range h.Preds {
			if h.Dominates(p) && !body[p] {
				body[p] = true
				work = append(work, p)
			}
		}
		for len(work) > 0 {
			x := work[len(work)-1]
			work = work[:len(work)-1]
			for _, p := range x.Preds {
				if !body[p] {
					body[p] = true
					work = append(work, p)
				}
			}
		}
		for x := range body {
			if n > loopTripMemo[x] {
				loopTripMemo[x] = n
			}
		}
	}
	return loopTripMemo[b]
}

// fixedLen: v is a full slice of a fixed-size array allocated in this function.
func fixedLen(v ssa.Value) (int64, bool) {
	if ld, ok := v.(*ssa.UnOp); ok && ld.Op == token.MUL {
		if g, ok := ld.X.(*ssa.Global); ok && constAggFor != nil {
			if ca := constAggFor.constAggregate(g.Object()); ca != nil && !ca.array && !ca.isMap {
				return int64(len(ca.elems)), true
			}
		}
	}
	sl, ok := v.(*ssa.Slice)
	if !ok || sl.Low != nil || sl.High != nil {
		return 0, false
	}
	pt, ok := sl.X.Type().Underlying().(*types.Pointer)
	if !ok {
		return 0, false
	}
	at, ok := pt.Elem().Underlying().(*types.Array)
	if !ok {
		return 0, false
	}
	return at.Len(), true
}

func (s *Sim) uid(st *State, fr *Frame, in ssa.Instruction) string {
	b := in.Block()
	idx := 0
	for i, x := range b.Instrs {
		if x == in {
			idx = i
			break
		}
	}
	site := fmt.Sprintf("%s.%d.%d", fr.fn.String(), b.Index, idx)
	st.counter[site]++
	return fmt.Sprintf("%s.%d.%d#%d", shortFn(fr.fn), b.Index, idx, st.counter[site])
}

func shortFn(f *ssa.Function) string {
	return funcName(f)
}

func (s *Sim) val(fr *Frame, st *State, v ssa.Value) *Term {
	switch x := v.(type) {
	case *ssa.Const:
		if x.Value == nil {
			return zeroTerm(x.Type())
		}
		return constTerm(x.Value, x.Type())
	case *ssa.Global:
		return &Term{Op: "global", Name: x.Pkg.Pkg.Path() + "." + x.Name(), Type: x.Type(), Obj: x.Object()}
	case *ssa.Function:
		return &Term{Op: "func", Name: funcName(x), Fn: x, Type: x.Type()}
	case *ssa.Builtin:
		return &Term{Op: "builtinfn", Name: x.Name(), Type: x.Type()}
	}
	if t, ok := fr.env[v]; ok {
		return t
	}
	// value from an enclosing frame not bound (should not happen) or an
	// instruction not yet executed on this path (dead phi edge)
	return &Term{Op: "sym", Name: "unbound:" + v.Name() + "@" + fr.fn.Name(), Type: v.Type()}
}

// ---------------------------------------------------------------- heap

func (s *Sim) rootFresh(st *State, loc *Term) bool {
	for t := loc; t != nil; {
		if t.Op == "alloc" {
			return st.fresh[t.Key()]
		}
		if (t.Op == "fa" || t.Op == "ia") && len(t.Args) > 0 {
			t = t.Args[0]
			continue
		}
		return false
	}
	return false
}

func (s *Sim) locEpoch(st *State, loc *Term) int {
	n := 0
	for t := loc; t != nil; {
		n += st.epoch[t.Key()]
		if t.Op == "fa" && t.Obj != nil {
			n += st.epoch[fmt.Sprintf("f:%p", t.Obj)]
		}
		if t.Op == "global" && t.Obj != nil {
			n += st.epoch[fmt.Sprintf("g:%p", t.Obj)]
		}
		if (t.Op == "fa" || t.Op == "ia") && len(t.Args) > 0 {
			t = t.Args[0]
			continue
		}
		break
	}
	if !s.rootFresh(st, loc) {
		n += st.epoch["*world*"]
		for k, v := range st.epoch {
			if strings.HasPrefix(k, "*world:") {
				for _, p := range cellPkgs(loc) {
					if q := s.P.TypePkgs[k[len("*world:"):]]; q == nil || pkgSees(q, p) {
						n += v
						break
					}
				}
			}
		}
	}
	return n
}

func boolInt(b bool) int {
	if b {
		return 1
	}
	return 0
}

func (s *Sim) load(st *State, addr *Term, typ types.Type) *Term {
	key := addr.Key()
	if v, ok := st.heap[key]; ok {
		return v
	}
	var v *Term
	// a field of a location into which a whole struct value was stored
	if addr.Op == "fa" && len(addr.Args) == 1 {
		if whole, ok := st.heap[addr.Args[0].Key()]; ok && whole.Op != "zero" {
			if whole.Op == "structval" && len(whole.Args) == 1 && whole.Args[0].Key() != addr.Args[0].Key() {
				// the struct was copied from another location: read that location's field
				return s.load(st, &Term{Op: "fa", Name: addr.Name, Obj: addr.Obj, Type: addr.Type, Args: []*Term{whole.Args[0]}}, typ)
			}
			return &Term{Op: "fld", Name: addr.Name, Obj: addr.Obj, Type: typ, Args: []*Term{whole}}
		}
	}
	// an element of an array that was assigned as a whole
	if addr.Op == "ia" && len(addr.Args) == 2 {
		if whole, ok := st.heap[addr.Args[0].Key()]; ok && whole.Op == "arrayval" {
			if i, ok := addr.Args[1].IntVal(); ok && i >= 0 && i < int64(len(whole.Args)) {
				return whole.Args[i]
			}
		}
	}
	// a small array read as a whole: a snapshot of its cells
	if at, ok := typ.Underlying().(*types.Array); ok && at.Len() <= maxTrip && addr.Op != "ia" {
		snap := &Term{Op: "arrayval", Type: typ}
		for i := int64(0); i < at.Len(); i++ {
			snap.Args = append(snap.Args, s.load(st, &Term{Op: "ia", Type: types.NewPointer(at.Elem()), Args: []*Term{addr, intTerm(i)}}, at.Elem()))
		}
		return snap
	}
	if t := s.constTableLoad(st, addr, typ); t != nil {
		st.heap[key] = t
		st.heapLoc[key] = addr
		return t
	}
	if s.rootFresh(st, addr) {
		v = zeroTerm(typ)
	} else {
		name := ""
		if e := s.locEpoch(st, addr); e > 0 {
			name = fmt.Sprintf("e%d", e)
		}
		v = &Term{Op: "init", Name: name, Args: []*Term{addr}, Type: typ}
		if addr.Op == "global" && s.P.neverNilGlobal(addr.Obj) {
			st.facts.Assume(eqTerm(v, nilTerm(typ)), false)
		}
	}
	st.heap[key] = v
	st.heapLoc[key] = addr
	return v
}

// constTableLoad resolves a read of a constant package-level table (see
// constAggregate): the slice header of a slice table, or one element of an array
// table at a constant index.
func (s *Sim) constTableLoad(st *State, addr *Term, typ types.Type) *Term {
	elem := func(v ssa.Value) *Term {
		switch x := v.(type) {
		case *ssa.Const:
			return s.val(nil, st, x)
		case *ssa.UnOp:
			g := x.X.(*ssa.Global)
			return s.load(st, s.val(nil, st, g), x.Type())
		}
		return nil
	}
	switch {
	case addr.Op == "global":
		ca := s.P.constAggregate(addr.Obj)
		if ca == nil || ca.array || ca.isMap {
			return nil
		}
		backing := &Term{Op: "alloc", Name: "table:" + addr.Name, Type: typ}
		for i, e := range ca.elems {
			cell := &Term{Op: "ia", Args: []*Term{backing, intTerm(int64(i))}}
			if _, ok := st.heap[cell.Key()]; !ok {
				st.heap[cell.Key()] = elem(e)
				st.heapLoc[cell.Key()] = cell
			}
		}
		tableLen[backing.Key()] = int64(len(ca.elems))
		none := &Term{Op: "none"}
		return &Term{Op: "slice", Type: typ, Args: []*Term{backing, none, none, none}}
	case addr.Op == "ia" && len(addr.Args) == 2 && addr.Args[0].Op == "global":
		ca := s.P.constAggregate(addr.Args[0].Obj)
		if ca == nil || !ca.array {
			return nil
		}
		if i, ok := addr.Args[1].IntVal(); ok && i >= 0 && i < int64(len(ca.elems)) {
			return elem(ca.elems[i])
		}
	}
	return nil
}

// tableLen: length of the backing array of each constant slice table seen.
var tableLen = map[string]int64{}

func (s *Sim) store(st *State, addr, val *Term) {
	key := addr.Key()
	if addr.Op == "ia" && len(addr.Args) == 2 {
		// an element written after the array was assigned as a whole
		if whole, ok := st.heap[addr.Args[0].Key()]; ok && whole.Op == "arrayval" {
			if i, ok := addr.Args[1].IntVal(); ok && i >= 0 && i < int64(len(whole.Args)) && val != nil {
				nw := &Term{Op: "arrayval", Type: whole.Type, Args: append([]*Term{}, whole.Args...)}
				nw.Args[i] = val
				st.heap[addr.Args[0].Key()] = nw
			} else {
				delete(st.heap, addr.Args[0].Key())
			}
		}
	}
	if val != nil && val.Op == "arrayval" {
		// a whole array assigned: its cells are the snapshot's from now on
		for i := range val.Args {
			delete(st.heap, (&Term{Op: "ia", Args: []*Term{addr, intTerm(int64(i))}}).Key())
		}
	}
	st.heap[key] = val
	st.heapLoc[key] = addr
	// storing a whole struct: drop sub-cells
	for k, loc := range st.heapLoc {
		if k != key && under(loc, key) {
			delete(st.heap, k)
			delete(st.heapLoc, k)
		}
	}
}

func under(loc *Term, baseKey string) bool {
	for t := loc; t != nil; {
		if t.Key() == baseKey {
			return true
		}
		if (t.Op == "fa" || t.Op == "ia") && len(t.Args) > 0 {
			t = t.Args[0]
			continue
		}
		return false
	}
	return false
}

// havoc forgets everything known about cells reachable under base.
func (s *Sim) havoc(st *State, base *Term) {
	if s.Cfg.NoHavoc || base == nil {
		return
	}
	bk := base.Key()
	for k, loc := range st.heapLoc {
		if under(loc, bk) {
			delete(st.heap, k)
			delete(st.heapLoc, k)
		}
	}
	st.epoch[bk]++
	if base.Op == "alloc" {
		st.fresh[bk] = false
	}
}

func (s *Sim) havocWorld(st *State) {
	s.havocWorldFrom(st, nil)
}

// cellPkg: the package that declares the innermost field of a cell.
func cellPkgs(loc *Term) []*types.Package {
	out := []*types.Package{}
	for t := loc; t != nil; {
		if t.Op == "fa" && t.Obj != nil && t.Obj.Pkg() != nil {
			out = append(out, t.Obj.Pkg())
		}
		if t.Op == "global" && t.Obj != nil && t.Obj.Pkg() != nil {
			out = append(out, t.Obj.Pkg())
		}
		if (t.Op == "fa" || t.Op == "ia") && len(t.Args) > 0 {
			t = t.Args[0]
			continue
		}
		break
	}
	return out
}

var importsMemo = map[[2]*types.Package]bool{}

// pkgSees: code of package q can name (and hence write) fields declared in p
// only if q is p or imports it, directly or transitively.
func pkgSees(q, p *types.Package) bool {
	if q == nil || p == nil || q == p {
		return true
	}
	k := [2]*types.Package{q, p}
	if v, ok := importsMemo[k]; ok {
		return v
	}
	importsMemo[k] = false
	res := false
	for _, im := range q.Imports() {
		if im == p || pkgSees(im, p) {
			res = true
			break
		}
	}
	importsMemo[k] = res
	return res
}

// havocWorldFrom forgets every non-fresh cell that code of package `from` could
// write (from == nil: unknown code, everything).
func (s *Sim) havocWorldFrom(st *State, from *types.Package) {
	if s.Cfg.NoHavoc {
		return
	}
	n := 0
	for k, loc := range st.heapLoc {
		if s.rootFresh(st, loc) {
			continue
		}
		if from != nil {
			pk := cellPkgs(loc)
			visible := len(pk) == 0
			for _, p := range pk {
				if pkgSees(from, p) {
					visible = true
				}
			}
			if !visible {
				continue
			}
		}
		delete(st.heap, k)
		delete(st.heapLoc, k)
		n++
	}
	if from == nil {
		st.epoch["*world*"]++
	} else {
		st.epoch["*world:"+from.Path()]++
	}
}

func isPointerLike(t types.Type) bool {
	if t == nil {
		return false
	}
	switch t.Underlying().(type) {
	case *types.Pointer, *types.Map, *types.Slice, *types.Interface, *types.Signature, *types.Chan:
		return true
	}
	return false
}

// applyMods forgets the cells a callee with summary ms may write; args are the
// actual arguments (receiver first) used to resolve parameter-rooted writes.
func (s *Sim) applyMods(st *State, ms *modSummary, args []*Term, from *types.Package) {
	if s.Cfg.NoHavoc || ms == nil {
		return
	}
	if ms.unknown {
		s.havocWorldFrom(st, from)
		if from == nil {
			return
		}
	}
	if len(ms.fields) == 0 && len(ms.globals) == 0 {
		return
	}
	touched := func(loc *Term) bool {
		for t := loc; t != nil; {
			if t.Op == "fa" {
				if v, ok := t.Obj.(*types.Var); ok {
					if mask := ms.fields[v]; mask != 0 {
						if mask&otherBase != 0 || args == nil {
							return true
						}
						for j := 0; j < 63 && j < len(args); j++ {
							if mask&(1<<uint(j)) != 0 && args[j].strip().Key() == t.Args[0].Key() {
								return true
							}
						}
					}
				}
			}
			if t.Op == "global" {
				for g := range ms.globals {
					if g.Object() == t.Obj {
						return true
					}
				}
			}
			if (t.Op == "fa" || t.Op == "ia") && len(t.Args) > 0 {
				t = t.Args[0]
				continue
			}
			break
		}
		return false
	}
	for k, loc := range st.heapLoc {
		if touched(loc) {
			delete(st.heap, k)
			delete(st.heapLoc, k)
		}
	}
	for f, mask := range ms.fields {
		if mask&otherBase != 0 || args == nil {
			st.epoch[fmt.Sprintf("f:%p", f)]++
			continue
		}
		for j := 0; j < 63 && j < len(args); j++ {
			if mask&(1<<uint(j)) != 0 {
				st.epoch[args[j].strip().Key()]++
			}
		}
	}
	for g := range ms.globals {
		st.epoch[fmt.Sprintf("g:%p", g.Object())]++
	}
}

func fnPkg(f *ssa.Function) *types.Package {
	for f != nil {
		if f.Pkg != nil {
			return f.Pkg.Pkg
		}
		f = f.Parent()
	}
	return nil
}

// closureWritesFreeVar: the function literal may store through its i-th captured
// variable (directly, or by letting its address escape).
func closureWritesFreeVar(fn *ssa.Function, i int) bool {
	if fn == nil || i >= len(fn.FreeVars) {
		return true
	}
	fv := fn.FreeVars[i]
	refs := fv.Referrers()
	if refs == nil {
		return false
	}
	for _, r := range *refs {
		switch x := r.(type) {
		case *ssa.UnOp:
			// load
		case *ssa.Store:
			if x.Addr == fv {
				return true
			}
		default:
			return true
		}
	}
	return false
}

func isLockAcquire(name string) bool {
	switch name {
	case "(*sync.RWMutex).Lock", "(*sync.RWMutex).RLock", "(*sync.Mutex).Lock":
		return true
	}
	return false
}

// effects of a call that is not simulated.
func (s *Sim) callEffects(st *State, ev *Event) {
	if s.Cfg.NoHavoc {
		return
	}
	for _, a := range ev.Args {
		a = a.strip()
		switch a.Op {
		case "alloc", "fa", "ia", "global":
			s.havoc(st, a)
		case "closure":
			// the callee may run the closure: captured variables it may write are forgotten
			for i, b := range a.Args {
				if b.Op == "alloc" && closureWritesFreeVar(a.Fn, i) {
					s.havoc(st, b)
				}
			}
			s.applyMods(st, s.P.mods(a.Fn), nil, fnPkg(a.Fn))
		case "func":
			s.applyMods(st, s.P.mods(a.Fn), nil, fnPkg(a.Fn))
		}
	}
	switch {
	case ev.Kind == "dyncall":
		s.havocWorld(st)
	case ev.Kind == "invoke" && ev.Method != nil:
		for _, impl := range s.P.implsOf(ev.Method) {
			s.applyMods(st, s.P.mods(impl), ev.Args, fnPkg(impl))
		}
	case ev.Callee != nil && ev.Callee.Blocks != nil && isPikeFunc(ev.Callee):
		s.applyMods(st, s.P.mods(ev.Callee), ev.Args, fnPkg(ev.Callee))
	}
}

// ---------------------------------------------------------- instructions

func (s *Sim) emit(st *State, fr *Frame, e *Event) *Event {
	e.Fn = fr.fn
	e.Depth = fr.depth
	e.NConds = len(st.conds)
	e.InDefer = st.inDefer > 0
	st.events = append(st.events, e)
	return e
}

func (s *Sim) simInstrs(fr *Frame, st *State, b *ssa.BasicBlock, from int, k cont) {
	for i := from; i < len(b.Instrs); i++ {
		s.Steps++
		if s.Steps > s.Cfg.MaxSteps {
			s.Overflow = true
		}
		if s.Overflow {
			return
		}
		in := b.Instrs[i]
		switch x := in.(type) {
		case *ssa.Phi:
			// handled on block entry
		case *ssa.DebugRef:
		case *ssa.Alloc:
			t := &Term{Op: "alloc", Name: s.uid(st, fr, x), Type: x.Type()}
			st.fresh[t.Key()] = true
			fr.env[x] = t
		case *ssa.FieldAddr:
			base := s.val(fr, st, x.X)
			fld := fieldOf(x.X.Type(), x.Field)
			fr.env[x] = &Term{Op: "fa", Name: fld.Name(), Obj: fld, Type: x.Type(), Args: []*Term{base}}
			if s.Cfg.DerefEvents && base.Op == "init" {
				// a field reached through a pointer that was itself loaded from memory
				s.emit(st, fr, &Event{Kind: "deref", Instr: x, Args: []*Term{base}})
			}
		case *ssa.Field:
			base := s.val(fr, st, x.X)
			fld := fieldOf(x.X.Type(), x.Field)
			if base.Op == "structval" && len(base.Args) == 1 {
				// a struct loaded from an address: read the cell
				fr.env[x] = s.load(st, &Term{Op: "fa", Name: fld.Name(), Obj: fld, Type: types.NewPointer(fld.Type()), Args: []*Term{base.Args[0]}}, fld.Type())
			} else {
				fr.env[x] = &Term{Op: "fld", Name: fld.Name(), Obj: fld, Type: x.Type(), Args: []*Term{base}}
			}
		case *ssa.IndexAddr:
			iaBase, iaIdx := sliceBase(s.val(fr, st, x.X)), s.val(fr, st, x.Index)
			if iv, ok := iaIdx.IntVal(); ok && iaBase.Op == "append" {
				// element of a slice built by appends on this path: the cell it was appended from
				if cell := appendElem(iaBase, iv); cell != nil {
					iaBase, iaIdx = cell.Args[0], cell.Args[1]
				}
			}
			fr.env[x] = &Term{Op: "ia", Type: x.Type(), Args: []*Term{iaBase, iaIdx}}
			if _, isSlice := x.X.Type().Underlying().(*types.Slice); isSlice && s.Cfg.IndexEvents {
				s.emit(st, fr, &Event{Kind: "index", Instr: x, Args: []*Term{s.val(fr, st, x.X), s.val(fr, st, x.Index)}})
			} else if _, isConst := x.Index.(*ssa.Const); !isSlice && !isConst && s.Cfg.ArrayIndexEvents {
				s.emit(st, fr, &Event{Kind: "index", Instr: x, Args: []*Term{s.val(fr, st, x.X), s.val(fr, st, x.Index)}})
			}
		case *ssa.Index:
			base, idx := s.val(fr, st, x.X), s.val(fr, st, x.Index)
			if isStringType(x.X.Type()) && s.Cfg.IndexEvents {
				s.emit(st, fr, &Event{Kind: "index", Instr: x, Args: []*Term{base, idx}})
			} else if _, isConst := x.Index.(*ssa.Const); !isStringType(x.X.Type()) && !isConst && s.Cfg.ArrayIndexEvents {
				s.emit(st, fr, &Event{Kind: "index", Instr: x, Args: []*Term{base, idx}})
			}
			if i, ok := idx.IntVal(); ok && base.Op == "arrayval" && i >= 0 && i < int64(len(base.Args)) {
				fr.env[x] = base.Args[i]
			} else {
				fr.env[x] = &Term{Op: "idx", Type: x.Type(), Args: []*Term{base, idx}}
			}
		case *ssa.Lookup:
			mt, kt := s.val(fr, st, x.X), s.val(fr, st, x.Index)
			// a lookup in a constant package-level map is a case split over its keys
			if mt.Op == "init" && len(mt.Args) == 1 && mt.Args[0].Op == "global" {
				if ca := s.P.constAggregate(mt.Args[0].Obj); ca != nil && ca.isMap {
					s.lookupSplit(fr, st, b, i, k, x, ca, kt)
					return
				}
			}
			t := &Term{Op: "lookup", Type: x.Type(), Args: []*Term{mt, kt}}
			if x.CommaOk {
				t.Name = s.uid(st, fr, x)
			}
			fr.env[x] = t
		case *ssa.UnOp:
			s.unop(fr, st, x)
		case *ssa.BinOp:
			fr.env[x] = binTerm(x.Op, s.val(fr, st, x.X), s.val(fr, st, x.Y), x.Type())
		case *ssa.ChangeType:
			fr.env[x] = s.val(fr, st, x.X)
		case *ssa.ChangeInterface:
			fr.env[x] = s.val(fr, st, x.X)
		case *ssa.MakeInterface:
			fr.env[x] = &Term{Op: "mkiface", Type: x.Type(), Args: []*Term{s.val(fr, st, x.X)}}
		case *ssa.SliceToArrayPointer:
			fr.env[x] = s.val(fr, st, x.X)
		case *ssa.Convert:
			fr.env[x] = s.convert(s.val(fr, st, x.X), x.Type())
		case *ssa.Extract:
			tup := s.val(fr, st, x.Tuple)
			if tup.Op == "tuple" && x.Index < len(tup.Args) {
				fr.env[x] = tup.Args[x.Index]
			} else {
				fr.env[x] = &Term{Op: "ext", Name: fmt.Sprint(x.Index), Type: x.Type(), Args: []*Term{tup}}
			}
		case *ssa.MakeClosure:
			fn := x.Fn.(*ssa.Function)
			bs := []*Term{}
			for _, bnd := range x.Bindings {
				bs = append(bs, s.val(fr, st, bnd))
			}
			fr.env[x] = &Term{Op: "closure", Name: funcName(fn), Fn: fn, Type: x.Type(), Args: bs}
		case *ssa.MakeChan:
			fr.env[x] = &Term{Op: "make", Name: "chan:" + s.uid(st, fr, x), Type: x.Type(), Args: []*Term{s.val(fr, st, x.Size)}}
		case *ssa.MakeSlice:
			fr.env[x] = &Term{Op: "make", Name: "slice:" + s.uid(st, fr, x), Type: x.Type(), Args: []*Term{s.val(fr, st, x.Len), s.val(fr, st, x.Cap)}}
		case *ssa.MakeMap:
			fr.env[x] = &Term{Op: "make", Name: "map:" + s.uid(st, fr, x), Type: x.Type()}
		case *ssa.Slice:
			args := []*Term{s.val(fr, st, x.X)}
			for _, v := range []ssa.Value{x.Low, x.High, x.Max} {
				if v == nil {
					args = append(args, &Term{Op: "none"})
				} else {
					args = append(args, s.val(fr, st, v))
				}
			}
			fr.env[x] = &Term{Op: "slice", Type: x.Type(), Args: args}
			if s.Cfg.SliceEvents {
				_, lowConst := x.Low.(*ssa.Const)
				_, highConst := x.High.(*ssa.Const)
				_, onSlice := x.X.Type().Underlying().(*types.Slice)
				highPos := false
				if hc, ok := x.High.(*ssa.Const); ok && hc.Value != nil && hc.Int64() > 0 {
					highPos = onSlice || isStringType(x.X.Type())
				}
				if (x.Low != nil && !lowConst) || (x.High != nil && !highConst) || highPos {
					s.emit(st, fr, &Event{Kind: "slicebounds", Instr: x, Args: args})
				}
			}
		case *ssa.TypeAssert:
			v := s.val(fr, st, x.X)
			t := &Term{Op: "ta", Type: x.AssertedType, Args: []*Term{v}}
			if x.CommaOk {
				ok := &Term{Op: "taok", Type: tBool, Args: []*Term{v}, Name: types.TypeString(x.AssertedType, nil)}
				fr.env[x] = &Term{Op: "tuple", Type: x.Type(), Args: []*Term{t, ok}}
			} else {
				fr.env[x] = t
			}
		case *ssa.Range:
			fr.env[x] = &Term{Op: "range", Name: s.uid(st, fr, x), Type: x.Type(), Args: []*Term{s.val(fr, st, x.X)}}
		case *ssa.Next:
			id := s.uid(st, fr, x)
			it := s.val(fr, st, x.Iter)
			tt := x.Type().(*types.Tuple)
			fr.env[x] = &Term{Op: "tuple", Type: x.Type(), Args: []*Term{
				{Op: "sym", Name: "next.ok:" + id, Type: tBool, Args: []*Term{it}},
				{Op: "sym", Name: "next.k:" + id, Type: tt.At(1).Type(), Args: []*Term{it}},
				{Op: "sym", Name: "next.v:" + id, Type: tt.At(2).Type(), Args: []*Term{it}},
			}}
		case *ssa.Store:
			addr, val := s.val(fr, st, x.Addr), s.val(fr, st, x.Val)
			s.store(st, addr, val)
			s.emit(st, fr, &Event{Kind: "store", Instr: x, Addr: addr, Val: val})
		case *ssa.MapUpdate:
			m := s.val(fr, st, x.Map)
			s.emit(st, fr, &Event{Kind: "mapupdate", Instr: x, Addr: m, Args: []*Term{s.val(fr, st, x.Key)}, Val: s.val(fr, st, x.Value)})
		case *ssa.Send:
			s.emit(st, fr, &Event{Kind: "send", Instr: x, Addr: s.val(fr, st, x.Chan), Val: s.val(fr, st, x.X), Blocking: true})
		case *ssa.Select:
			id := s.uid(st, fr, x)
			ev := &Event{Kind: "select", Instr: x, Blocking: x.Blocking}
			for _, stt := range x.States {
				ev.Args = append(ev.Args, s.val(fr, st, stt.Chan))
			}
			s.emit(st, fr, ev)
			tt := x.Type().(*types.Tuple)
			args := []*Term{}
			for j := 0; j < tt.Len(); j++ {
				args = append(args, &Term{Op: "sym", Name: fmt.Sprintf("select.%d:%s", j, id), Type: tt.At(j).Type()})
			}
			fr.env[x] = &Term{Op: "tuple", Type: x.Type(), Args: args}
			if len(args) > 1 {
				ev.Ok = args[1]
			}
		case *ssa.Go:
			ev := s.callEvent(fr, st, x, &x.Call)
			ev.Kind = "go"
			s.emit(st, fr, ev)
			if ev.Callee != nil {
				s.applyMods(st, s.P.mods(ev.Callee), ev.Args, fnPkg(ev.Callee))
			} else {
				s.havocWorld(st)
			}
		case *ssa.Defer:
			ev := s.callEvent(fr, st, x, &x.Call)
			d := deferred{instr: x, fn: ev.Callee, calT: ev.CalleeT, meth: ev.Method, args: ev.Args}
			fr.defers = append(fr.defers, d)
			ev.Kind = "defer"
			s.emit(st, fr, ev)
		case *ssa.RunDefers:
			s.runDefers(fr, st, func(st2 *State) {
				s.simInstrs(fr, st2, b, i+1, k)
			})
			return
		case *ssa.Call:
			if s.call(fr, st, x, b, i, k) {
				return
			}
		case *ssa.Return:
			res := []*Term{}
			for _, r := range x.Results {
				res = append(res, s.val(fr, st, r))
			}
			k(st, res, "return")
			return
		case *ssa.Panic:
			s.emit(st, fr, &Event{Kind: "panic", Instr: x, Val: s.val(fr, st, x.X)})
			s.runDefers(fr, st, func(st2 *State) { k(st2, nil, "panic") })
			return
		case *ssa.Jump:
			s.enterBlock(fr, st, b.Succs[0], b, k)
			return
		case *ssa.If:
			cond := s.val(fr, st, x.Cond)
			if known, v := st.facts.Decide(cond); known {
				idx := 1
				if v {
					idx = 0
				}
				s.enterBlock(fr, st, b.Succs[idx], b, k)
				return
			}
			for idx, pol := range []bool{true, false} {
				st2, fr2 := st, fr
				if idx == 0 {
					st2, fr2 = st.clone(), fr.clone()
				}
				if !st2.facts.Assume(cond, pol) {
					s.Pruned++
					continue
				}
				atom, p := cond, pol
				for atom.Op == "not" {
					atom, p = atom.Args[0], !p
				}
				st2.conds = append(st2.conds, Lit{Atom: atom, Pol: p})
				s.enterBlock(fr2, st2, b.Succs[idx], b, k)
			}
			return
		default:
			// value-producing instruction we do not model: opaque symbol
			if v, ok := in.(ssa.Value); ok {
				fr.env[v] = &Term{Op: "sym", Name: "op:" + s.uid(st, fr, in), Type: v.Type()}
			}
		}
	}
}

// lookupSplit continues the simulation once per key of a constant map (with the
// fact key == k and the mapped value) and once for "none of them" (zero value).
func (s *Sim) lookupSplit(fr *Frame, st *State, b *ssa.BasicBlock, i int, k cont, x *ssa.Lookup, ca *constAgg, kt *Term) {
	elemT := x.X.Type().Underlying().(*types.Map).Elem()
	valOf := func(v ssa.Value, st2 *State) *Term {
		switch y := v.(type) {
		case *ssa.UnOp:
			return s.load(st2, s.val(nil, st2, y.X), y.Type())
		default:
			return s.val(nil, st2, v)
		}
	}
	set := func(fr2 *Frame, v *Term, ok bool) {
		if x.CommaOk {
			fr2.env[x] = &Term{Op: "tuple", Type: x.Type(), Args: []*Term{v, boolTerm(ok)}}
		} else {
			fr2.env[x] = v
		}
	}
	for idx, kc := range ca.keys {
		st2, fr2 := st.clone(), fr.clone()
		cond := eqTerm(kt, s.val(nil, st2, kc))
		if known, v := st2.facts.Decide(cond); known && !v {
			continue
		} else if !known {
			if !st2.facts.Assume(cond, true) {
				s.Pruned++
				continue
			}
			st2.conds = append(st2.conds, Lit{Atom: cond, Pol: true})
		}
		set(fr2, valOf(ca.elems[idx], st2), true)
		s.simInstrs(fr2, st2, b, i+1, k)
		if known, v := st.facts.Decide(cond); known && v {
			return // the key is this constant: no other case
		}
	}
	// none of the keys
	for _, kc := range ca.keys {
		cond := eqTerm(kt, s.val(nil, st, kc))
		if known, v := st.facts.Decide(cond); known && v {
			return
		} else if !known {
			if !st.facts.Assume(cond, false) {
				return
			}
			st.conds = append(st.conds, Lit{Atom: cond, Pol: false})
		}
	}
	set(fr, zeroTerm(elemT), false)
	s.simInstrs(fr, st, b, i+1, k)
}

// constLen: the length of a slice term when it is fixed on this path.
func constLen(t *Term) (int64, bool) {
	switch {
	case t.IsNil():
		return 0, true
	case t.Op == "append" && len(t.Args) == 2:
		a, ok1 := constLen(t.Args[0])
		b, ok2 := constLen(t.Args[1])
		return a + b, ok1 && ok2
	case t.Op == "slice" && len(t.Args) == 4 && t.Args[1].Op == "none" && t.Args[2].Op == "none":
		if n, ok := tableLen[t.Args[0].Key()]; ok {
			return n, true
		}
		if n, ok := fixedLenTerm(t); ok {
			return n, true
		}
	case t.Op == "make" && strings.HasPrefix(t.Name, "slice:") && len(t.Args) > 0:
		return t.Args[0].IntVal()
	}
	return 0, false
}

// appendElem: the address of element i of append(append(base, a...), b...).
func appendElem(t *Term, i int64) *Term {
	for t.Op == "append" && len(t.Args) == 2 {
		n0, ok := constLen(t.Args[0])
		if !ok {
			return nil
		}
		if i < n0 {
			t = t.Args[0]
			continue
		}
		part := sliceBase(t.Args[1])
		if t.Args[1].Op == "slice" && t.Args[1].Args[1].Op != "none" {
			return nil
		}
		return &Term{Op: "ia", Args: []*Term{part, intTerm(i - n0)}}
	}
	if t.Op == "slice" || t.Op == "alloc" || t.Op == "make" {
		return &Term{Op: "ia", Args: []*Term{sliceBase(t), intTerm(i)}}
	}
	return nil
}

// sliceBase: element i of arr[:] (or arr[0:]) is element i of arr.
func sliceBase(t *Term) *Term {
	for t.Op == "slice" && len(t.Args) == 4 {
		lo := t.Args[1]
		if lo.Op == "none" {
			t = t.Args[0]
			continue
		}
		if v, ok := lo.IntVal(); ok && v == 0 {
			t = t.Args[0]
			continue
		}
		break
	}
	return t
}

func fieldOf(t types.Type, idx int) *types.Var {
	if p, ok := t.Underlying().(*types.Pointer); ok {
		t = p.Elem()
	}
	st := t.Underlying().(*types.Struct)
	return st.Field(idx)
}

func (s *Sim) convert(v *Term, to types.Type) *Term {
	if v.IsConst() {
		if b, ok := to.Underlying().(*types.Basic); ok {
			switch {
			case b.Info()&types.IsInteger != 0 && v.Val.Kind() == constant.Int:
				r := typeRange(to, s.Cfg.IntBits)
				iv := (&Facts{intBits: s.Cfg.IntBits}).Interval(v)
				if iv.Within(r) {
					return constTerm(v.Val, to)
				}
			case b.Info()&types.IsString != 0 && v.Val.Kind() == constant.String:
				return constTerm(v.Val, to)
			}
		}
	}
	return &Term{Op: "conv", Type: to, Args: []*Term{v}}
}

func (s *Sim) unop(fr *Frame, st *State, x *ssa.UnOp) {
	v := s.val(fr, st, x.X)
	switch x.Op {
	case token.MUL:
		if _, ok := x.Type().Underlying().(*types.Struct); ok {
			fr.env[x] = &Term{Op: "structval", Type: x.Type(), Args: []*Term{v}, Name: fmt.Sprint(s.locEpoch(st, v))}
			return
		}
		fr.env[x] = s.load(st, v, x.Type())
	case token.NOT:
		fr.env[x] = notTerm(v)
	case token.SUB:
		fr.env[x] = binTerm(token.SUB, constTerm(constant.MakeInt64(0), x.Type()), v, x.Type())
	case token.ARROW:
		id := s.uid(st, fr, x)
		res := &Term{Op: "sym", Name: "recv:" + id, Type: x.Type()}
		rev := &Event{Kind: "recv", Instr: x, Addr: v, Result: res, Blocking: true}
		s.emit(st, fr, rev)
		s.havocWorld(st)
		if x.CommaOk {
			rev.Ok = &Term{Op: "sym", Name: "recv.ok:" + id, Type: tBool}
			tt := x.Type().(*types.Tuple)
			res = &Term{Op: "tuple", Type: x.Type(), Args: []*Term{
				{Op: "sym", Name: "recv.v:" + id, Type: tt.At(0).Type()},
				{Op: "sym", Name: "recv.ok:" + id, Type: tBool}}}
		}
		fr.env[x] = res
	default:
		fr.env[x] = &Term{Op: "un", Name: x.Op.String(), Type: x.Type(), Args: []*Term{v}}
	}
}

// callEvent resolves the callee and evaluates the arguments of a call-like
// instruction; the receiver is Args[0] for methods.
func (s *Sim) callEvent(fr *Frame, st *State, in ssa.Instruction, c *ssa.CallCommon) *Event {
	ev := &Event{Kind: "call", Instr: in}
	if c.IsInvoke() {
		ev.Kind = "invoke"
		ev.Method = c.Method
		recv := s.val(fr, st, c.Value)
		ev.Args = append(ev.Args, recv)
		// the interface value was built in view from a known concrete value: the
		// call is to that type's method
		if recv.Op == "mkiface" && len(recv.Args) == 1 && recv.Args[0].Type != nil {
			if _, isIface := recv.Args[0].Type.Underlying().(*types.Interface); !isIface {
				if m := s.P.Prog.LookupMethod(recv.Args[0].Type, c.Method.Pkg(), c.Method.Name()); m != nil && m.Synthetic == "" {
					ev.Kind, ev.Method, ev.Callee = "call", nil, m
					ev.Args[0] = recv.Args[0]
				}
			}
		}
	} else if f := c.StaticCallee(); f != nil {
		ev.Callee = f
		if mc, ok := c.Value.(*ssa.MakeClosure); ok {
			ev.CalleeT = s.val(fr, st, mc)
		}
	} else if bi, ok := c.Value.(*ssa.Builtin); ok {
		ev.Kind = "builtin"
		ev.CalleeT = &Term{Op: "builtinfn", Name: bi.Name()}
	} else {
		ct := s.val(fr, st, c.Value)
		ev.CalleeT = ct
		if (ct.Op == "closure" || ct.Op == "func") && ct.Fn != nil {
			ev.Callee = ct.Fn
			// a method value x.M: call M on the receiver it was bound to
			if strings.HasPrefix(ct.Fn.Synthetic, "bound method wrapper") && ct.Op == "closure" && len(ct.Args) == 1 {
				if mo, ok := ct.Fn.Object().(*types.Func); ok {
					if m := s.P.Prog.FuncValue(mo); m != nil {
						ev.Callee, ev.CalleeT = m, nil
						ev.Args = append(ev.Args, ct.Args[0])
					}
				}
			}
		} else {
			ev.Kind = "dyncall"
		}
	}
	for _, a := range c.Args {
		ev.Args = append(ev.Args, s.val(fr, st, a))
	}
	return ev
}

func (s *Sim) builtin(fr *Frame, st *State, x *ssa.Call, ev *Event) *Term {
	name := ev.CalleeT.Name
	a := ev.Args
	switch name {
	case "len", "cap":
		if sv, ok := a[0].StrVal(); ok && name == "len" {
			return intTerm(int64(len(sv)))
		}
		if a[0].Op == "make" && strings.HasPrefix(a[0].Name, "slice:") && name == "len" {
			return a[0].Args[0]
		}
		if a[0].IsNil() {
			return intTerm(0)
		}
		if n, ok := fixedLen(x.Call.Args[0]); ok && name == "len" {
			return intTerm(n)
		}
		if a[0].Op == "slice" && a[0].Args[0].Op == "alloc" && a[0].Args[1].Op == "none" && a[0].Args[2].Op == "none" {
			if n, ok := tableLen[a[0].Args[0].Key()]; ok {
				return intTerm(n)
			}
		}
		if a[0].Op == "slice" && len(a[0].Args) >= 3 && a[0].Args[0].Op == "alloc" && a[0].Args[1].Op == "none" && name == "len" {
			// new([N]byte)[:N] (make with a constant size)
			if n, ok := a[0].Args[2].IntVal(); ok {
				return intTerm(n)
			}
		}
		if a[0].Op == "append" && name == "len" {
			if n, ok := constLen(a[0]); ok {
				return intTerm(n)
			}
		}
		return &Term{Op: name, Type: x.Type(), Args: []*Term{a[0]}}
	case "append":
		if len(a) == 2 && a[1].IsNil() {
			return a[0]
		}
		return &Term{Op: "append", Type: x.Type(), Args: a}
	case "copy":
		ev.Result = &Term{Op: "sym", Name: "copy:" + s.uid(st, fr, x), Type: x.Type()}
		s.emit(st, fr, ev)
		return ev.Result
	case "close", "delete", "print", "println", "panic", "clear":
		s.emit(st, fr, ev)
		return nil
	case "min", "max":
		return &Term{Op: name, Type: x.Type(), Args: a}
	}
	s.emit(st, fr, ev)
	return &Term{Op: "sym", Name: name + ":" + s.uid(st, fr, x), Type: x.Type()}
}

// call returns true when it took over control flow (inlined callee).
func (s *Sim) call(fr *Frame, st *State, x *ssa.Call, b *ssa.BasicBlock, i int, k cont) bool {
	ev := s.callEvent(fr, st, x, &x.Call)
	if ev.Kind == "builtin" {
		if t := s.builtin(fr, st, x, ev); t != nil {
			fr.env[x] = t
		}
		return false
	}
	if ev.Callee != nil && ev.Callee.Blocks != nil && s.Cfg.Inline != nil && s.Cfg.Inline(ev.Callee, fr.depth) {
		simulated[ev.Callee] = true
		s.emit(st, fr, ev)
		var fvs []*Term
		if ev.CalleeT != nil && ev.CalleeT.Op == "closure" {
			fvs = ev.CalleeT.Args
		}
		first := true
		frSnap := fr
		s.simFunc(ev.Callee, ev.Args, fvs, st, fr.depth+1, func(st2 *State, results []*Term, exit string) {
			fr2 := frSnap.clone()
			_ = first
			if exit == "panic" {
				s.runDefers(fr2, st2, func(st3 *State) { k(st3, nil, "panic") })
				return
			}
			switch len(results) {
			case 0:
			case 1:
				fr2.env[x] = results[0]
			default:
				fr2.env[x] = &Term{Op: "tuple", Type: x.Type(), Args: results}
			}
			s.simInstrs(fr2, st2, b, i+1, k)
		})
		return true
	}
	// opaque call
	name := ev.CalleeName()
	id := ""
	if !(ev.Callee != nil && s.Cfg.Pure(name)) {
		id = "#" + s.uid(st, fr, x)
	}
	res := &Term{Op: "call", Name: name + id, Type: x.Type(), Args: ev.Args, Fn: ev.Callee}
	if ev.Method != nil {
		res.Obj = ev.Method
	} else if ev.Callee != nil && ev.Callee.Object() != nil {
		res.Obj = ev.Callee.Object()
	}
	ev.Result = res
	s.emit(st, fr, ev)
	s.callEffects(st, ev)
	if s.Cfg.PanicAtDyncall && ev.Kind == "dyncall" {
		st2, fr2 := st.clone(), fr.clone()
		s.emit(st2, fr2, &Event{Kind: "panic", Instr: x, Val: &Term{Op: "sym", Name: "panic-in:" + name}})
		s.runDefers(fr2, st2, func(st3 *State) { k(st3, nil, "panic") })
	}
	fr.env[x] = res
	return false
}

func (s *Sim) runDefers(fr *Frame, st *State, k func(*State)) {
	if len(fr.defers) == 0 {
		k(st)
		return
	}
	d := fr.defers[len(fr.defers)-1]
	fr2 := fr.clone()
	fr2.defers = fr2.defers[:len(fr2.defers)-1]
	st.inDefer++
	done := func(st2 *State) {
		st2.inDefer--
		s.runDefers(fr2, st2, k)
	}
	if d.fn != nil && d.fn.Blocks != nil && s.Cfg.Inline != nil && s.Cfg.Inline(d.fn, fr.depth) {
		simulated[d.fn] = true
		var fvs []*Term
		if d.calT != nil && d.calT.Op == "closure" {
			fvs = d.calT.Args
		}
		s.emit(st, fr, &Event{Kind: "call", Instr: d.instr, Callee: d.fn, CalleeT: d.calT, Args: d.args, Deferred: true})
		s.simFunc(d.fn, d.args, fvs, st, fr.depth+1, func(st2 *State, _ []*Term, exit string) {
			done(st2)
		})
		return
	}
	kind := "call"
	if d.meth != nil {
		kind = "invoke"
	} else if d.fn == nil {
		kind = "dyncall"
	}
	dev := s.emit(st, fr, &Event{Kind: kind, Instr: d.instr, Callee: d.fn, CalleeT: d.calT, Method: d.meth, Args: d.args, Deferred: true})
	s.callEffects(st, dev)
	done(st)
}

// ------------------------------------------------------------- debugging

func (p *Program) dumpPaths(fn *ssa.Function, inlineDepth int) {
	cfg := SimConfig{Inline: func(c *ssa.Function, depth int) bool { return isPikeFunc(c) && depth < inlineDepth }}
	n := 0
	sim := p.Simulate(fn, cfg, func(pr *PathResult) {
		n++
		fmt.Printf("--- path %d exit=%s\n", n, pr.Exit)
		for _, c := range pr.Conds {
			fmt.Printf("   cond %s\n", c)
		}
		for _, e := range pr.Events {
			switch e.Kind {
			case "store":
				fmt.Printf("   %*sstore %s := %s\n", e.Depth*2, "", prettyTerm(e.Addr), prettyTerm(e.Val))
			case "send", "recv":
				fmt.Printf("   %*s%s %s\n", e.Depth*2, "", e.Kind, prettyTerm(e.Addr))
			default:
				as := []string{}
				for _, a := range e.Args {
					as = append(as, prettyTerm(a))
				}
				d := ""
				if e.Deferred {
					d = " [deferred]"
				}
				fmt.Printf("   %*s%s %s(%s)%s\n", e.Depth*2, "", e.Kind, e.CalleeName(), strings.Join(as, ", "), d)
			}
		}
		rs := []string{}
		for _, r := range pr.Results {
			rs = append(rs, prettyTerm(r))
		}
		fmt.Printf("   => %s\n", strings.Join(rs, " ; "))
	})
	fmt.Printf("paths=%d pruned=%d loopcuts=%d overflow=%v\n", sim.Paths, sim.Pruned, sim.LoopCuts, sim.Overflow)
}

// semanticAtoms: unexported pike functions that rules match as events (their
// internals are verified by their own rules); every other unexported function of
// the analysed function's package is a helper and is simulated in place, so that
// extracting or inlining a helper does not change a verdict.
var semanticAtoms = map[string]bool{
	"get": true, "initFromStore": true, "saveToStore": true, "getLRU": true, "byteSliceToString": true, "memhash": true,
	"readUint32ToInt": true, "readUint64ToInt64": true, "readBytes": true, "uint32ToBytes": true, "uint64ToBytes": true,
	"getBodyByAcceptEncoding": true, "shouldCompressed": true, "getCacheMaxAge": true, "requestIsPass": true, "getKey": true,
	"getCacheStatus": true, "setCacheStatus": true, "getHTTPResp": true, "setHTTPResp": true, "setHTTPRespAge": true, "getHTTPRespAge": true,
	"setHTTPCacheMaxAge": true, "getHTTPCacheMaxAge": true, "gzipFn": true, "brotliEncode": true, "doGzip": true, "doBrotli": true,
	"doGunzip": true, "doBrotliDecode": true, "doLZ4Decode": true, "doSnappyDecode": true, "doZSTDDecode": true, "doLZ4Encode": true, "doZSTDEncode": true, "doSnappyEncode": true,
	"getPriority": true, "newHTTPLRUCache": true, "newTargetPicker": true, "newProxyMid": true, "newTransport": true, "convertConfig": true, "convertConfigs": true,
	"removeCache": true, "addCache": true, "getCache": true, "update": true, "generateURLRewriter": true, "mergeHeader": true, "cloneHeaderAndIgnore": true,
	"addValidate": true, "addAlias": true, "newBadgerStore": true, "newRedisStore": true, "newMongoStore": true,
}

func isHelper(callee *ssa.Function) bool {
	if callee == nil || callee.Blocks == nil || !isPikeFunc(callee) {
		return false
	}
	if callee.Parent() != nil {
		return false // function literals are handled by the rules that own them
	}
	obj := callee.Object()
	if obj == nil || obj.Exported() {
		return false
	}
	// the converters are atoms only where the rules know them by that name (a per-item helper that happens
	// to be called convertConfig in another package is an ordinary helper)
	switch callee.Name() {
	case "convertConfig":
		return !inPkg(callee, "server")
	case "convertConfigs":
		return false
	}
	return !semanticAtoms[callee.Name()]
}

// inlineHelpersOf: simulate in place the unexported helper functions of the
// package root belongs to (and util's error constructor).
func inlineHelpersOf(root *ssa.Function) func(*ssa.Function, int) bool {
	rp := fnPkg(root)
	return func(callee *ssa.Function, depth int) bool {
		if depth >= 4 {
			return false
		}
		if inPkg(callee, "util") && callee.Name() == "NewError" {
			return true
		}
		// a function literal written inside a helper moves with it
		if callee.Parent() != nil {
			top := callee
			for top.Parent() != nil {
				top = top.Parent()
			}
			if top == root {
				// a literal of the analysed function itself, run synchronously by a helper it was handed to
				// (withLock(func(){…}), each(func(x){…})): part of the function's own control flow
				return depth > 0
			}
			return isHelper(top) && fnPkg(top) == rp
		}
		return isHelper(callee) && fnPkg(callee) == rp && callee != root
	}
}

// orHelpers combines a rule's own inlining policy with the helper policy.
func orHelpers(root *ssa.Function, f func(*ssa.Function, int) bool) func(*ssa.Function, int) bool {
	h := inlineHelpersOf(root)
	return func(callee *ssa.Function, depth int) bool { return f(callee, depth) || h(callee, depth) }
}
