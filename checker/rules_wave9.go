package main

// Rules added after held-out round 11.

import (
	"fmt"
	"go/token"
	"go/types"
	"reflect"
	"regexp"
	"strings"

	"golang.org/x/tools/go/ssa"
)

// inLoop: the block lies on a cycle of the function's CFG.
func inLoop(b *ssa.BasicBlock) bool {
	for _, s := range b.Succs {
		if reaches(s, b, map[*ssa.BasicBlock]bool{}) {
			return true
		}
	}
	return false
}

// ruleConverterPerItem: each option a converter produces is computed from its
// own configuration item only: nothing assigned while converting one item is
// still visible when the next one is converted.
func ruleConverterPerItem(c *Ctx) {
	convs := []struct{ pkg, fn string }{{"cache", "convertConfigs"}, {"server", "convertConfig"}, {"location", "convertConfigs"}, {"upstream", "convertConfigs"}, {"compress", "convertConfigs"}}
	for _, cv := range convs {
		fn := c.P.Func(cv.pkg, cv.fn)
		if fn == nil {
			c.undecided("converter-per-item", cv.pkg+"."+cv.fn, "-", "converter not found")
			continue
		}
		n := 0
		bad := []string{}
		for f := range staticScope(fn, cv.pkg, 2) {
			if f.Parent() != nil && f.Parent() != fn {
				continue
			}
			for _, b := range f.Blocks {
				for _, in := range b.Instrs {
					switch x := in.(type) {
					case *ssa.Alloc:
						// a struct variable that outlives one iteration and is appended / stored from inside the loop
						st, isStruct := derefType(x.Type()).Underlying().(*types.Struct)
						if !isStruct || inLoop(b) || st.NumFields() == 0 {
							continue
						}
						usedInLoop, wholeStoreInLoop := false, false
						fieldStores := 0
						for _, r := range *x.Referrers() {
							switch y := r.(type) {
							case *ssa.UnOp:
								if y.Op == token.MUL && inLoop(y.Block()) {
									usedInLoop = true
								}
							case *ssa.Store:
								if y.Addr == ssa.Value(x) && inLoop(y.Block()) {
									wholeStoreInLoop = true
								}
							case *ssa.FieldAddr:
								if inLoop(y.Block()) {
									fieldStores++
								}
							}
						}
						if usedInLoop && fieldStores > 0 {
							n++
							if !wholeStoreInLoop {
								bad = append(bad, fmt.Sprintf("%s: %s fills one %s variable declared outside its loop for every item: a field that is only assigned conditionally keeps the previous item's value", c.P.pos(x.Pos()), funcName(f), derefType(x.Type()).String()))
							}
						}
					case *ssa.Store:
						// a field of the option copied from the configuration only under some condition
						// (other than the parse it depends on): the option can go out without it
						fa, isFA := x.Addr.(*ssa.FieldAddr)
						if !isFA {
							continue
						}
						al, isAl := fa.X.(*ssa.Alloc)
						if !isAl || !converterCopiedField[faField(fa).Name()] {
							continue
						}
						if !configDerived(x.Val, 0) {
							continue
						}
						n++
						for _, r := range *al.Referrers() {
							ld, isLoad := r.(*ssa.UnOp)
							if !isLoad || ld.Op != token.MUL {
								continue
							}
							if !(b == ld.Block() || b.Dominates(ld.Block())) {
								bad = append(bad, fmt.Sprintf("%s: %s copies the configured %s into the option only on some paths: an option can be produced without it (a cache without its configured size falls back to the built-in default)", c.P.pos(x.Pos()), funcName(f), faField(fa).Name()))
							}
						}
					case *ssa.Phi:
						if !inLoop(b) {
							continue
						}
						// loop-carried state other than the result slice, counters and iterators
						switch x.Type().Underlying().(type) {
						case *types.Slice, *types.Map:
							continue
						case *types.Basic:
							if x.Type().Underlying().(*types.Basic).Info()&(types.IsInteger|types.IsBoolean) != 0 {
								continue
							}
						}
						carried := false
						for i, e := range x.Edges {
							pred := b.Preds[i]
							if b.Dominates(pred) { // a back edge
								if _, isConst := e.(*ssa.Const); !isConst && e != ssa.Value(x) {
									carried = true
								}
							}
						}
						if !carried {
							continue
						}
						n++
						// it matters when the carried value can reach an option without having been reassigned for this item:
						// one of the entry edges is the phi itself through a path that skips the assignment
						bad = append(bad, fmt.Sprintf("%s: in %s a %s value computed for one configuration item is still live when the next item is converted (a variable declared outside the loop and assigned only conditionally): that item inherits its predecessor's setting", c.P.pos(x.Pos()), funcName(f), x.Type().String()))
					}
				}
			}
		}
		c.check(len(bad) == 0, "converter-per-item", funcName(fn), c.P.pos(fn.Pos()), fmt.Sprintf("no state is carried from one configuration item to the next (%d candidate variables examined)", n), strings.Join(uniq(bad), " || "), n+1)
	}
}

// ruleStringersTotal: String() of pike's integer-like types (they are applied
// to numbers read from persisted records, for logging) is defined for every
// value: no index into a table that the value is not known to be inside.
func ruleStringersTotal(c *Ctx) {
	n, sites := 0, 0
	bad := []string{}
	for _, f := range c.P.allFuncs {
		if f.Name() != "String" || f.Signature.Recv() == nil || f.Parent() != nil || len(f.Blocks) == 0 {
			continue
		}
		bt, ok := f.Signature.Recv().Type().Underlying().(*types.Basic)
		if !ok || bt.Info()&types.IsInteger == 0 {
			continue
		}
		n++
		sim := c.P.Simulate(f, SimConfig{IndexEvents: true, ArrayIndexEvents: true, MaxVisits: 2}, func(pr *PathResult) {
			for _, e := range pr.Events {
				if e.Kind != "index" {
					continue
				}
				sites++
				base, idx := e.Args[0], e.Args[1]
				fa := factsAt(c.P, pr, e)
				L := &Term{Op: "len", Type: tInt, Args: []*Term{base}}
				if s, ok := base.StrVal(); ok {
					L = intTerm(int64(len(s)))
				}
				if ia, ok := e.Instr.(*ssa.IndexAddr); ok {
					if at, ok := derefType(ia.X.Type()).Underlying().(*types.Array); ok {
						L = intTerm(at.Len())
					}
				}
				if ix, ok := e.Instr.(*ssa.Index); ok {
					if at, ok := ix.X.Type().Underlying().(*types.Array); ok {
						L = intTerm(at.Len())
					}
				}
				k, in := fa.Decide(ltTerm(idx, L))
				iv := fa.Interval(idx)
				if !(k && in) || iv.Lo == nil || iv.Lo.Sign() < 0 {
					bad = append(bad, fmt.Sprintf("%s: %s indexes %s with the value itself without a range check: a number outside the defined constants (a damaged status word read from the store) panics, inside the locked lookup", c.P.pos(e.Instr.Pos()), funcName(f), prettyTerm(base)))
				}
			}
		})
		if sim.Overflow {
			c.undecided("stringers-total", funcName(f), c.P.pos(f.Pos()), "path enumeration overflow")
		}
	}
	if n == 0 {
		c.undecided("stringers-total", "pike", "-", "no String method on an integer type found")
		return
	}
	c.check(len(bad) == 0, "stringers-total", "pike", "-", fmt.Sprintf("%d String methods on integer types, %d table lookups, each inside its table", n, sites), strings.Join(uniq(bad), " || "), n)
}

// ruleWriterBufferEmpty: a buffer handed to an encoder as its destination starts
// empty: bytes.NewBuffer(x) treats x's length as content already written.
func ruleWriterBufferEmpty(c *Ctx) {
	n := 0
	bad := []string{}
	for _, f := range c.P.allFuncs {
		if !inPkg(f, "compress") && !inPkg(f, "cache") {
			continue
		}
		for _, b := range f.Blocks {
			for _, in := range b.Instrs {
				call, ok := in.(*ssa.Call)
				if !ok {
					continue
				}
				sc := call.Call.StaticCallee()
				if sc == nil || sc.String() != "bytes.NewBuffer" {
					continue
				}
				if !usedAsWriter(call, 0) {
					continue
				}
				n++
				if !zeroLength(call.Call.Args[0], 0) {
					bad = append(bad, fmt.Sprintf("%s: %s gives an encoder a bytes.NewBuffer over a slice that is not known to be empty: its existing length is output already written, so the stream starts with garbage", c.P.pos(call.Pos()), funcName(f)))
				}
			}
		}
	}
	c.check(len(bad) == 0, "writer-buffer-empty", "compress", "-", fmt.Sprintf("%d bytes.NewBuffer destinations, each over a zero-length slice", n), strings.Join(uniq(bad), " || "), n+1)
}

func usedAsWriter(v ssa.Value, d int) bool {
	if d > 3 || v.Referrers() == nil {
		return false
	}
	for _, r := range *v.Referrers() {
		switch x := r.(type) {
		case *ssa.MakeInterface:
			if it, ok := x.Type().Underlying().(*types.Interface); ok {
				for i := 0; i < it.NumMethods(); i++ {
					if it.Method(i).Name() == "Write" {
						return true
					}
				}
			}
		case *ssa.Phi:
			if usedAsWriter(x, d+1) {
				return true
			}
		case *ssa.Store:
			// spilled to a cell (captured / reassigned variable): follow the loads
			if al, ok := x.Addr.(*ssa.Alloc); ok && x.Val == v {
				for _, rr := range *al.Referrers() {
					if ld, ok := rr.(*ssa.UnOp); ok && ld.Op == token.MUL && usedAsWriter(ld, d+1) {
						return true
					}
				}
			}
		case ssa.CallInstruction:
			if sc := x.Common().StaticCallee(); sc != nil && sc.Signature.Recv() != nil && len(x.Common().Args) > 0 && x.Common().Args[0] == v && strings.HasPrefix(sc.Name(), "Write") {
				return true
			}
		}
	}
	return false
}

func zeroLength(v ssa.Value, d int) bool {
	if d > 3 {
		return false
	}
	switch x := v.(type) {
	case *ssa.Const:
		return x.IsNil()
	case *ssa.MakeSlice:
		k, ok := x.Len.(*ssa.Const)
		return ok && k.Value != nil && k.Int64() == 0
	case *ssa.Slice:
		if x.High != nil {
			if k, ok := x.High.(*ssa.Const); ok && k.Value != nil && k.Int64() == 0 {
				return true
			}
		}
	case *ssa.Phi:
		for _, e := range x.Edges {
			if !zeroLength(e, d+1) {
				return false
			}
		}
		return len(x.Edges) > 0
	}
	return false
}

// ruleLocationsFromOptions: Locations.Set publishes only objects built from the
// options it was given: nothing from the list it replaces is kept.
func ruleLocationsFromOptions(c *Ctx) {
	fn := c.P.Method("location", "Locations", "Set")
	if fn == nil {
		c.undecided("locations-from-options", "Locations.Set", "-", "not found")
		return
	}
	n := 0
	bad := []string{}
	recvT := fn.Params[0].Type()
	for f := range staticScope(fn, "location", 2) {
		for _, b := range f.Blocks {
			for _, in := range b.Instrs {
				switch x := in.(type) {
				case *ssa.FieldAddr:
					// reads of the receiver's current list
					if types.Identical(x.X.Type(), recvT) && faField(x).Name() == "locations" {
						for _, r := range *x.Referrers() {
							if ld, ok := r.(*ssa.UnOp); ok && ld.Op == token.MUL {
								n++
								bad = append(bad, fmt.Sprintf("%s: %s reads the list it is about to replace: a location kept from it carries the old hosts, prefixes and priority into the new configuration", c.P.pos(ld.Pos()), funcName(f)))
							}
						}
					}
				case ssa.CallInstruction:
					if sc := x.Common().StaticCallee(); sc != nil && sc.Signature.Recv() != nil && types.Identical(sc.Signature.Recv().Type(), recvT) && sc != fn {
						if sc.Name() == "GetLocations" || sc.Name() == "Get" {
							n++
							bad = append(bad, fmt.Sprintf("%s: %s consults the current list (%s) while building the new one", c.P.pos(in.Pos()), funcName(f), sc.Name()))
						}
					}
				}
			}
		}
	}
	c.check(len(bad) == 0, "locations-from-options", funcName(fn), c.P.pos(fn.Pos()), "the new list is built from the options alone", strings.Join(uniq(bad), " || "), n+1)
}

// ruleDiveTags: a configuration field holding a list of structs that carry
// validation tags is validated element by element ("dive").
func ruleDiveTags(c *Ctx) {
	n := 0
	bad := []string{}
	hasTags := func(st *types.Struct) bool {
		for i := 0; i < st.NumFields(); i++ {
			if reflect.StructTag(st.Tag(i)).Get("validate") != "" {
				return true
			}
		}
		return false
	}
	for _, s := range configStructs(c.P) {
		st := s.Underlying().(*types.Struct)
		for i := 0; i < st.NumFields(); i++ {
			sl, ok := st.Field(i).Type().Underlying().(*types.Slice)
			if !ok {
				continue
			}
			est, ok := sl.Elem().Underlying().(*types.Struct)
			if !ok || !hasTags(est) {
				continue
			}
			n++
			dive := false
			for _, part := range strings.Split(reflect.StructTag(st.Tag(i)).Get("validate"), ",") {
				if strings.TrimSpace(part) == "dive" {
					dive = true
				}
			}
			if !dive {
				bad = append(bad, fmt.Sprintf("%s.%s holds %s values with validation rules of their own but is not tagged 'dive': the rules of the elements (an upstream server's address, …) are never run and malformed values are accepted for saving", s.Obj().Name(), st.Field(i).Name(), sl.Elem().String()))
			}
		}
	}
	if n < 3 {
		c.undecided("dive-tags", "config", "-", fmt.Sprintf("only %d lists of validated structs found", n))
		return
	}
	c.check(len(bad) == 0, "dive-tags", "config", "config/config.go", fmt.Sprintf("%d lists of structs with validation rules, each validated element-wise", n), strings.Join(uniq(bad), " || "), n)
}

// ruleValidateVisitsAll: Validate reports success only after its loops over the
// locations and the servers have run to their end.
func ruleValidateVisitsAll(c *Ctx) {
	fn := c.P.Method("config", "PikeConfig", "Validate")
	if fn == nil {
		c.undecided("validate-visits-all", "PikeConfig.Validate", "-", "not found")
		return
	}
	n := 0
	bad := []string{}
	for f := range staticScope(fn, "config", 2) {
		if f != fn && !isHelper(f) {
			continue
		}
		for _, b := range f.Blocks {
			ret, ok := b.Instrs[len(b.Instrs)-1].(*ssa.Return)
			if !ok || !inLoopBody(b) {
				continue
			}
			// a return from inside a loop: it must not report success for the whole
			for _, r := range ret.Results {
				if !isErrorType(r.Type()) {
					continue
				}
				n++
				if k, ok := r.(*ssa.Const); ok && k.IsNil() {
					bad = append(bad, fmt.Sprintf("%s: %s returns nil from inside a loop: the remaining locations / servers are never checked and a dangling reference in one of them is accepted", c.P.pos(ret.Pos()), funcName(f)))
				}
			}
		}
	}
	// an outermost loop is left only through its own condition (all elements visited) or by returning
	for f := range staticScope(fn, "config", 2) {
		if f != fn && !isHelper(f) {
			continue
		}
		done := map[*ssa.BasicBlock]bool{}
		for _, b := range f.Blocks {
			if done[b] {
				continue
			}
			scc := cycleOf(b)
			if scc == nil {
				continue
			}
			var header *ssa.BasicBlock
			for x := range scc {
				done[x] = true
				for _, p := range x.Preds {
					if !scc[p] {
						header = x
					}
				}
			}
			for x := range scc {
				for _, y := range x.Succs {
					if scc[y] || x == header {
						continue
					}
					if _, isRet := y.Instrs[len(y.Instrs)-1].(*ssa.Return); isRet {
						continue
					}
					n++
					bad = append(bad, fmt.Sprintf("%s: %s leaves a loop from inside its body without returning (a break out of the outer loop): the remaining elements are never checked and a dangling reference in one of them is accepted", c.P.pos(x.Instrs[len(x.Instrs)-1].Pos()), funcName(f)))
				}
			}
		}
	}
	c.check(len(bad) == 0, "validate-visits-all", funcName(fn), c.P.pos(fn.Pos()), fmt.Sprintf("%d returns / exits inside loops, none ends the checks before the loop is done", n), strings.Join(uniq(bad), " || "), n+1)
}

// inLoopBody: b can reach a loop header that can reach b, and b is not the
// block a loop exits to (a return after the loop is fine).
func inLoopBody(b *ssa.BasicBlock) bool {
	for _, p := range b.Preds {
		if reaches(b, p, map[*ssa.BasicBlock]bool{}) {
			return true
		}
	}
	// the return block itself has no successors; it is "inside" when its only way in is from a block on a cycle
	// through a conditional that is not the loop's own exit test
	for _, p := range b.Preds {
		if !inLoop(p) {
			continue
		}
		// p is on a cycle. b is the loop exit if p is a loop header (the range/for condition); otherwise b is a
		// return out of the loop body
		if !isLoopHeader(p) {
			return true
		}
	}
	return false
}

// ruleLRUAddFresh: an entry is put into a shard's LRU only by the function that
// has just constructed it (get-or-create): an entry that was purged or evicted
// is never put back.
func ruleLRUAddFresh(c *Ctx) {
	isLRUAdd := func(sc *ssa.Function) bool {
		return sc != nil && sc.String() == "(*github.com/golang/groupcache/lru.Cache).Add"
	}
	// wrappers: pike functions that pass a parameter as the value to Add
	wrappers := map[*ssa.Function]int{}
	n := 0
	bad := []string{}
	fresh := func(v ssa.Value) bool {
		var ok func(v ssa.Value, d int) bool
		ok = func(v ssa.Value, d int) bool {
			if d > 4 {
				return false
			}
			switch x := v.(type) {
			case *ssa.Call:
				sc := x.Call.StaticCallee()
				if sc == nil || !isPikeFunc(sc) {
					return false
				}
				if strings.HasPrefix(sc.Name(), "New") {
					return true
				}
				// a helper every return of which hands out a fresh entry
				if d > 2 || len(sc.Blocks) == 0 {
					return false
				}
				rets := 0
				for _, b := range sc.Blocks {
					if b == sc.Recover {
						continue
					}
					for _, in := range b.Instrs {
						if r, isRet := in.(*ssa.Return); isRet && len(r.Results) >= 1 {
							rets++
							if !ok(r.Results[0], d+1) {
								return false
							}
						}
					}
				}
				return rets > 0
			case *ssa.UnOp:
				// a captured variable: the assignments that reach this read
				if fv, isFV := x.X.(*ssa.FreeVar); isFV && x.Op == token.MUL {
					defs, complete := reachingStores(fv, x)
					if !complete || len(defs) == 0 {
						return false
					}
					for _, st := range defs {
						if !ok(st.Val, d+1) {
							return false
						}
					}
					return true
				}
				// a result cell written on every path (functions with a defer spill their results)
				if al, isAl := x.X.(*ssa.Alloc); isAl && x.Op == token.MUL {
					stores := 0
					for _, r := range *al.Referrers() {
						if st, isSt := r.(*ssa.Store); isSt && st.Addr == ssa.Value(al) {
							stores++
							if !ok(st.Val, d+1) {
								return false
							}
						}
					}
					return stores > 0
				}
				return false
			case *ssa.Alloc:
				return true
			case *ssa.MakeInterface:
				return ok(x.X, d+1)
			case *ssa.Phi:
				for _, e := range x.Edges {
					if !ok(e, d+1) {
						return false
					}
				}
				return len(x.Edges) > 0
			}
			return false
		}
		return ok(v, 0)
	}
	for _, f := range c.P.allFuncs {
		if !inPkg(f, "cache") {
			continue
		}
		for _, b := range f.Blocks {
			for _, in := range b.Instrs {
				ci, ok := in.(ssa.CallInstruction)
				if !ok || !isLRUAdd(ci.Common().StaticCallee()) || len(ci.Common().Args) < 3 {
					continue
				}
				n++
				val := ci.Common().Args[2]
				if mi, ok := val.(*ssa.MakeInterface); ok {
					val = mi.X
				}
				if p, ok := val.(*ssa.Parameter); ok {
					for i, q := range f.Params {
						if q == p {
							wrappers[f] = i
						}
					}
					continue
				}
				if !fresh(val) {
					bad = append(bad, fmt.Sprintf("%s: %s adds an entry to the LRU that it did not construct", c.P.pos(in.Pos()), funcName(f)))
				}
			}
		}
	}
	for w, idx := range wrappers {
		for _, f := range c.P.allFuncs {
			for _, b := range f.Blocks {
				for _, in := range b.Instrs {
					ci, ok := in.(ssa.CallInstruction)
					if !ok || ci.Common().StaticCallee() != w || idx >= len(ci.Common().Args) {
						continue
					}
					n++
					if !fresh(ci.Common().Args[idx]) {
						bad = append(bad, fmt.Sprintf("%s: %s puts an entry into the LRU (%s) that it did not construct itself: an entry removed by a purge (or evicted) while its fetch was in flight comes back, with the response the purge was meant to drop", c.P.pos(in.Pos()), funcName(f), funcName(w)))
					}
				}
			}
		}
	}
	if n == 0 {
		c.undecided("lru-add-fresh", "cache", "-", "no lru.Cache.Add found")
		return
	}
	c.check(len(bad) == 0, "lru-add-fresh", "cache", "cache/dispatcher.go", fmt.Sprintf("%d Add sites (through %d wrappers), each given an entry constructed on the spot", n, len(wrappers)), strings.Join(uniq(bad), " || "), n)
}

// rulePickerOnly: every request's target is chosen by the picker from the
// health-checked pool: the proxy gets no fixed target, and the picker asks the
// pool for nothing but Next (no health check on the request path).
func rulePickerOnly(c *Ctx) {
	n := 0
	bad := []string{}
	for _, f := range c.P.allFuncs {
		if !inPkg(f, "upstream") {
			continue
		}
		for _, b := range f.Blocks {
			for _, in := range b.Instrs {
				st, ok := in.(*ssa.Store)
				if !ok {
					continue
				}
				fa, ok := st.Addr.(*ssa.FieldAddr)
				if !ok {
					continue
				}
				fv := faField(fa)
				if fv.Pkg() == nil || !strings.HasSuffix(fv.Pkg().Path(), "elton/middleware") {
					continue
				}
				n++
				if fv.Name() == "Target" {
					if k, ok := st.Val.(*ssa.Const); !ok || !k.IsNil() {
						bad = append(bad, fmt.Sprintf("%s: %s gives the reverse proxy a fixed Target: the picker (and with it the pool's health state) is bypassed, requests keep going to a server whose health check fails", c.P.pos(st.Pos()), funcName(f)))
					}
				}
			}
		}
	}
	if pk := returnedClosure(c.P.Func("upstream", "newTargetPicker")); pk != nil {
		for f := range staticScope(pk, "upstream", 2) {
			for _, b := range f.Blocks {
				for _, in := range b.Instrs {
					ci, ok := in.(ssa.CallInstruction)
					if !ok {
						continue
					}
					sc := ci.Common().StaticCallee()
					if sc == nil || sc.Pkg == nil || sc.Pkg.Pkg.Path() != "github.com/vicanso/upstream" {
						continue
					}
					n++
					if sc.Name() != "Next" {
						bad = append(bad, fmt.Sprintf("%s: the target picker calls %s on the pool: a request must not run (or wait for) health checks; with every server hanging it is answered only after the probes time out", c.P.pos(in.Pos()), sc.Name()))
					}
				}
			}
		}
	}
	if n == 0 {
		c.undecided("picker-only", "upstream", "-", "proxy configuration not found")
		return
	}
	c.check(len(bad) == 0, "picker-only", "upstream", "upstream/upstream.go", fmt.Sprintf("%d proxy-configuration fields / pool calls: no fixed target, the picker only calls Next", n), strings.Join(uniq(bad), " || "), n)
}

// ruleAllMethodsRouted: the proxying server routes every request method to the
// middleware chain (elton resolves the route before any middleware runs: a
// method without a route is answered by pike itself and never forwarded).
func ruleAllMethodsRouted(c *Ctx) {
	fn := c.P.Method("server", "server", "Start")
	if fn == nil {
		c.undecided("all-methods-routed", "server.Start", "-", "not found")
		return
	}
	need := []string{"GET", "HEAD", "POST", "PUT", "PATCH", "DELETE", "OPTIONS", "TRACE"}
	have := map[string]bool{}
	all := false
	n := 0
	var constStrings func(v ssa.Value, d int) []string
	constStrings = func(v ssa.Value, d int) []string {
		if d > 5 {
			return nil
		}
		switch x := v.(type) {
		case *ssa.Const:
			if s, ok := constTerm(x.Value, x.Type()).StrVal(); ok {
				return []string{s}
			}
		case *ssa.UnOp:
			if x.Op == token.MUL {
				return constStrings(x.X, d+1)
			}
		case *ssa.IndexAddr:
			return constStrings(x.X, d+1)
		case *ssa.Index:
			return constStrings(x.X, d+1)
		case *ssa.Slice:
			return constStrings(x.X, d+1)
		case *ssa.Global:
			if ca := c.P.constAggregate(x.Object()); ca != nil {
				out := []string{}
				for _, e := range ca.elems {
					out = append(out, constStrings(e, d+1)...)
				}
				return out
			}
		case *ssa.Alloc:
			// a local array literal: the values stored into its cells
			out := []string{}
			for _, r := range *x.Referrers() {
				if ia, ok := r.(*ssa.IndexAddr); ok {
					for _, rr := range *ia.Referrers() {
						if st, ok := rr.(*ssa.Store); ok && st.Addr == ssa.Value(ia) {
							out = append(out, constStrings(st.Val, d+1)...)
						}
					}
				}
			}
			return out
		case *ssa.Extract:
			if nx, ok := x.Tuple.(*ssa.Next); ok {
				if r, ok := nx.Iter.(*ssa.Range); ok {
					return constStrings(r.X, d+1)
				}
			}
		case *ssa.Phi:
			out := []string{}
			for _, e := range x.Edges {
				out = append(out, constStrings(e, d+1)...)
			}
			return out
		}
		return nil
	}
	for f := range staticScope(fn, "server", 3) {
		for _, b := range f.Blocks {
			for _, in := range b.Instrs {
				ci, ok := in.(ssa.CallInstruction)
				if !ok {
					continue
				}
				sc := ci.Common().StaticCallee()
				if sc == nil || sc.Signature.Recv() == nil || !strings.HasSuffix(sc.Signature.Recv().Type().String(), "elton.Elton") {
					continue
				}
				args := ci.Common().Args
				switch sc.Name() {
				case "ALL":
					n++
					if len(args) > 1 {
						if p := constStrings(args[1], 0); len(p) == 1 && (p[0] == "/*" || p[0] == "*") {
							all = true
						}
					}
				case "Handle":
					n++
					if len(args) > 2 {
						if p := constStrings(args[2], 0); len(p) == 1 && (p[0] == "/*" || p[0] == "*") {
							for _, m := range constStrings(args[1], 0) {
								have[strings.ToUpper(m)] = true
							}
						}
					}
				case "GET", "POST", "PUT", "PATCH", "DELETE", "HEAD", "OPTIONS", "TRACE":
					n++
					if len(args) > 1 {
						if p := constStrings(args[1], 0); len(p) == 1 && (p[0] == "/*" || p[0] == "*") {
							have[sc.Name()] = true
						}
					}
				}
			}
		}
	}
	if n == 0 {
		c.undecided("all-methods-routed", funcName(fn), c.P.pos(fn.Pos()), "no route registration found")
		return
	}
	missing := []string{}
	if !all {
		for _, m := range need {
			if !have[m] {
				missing = append(missing, m)
			}
		}
	}
	c.check(len(missing) == 0, "all-methods-routed", funcName(fn), c.P.pos(fn.Pos()), "every request method has the catch-all route", "no catch-all route for "+strings.Join(missing, ", ")+": such a request is answered by the router (405) and never reaches the cache / proxy middleware, so it is not forwarded", n)
}

// ruleMatchFieldsVerbatim: what a location matches on (its hosts and prefixes)
// and its name are written by the converter only, from the configuration: no
// later step (Set, a reload) rewrites them, so the specificity class a location
// is sorted by is the one of its configured constraints.
func ruleMatchFieldsVerbatim(c *Ctx) {
	conv := c.P.Func("location", "convertConfigs")
	if conv == nil {
		c.undecided("match-fields-verbatim", "location.convertConfigs", "-", "not found")
		return
	}
	allowed := staticScope(conv, "location", 3)
	n := 0
	bad := []string{}
	for _, f := range c.P.allFuncs {
		if !isPikeFunc(f) {
			continue
		}
		for _, b := range f.Blocks {
			for _, in := range b.Instrs {
				st, ok := in.(*ssa.Store)
				if !ok {
					continue
				}
				fa, ok := st.Addr.(*ssa.FieldAddr)
				if !ok {
					continue
				}
				fv := faField(fa)
				if fv.Pkg() == nil || fv.Pkg().Path() != pkgPath("location") {
					continue
				}
				nt, ok := derefType(fa.X.Type()).(*types.Named)
				if !ok || nt.Obj().Name() != "Location" {
					continue
				}
				if fv.Name() != "Hosts" && fv.Name() != "Prefixes" && fv.Name() != "Name" {
					continue
				}
				n++
				if !allowed[f] {
					bad = append(bad, fmt.Sprintf("%s: %s rewrites Location.%s after the converter filled it: the location no longer matches (and is no longer ranked by) its configured constraints", c.P.pos(st.Pos()), funcName(f), fv.Name()))
				}
			}
		}
	}
	if n == 0 {
		c.undecided("match-fields-verbatim", funcName(conv), c.P.pos(conv.Pos()), "no assignment of Hosts / Prefixes / Name found")
		return
	}
	c.check(len(bad) == 0, "match-fields-verbatim", funcName(conv), c.P.pos(conv.Pos()), fmt.Sprintf("%d assignments of Location.Hosts / Prefixes / Name, all in the converter", n), strings.Join(uniq(bad), " || "), n)
}

// ruleBadgerCommits: the badger back end's Set and Delete go through a
// committing operation (DB.Update, Txn.Commit or WriteBatch.Flush) on every
// path that reports success: a buffered write that is never flushed reports
// success and changes nothing (a purge would leave the persisted record).
func ruleBadgerCommits(c *Ctx) {
	n := 0
	bad := []string{}
	for _, mname := range []string{"Set", "Delete"} {
		fn := c.P.Method("store", "badgerStore", mname)
		if fn == nil {
			c.undecided("store-commits", "badgerStore."+mname, "-", "not found")
			return
		}
		c.P.Simulate(fn, SimConfig{}, func(pr *PathResult) {
			if pr.Exit != "return" || len(pr.Results) == 0 {
				return
			}
			n++
			var commit *Event
			for _, e := range pr.Events {
				if e.Kind != "call" || e.Callee == nil || !strings.Contains(e.Callee.String(), "dgraph-io/badger") {
					continue
				}
				switch e.Callee.Name() {
				case "Update", "Commit", "Flush":
					if !e.Deferred && !e.InDefer {
						commit = e
					}
				}
			}
			res := pr.Results[len(pr.Results)-1]
			if commit == nil {
				if k, isNil := pr.Facts.Decide(eqTerm(res, nilTerm(res.Type))); res.IsNil() || !(k && !isNil) {
					bad = append(bad, fmt.Sprintf("%s may report success without a committing badger operation (DB.Update / Txn.Commit / WriteBatch.Flush): the change is buffered and dropped on path [%s]", funcName(fn), condString(pr.Conds)))
				}
				return
			}
			if !res.contains(func(x *Term) bool { return x.Key() == commit.Result.Key() }) {
				if k, isNil := pr.Facts.Decide(eqTerm(commit.Result, nilTerm(commit.Result.Type))); !(k && isNil) {
					bad = append(bad, fmt.Sprintf("%s does not return the error of its committing operation on path [%s]", funcName(fn), condString(pr.Conds)))
				}
			}
		})
	}
	if n == 0 {
		c.undecided("store-commits", "badgerStore", "-", "no returning path found")
		return
	}
	c.check(len(bad) == 0, "store-commits", "store.badgerStore", "store/badger.go", fmt.Sprintf("%d paths of Set / Delete: each goes through a committing operation whose error it returns", n), strings.Join(uniq(bad), " || "), n)
}

// reachingStores: the stores into cell (within the function of the load) that can be the last one before the
// load; complete is false when the load can be reached without any of them.
func reachingStores(cell ssa.Value, load ssa.Instruction) ([]*ssa.Store, bool) {
	var out []*ssa.Store
	complete := true
	seen := map[*ssa.BasicBlock]bool{}
	var scan func(b *ssa.BasicBlock, upto int)
	scan = func(b *ssa.BasicBlock, upto int) {
		for i := upto - 1; i >= 0; i-- {
			if st, ok := b.Instrs[i].(*ssa.Store); ok && st.Addr == cell {
				out = append(out, st)
				return
			}
		}
		if len(b.Preds) == 0 {
			complete = false
			return
		}
		for _, p := range b.Preds {
			if seen[p] {
				continue
			}
			seen[p] = true
			scan(p, len(p.Instrs))
		}
	}
	b := load.Block()
	idx := len(b.Instrs)
	for i, in := range b.Instrs {
		if in == load {
			idx = i
		}
	}
	scan(b, idx)
	return out, complete
}

// ruleFilterRoundTrip: a response saved without a content-type filter (nil: the
// default applies) is restored without one: the reader compiles the stored
// pattern only when it is not empty. (regexp.Compile("") matches everything.)
func ruleFilterRoundTrip(c *Ctx) {
	fn := c.P.Method("cache", "HTTPResponse", "FromBytes")
	if fn == nil {
		c.undecided("filter-roundtrip", "HTTPResponse.FromBytes", "-", "not found")
		return
	}
	n, compiled := 0, 0
	bad := []string{}
	sim := c.P.Simulate(fn, SimConfig{MaxVisits: 2}, func(pr *PathResult) {
		if pr.Exit != "return" || len(pr.Results) != 1 {
			return
		}
		if k, isNil := pr.Facts.Decide(eqTerm(pr.Results[0], nilTerm(nil))); !pr.Results[0].IsNil() && !(k && isNil) {
			return
		}
		n++
		for _, e := range pr.Events {
			if e.Kind != "call" || e.Callee == nil || !strings.HasPrefix(e.Callee.String(), "regexp.") || !strings.Contains(e.Callee.Name(), "Compile") || len(e.Args) == 0 {
				continue
			}
			compiled++
			pat := e.Args[0]
			f := factsAt(c.P, pr, e)
			k1, isEmpty := f.Decide(eqTerm(pat, strTerm("")))
			k2, lenZero := f.Decide(eqTerm(&Term{Op: "len", Type: tInt, Args: []*Term{stripConvTerm(pat)}}, intTerm(0)))
			if !((k1 && !isEmpty) || (k2 && !lenZero)) {
				bad = append(bad, fmt.Sprintf("%s: the stored filter pattern is compiled without having been found non-empty: an entry saved without a filter (the default applies) comes back with a filter that matches every content type, so the restored entry compresses what the live one did not", c.P.pos(e.Instr.Pos())))
			}
		}
	})
	if sim.Overflow || n == 0 {
		c.undecided("filter-roundtrip", funcName(fn), c.P.pos(fn.Pos()), "no successful decoding path found")
		return
	}
	c.check(len(bad) == 0, "filter-roundtrip", funcName(fn), c.P.pos(fn.Pos()), fmt.Sprintf("%d successful paths, %d compile the stored pattern, each only when it is not empty", n, compiled), strings.Join(uniq(bad), " || "), n)
}

// converterCopiedField: option fields that are plain copies of the configuration field of the same name.
var converterCopiedField = map[string]bool{"Name": true, "Size": true, "Store": true, "Addr": true, "Cache": true, "Compress": true, "Upstream": true,
	"Locations": true, "Prefixes": true, "Hosts": true, "Rewrites": true, "Policy": true, "Backup": true, "LogFormat": true, "HealthCheck": true, "AcceptEncoding": true, "EnableH2C": true}

// configDerived: v is read from a field of a configuration struct.
func configDerived(v ssa.Value, d int) bool {
	if d > 4 {
		return false
	}
	switch x := v.(type) {
	case *ssa.UnOp:
		return configDerived(x.X, d+1)
	case *ssa.FieldAddr:
		fv := faField(x)
		return fv.Pkg() != nil && fv.Pkg().Path() == pkgPath("config")
	case *ssa.Field:
		if st, ok := x.X.Type().Underlying().(*types.Struct); ok {
			fv := st.Field(x.Field)
			return fv.Pkg() != nil && fv.Pkg().Path() == pkgPath("config")
		}
	case *ssa.Convert:
		return configDerived(x.X, d+1)
	case *ssa.ChangeType:
		return configDerived(x.X, d+1)
	}
	return false
}

// ruleMiddlewareChain: the proxying server installs no library middleware that
// rewrites what pike decided (body, encoding, headers): besides pike's own
// handlers only elton's logger, error and fresh middlewares.
func ruleMiddlewareChain(c *Ctx) {
	fn := c.P.Method("server", "server", "Start")
	if fn == nil {
		c.undecided("middleware-chain", "server.Start", "-", "not found")
		return
	}
	allowed := map[string]bool{"NewLogger": true, "NewDefaultError": true, "NewError": true, "NewDefaultFresh": true, "NewFresh": true, "NewRecover": true, "NewStats": true}
	n := 0
	bad := []string{}
	var source func(v ssa.Value, d int) *ssa.Function
	source = func(v ssa.Value, d int) *ssa.Function {
		if d > 4 {
			return nil
		}
		switch x := v.(type) {
		case *ssa.Call:
			return x.Call.StaticCallee()
		case *ssa.ChangeType:
			return source(x.X, d+1)
		case *ssa.MakeInterface:
			return source(x.X, d+1)
		case *ssa.UnOp:
			// an element of the variadic list
			if ia, ok := x.X.(*ssa.IndexAddr); ok {
				for _, r := range *ia.Referrers() {
					if st, ok := r.(*ssa.Store); ok {
						return source(st.Val, d+1)
					}
				}
			}
		}
		return nil
	}
	for f := range staticScope(fn, "server", 3) {
		for _, b := range f.Blocks {
			for _, in := range b.Instrs {
				ci, ok := in.(ssa.CallInstruction)
				if !ok {
					continue
				}
				sc := ci.Common().StaticCallee()
				if sc == nil || sc.Name() != "Use" || sc.Signature.Recv() == nil || !strings.HasSuffix(sc.Signature.Recv().Type().String(), "elton.Elton") {
					continue
				}
				// the handlers: stored into the variadic slice, or into a slice built by appends
				var arrays []*ssa.Alloc
				var collect func(v ssa.Value, d int)
				collect = func(v ssa.Value, d int) {
					if d > 8 {
						return
					}
					switch x := v.(type) {
					case *ssa.Slice:
						if arr, ok := x.X.(*ssa.Alloc); ok {
							arrays = append(arrays, arr)
						} else {
							collect(x.X, d+1)
						}
					case *ssa.Phi:
						for _, e := range x.Edges {
							collect(e, d+1)
						}
					case *ssa.Call:
						if bi, ok := x.Call.Value.(*ssa.Builtin); ok && bi.Name() == "append" {
							for _, a := range x.Call.Args {
								collect(a, d+1)
							}
						}
					}
				}
				for _, a := range ci.Common().Args[1:] {
					collect(a, 0)
				}
				for _, arr := range arrays {
					for _, r := range *arr.Referrers() {
						ia, ok := r.(*ssa.IndexAddr)
						if !ok {
							continue
						}
						for _, rr := range *ia.Referrers() {
							st, ok := rr.(*ssa.Store)
							if !ok {
								continue
							}
							n++
							ctor := source(st.Val, 0)
							if ctor == nil || isPikeFunc(ctor) {
								continue
							}
							if ctor.Pkg != nil && strings.HasSuffix(ctor.Pkg.Pkg.Path(), "elton/middleware") && !allowed[ctor.Name()] {
								bad = append(bad, fmt.Sprintf("%s: the proxying server installs the library middleware %s: it post-processes the responses pike has negotiated (encoding, body or headers are no longer decided by pike's own rules)", c.P.pos(in.Pos()), ctor.Name()))
							}
						}
					}
				}
			}
		}
	}
	if n < 4 {
		c.undecided("middleware-chain", funcName(fn), c.P.pos(fn.Pos()), fmt.Sprintf("only %d middleware registrations found", n))
		return
	}
	c.check(len(bad) == 0, "middleware-chain", funcName(fn), c.P.pos(fn.Pos()), fmt.Sprintf("%d middlewares: pike's own plus elton's logger / error / fresh", n), strings.Join(uniq(bad), " || "), n)
}

// ruleMergeUnconditional: the location's configured headers are added next to
// what is there whatever is there: the merge never looks at the destination.
func ruleMergeUnconditional(c *Ctx) {
	roots := []*ssa.Function{c.P.Method("location", "Location", "AddRequestHeader"), c.P.Method("location", "Location", "AddResponseHeader")}
	n, adds := 0, 0
	bad := []string{}
	for _, root := range roots {
		if root == nil {
			c.undecided("merge-unconditional", "location.Location", "-", "AddRequestHeader / AddResponseHeader not found")
			return
		}
		for f := range staticScope(root, "location", 2) {
			// the destination: the header value Add is called on
			dsts := map[ssa.Value]bool{}
			for _, b := range f.Blocks {
				for _, in := range b.Instrs {
					if ci, ok := in.(ssa.CallInstruction); ok {
						if sc := ci.Common().StaticCallee(); sc != nil && sc.String() == "(net/http.Header).Add" {
							dsts[ci.Common().Args[0]] = true
							adds++
						}
					}
					// header.Add handed to a helper as a method value
					if mc, ok := in.(*ssa.MakeClosure); ok {
						if w, ok := mc.Fn.(*ssa.Function); ok && strings.HasPrefix(w.Synthetic, "bound method wrapper") && len(mc.Bindings) == 1 {
							if mo, ok := w.Object().(*types.Func); ok && mo.FullName() == "(net/http.Header).Add" {
								dsts[mc.Bindings[0]] = true
								adds++
							}
						}
					}
				}
			}
			for _, b := range f.Blocks {
				for _, in := range b.Instrs {
					switch x := in.(type) {
					case ssa.CallInstruction:
						sc := x.Common().StaticCallee()
						if sc == nil || !strings.HasPrefix(sc.String(), "(net/http.Header).") || len(x.Common().Args) == 0 || !dsts[x.Common().Args[0]] {
							continue
						}
						n++
						switch sc.Name() {
						case "Get", "Values":
							bad = append(bad, fmt.Sprintf("%s: %s reads the header it is adding to (%s): a configured header is then added or not depending on what the client / upstream sent", c.P.pos(in.Pos()), funcName(f), sc.Name()))
						case "Set", "Del":
							bad = append(bad, fmt.Sprintf("%s: %s calls %s on the header it is adding to", c.P.pos(in.Pos()), funcName(f), sc.Name()))
						}
					case *ssa.Lookup:
						if dsts[x.X] {
							n++
							bad = append(bad, fmt.Sprintf("%s: %s looks a key up in the header it is adding to", c.P.pos(in.Pos()), funcName(f)))
						}
					}
				}
			}
		}
	}
	if adds == 0 {
		c.undecided("merge-unconditional", "location.Location", "-", "no Header.Add found in the merge")
		return
	}
	c.check(len(bad) == 0, "merge-unconditional", "location.Location.mergeHeader", c.P.pos(roots[0].Pos()), fmt.Sprintf("%d operations on the destination header: Add only", n), strings.Join(uniq(bad), " || "), n)
}

// ruleMapDeleteVisitsAll: util.MapDelete (the prune step of every registry's
// reset) visits every key: its Range callback never returns false.
func ruleMapDeleteVisitsAll(c *Ctx) {
	fn := c.P.Func("util", "MapDelete")
	if fn == nil {
		c.undecided("map-delete-visits-all", "util.MapDelete", "-", "not found")
		return
	}
	n := 0
	bad := []string{}
	for _, lit := range fn.AnonFuncs {
		if lit.Signature.Results().Len() != 1 {
			continue
		}
		c.P.Simulate(lit, SimConfig{}, func(pr *PathResult) {
			if pr.Exit != "return" || len(pr.Results) != 1 {
				return
			}
			n++
			if !pr.Results[0].IsTrue() {
				bad = append(bad, "the Range callback can return "+prettyTerm(pr.Results[0])+" on path ["+condString(pr.Conds)+"]: the walk stops there, so when a reload removes several entries only some of them are deleted (the others keep running with their old configuration)")
			}
		})
	}
	if n == 0 {
		c.undecided("map-delete-visits-all", funcName(fn), c.P.pos(fn.Pos()), "Range callback not recognised")
		return
	}
	c.check(len(bad) == 0, "map-delete-visits-all", funcName(fn), c.P.pos(fn.Pos()), fmt.Sprintf("%d paths of the Range callback, all continue the walk", n), strings.Join(uniq(bad), " || "), n)
}

// rulePathValidator: a value accepted by the xURLPath validator (location
// prefixes, health-check paths) starts with '/': the consumers compare it with
// request URIs and hand it to the pool as a path.
func rulePathValidator(c *Ctx) {
	var lits []*ssa.Function
	for _, f := range c.P.allFuncs {
		if !inPkg(f, "config") {
			continue
		}
		for _, b := range f.Blocks {
			for _, in := range b.Instrs {
				call, ok := in.(*ssa.Call)
				if !ok || len(call.Call.Args) < 2 {
					continue
				}
				cst, ok := call.Call.Args[0].(*ssa.Const)
				if !ok {
					continue
				}
				if tag, _ := constTerm(cst.Value, cst.Type()).StrVal(); tag != "xURLPath" {
					continue
				}
				for _, a := range call.Call.Args[1:] {
					switch x := stripConv(a).(type) {
					case *ssa.MakeClosure:
						if lf, ok := x.Fn.(*ssa.Function); ok {
							lits = append(lits, lf)
						}
					case *ssa.Function:
						lits = append(lits, x)
					}
				}
			}
		}
	}
	if fnv := validatorTable(c.P)["xURLPath"]; fnv != nil {
		lits = append(lits, fnv)
	}
	if len(lits) == 0 {
		c.undecided("path-validator", "config.xURLPath", "-", "validator not found")
		return
	}
	n := 0
	bad := []string{}
	for _, lit := range lits {
		c.P.Simulate(lit, SimConfig{}, func(pr *PathResult) {
			if pr.Exit != "return" || len(pr.Results) != 1 {
				return
			}
			if pr.Results[0].IsFalse() {
				return
			}
			n++
			slash := false
			for _, l := range pr.Conds {
				at := l.Atom
				if l.Pol && at.Op == "call" && at.Fn != nil && at.Fn.String() == "strings.HasPrefix" && len(at.Args) == 2 {
					if v, ok := at.Args[1].StrVal(); ok && strings.HasPrefix(v, "/") {
						slash = true
					}
				}
				if l.Pol && at.Op == "eq" && len(at.Args) == 2 {
					for k := 0; k < 2; k++ {
						if v, ok := at.Args[k].IntVal(); ok && v == '/' && at.Args[1-k].Op == "idx" && isZeroInt(at.Args[1-k].Args[1]) {
							slash = true
						}
					}
				}
			}
			res := pr.Results[0]
			if !slash && res.contains(func(x *Term) bool {
				if x.Op == "eq" && len(x.Args) == 2 {
					for k := 0; k < 2; k++ {
						if v, ok := x.Args[k].IntVal(); ok && v == '/' && x.Args[1-k].Op == "idx" {
							return true
						}
					}
				}
				return x.Op == "call" && x.Fn != nil && x.Fn.String() == "strings.HasPrefix"
			}) {
				slash = true // `return value != "" && value[0] == '/'`: the result is the test itself
			}
			if !slash {
				bad = append(bad, "the validator can accept a value without having found that it starts with '/' (an absolute URI or '*' passes, is saved, and then never matches a request URI) on path ["+condString(pr.Conds)+"]")
			}
		})
	}
	if n == 0 {
		c.undecided("path-validator", "config.xURLPath", c.P.pos(lits[0].Pos()), "no accepting path found")
		return
	}
	c.check(len(bad) == 0, "path-validator", "config.xURLPath", c.P.pos(lits[0].Pos()), fmt.Sprintf("%d accepting paths, each has established a leading '/'", n), strings.Join(uniq(bad), " || "), n)
}

// ruleShardStateless: choosing the shard of a key (hashing it) uses no mutable
// package-level state: the choice is made before the shard lock is taken, by
// many requests at once.
func ruleShardStateless(c *Ctx) {
	root := c.P.Method("cache", "dispatcher", "getLRU")
	if root == nil {
		c.undecided("shard-stateless", "dispatcher.getLRU", "-", "not found")
		return
	}
	n := 0
	bad := []string{}
	for f := range staticScope(root, "cache", 4) {
		n++
		for _, b := range f.Blocks {
			for _, in := range b.Instrs {
				var ops [8]*ssa.Value
				for _, op := range in.Operands(ops[:0]) {
					g, ok := (*op).(*ssa.Global)
					if !ok || g.Pkg == nil || !strings.HasPrefix(g.Pkg.Pkg.Path(), pkgPath("")) {
						continue
					}
					if isErrorType(derefType(g.Type())) || c.P.constAggregate(g.Object()) != nil {
						continue
					}
					if ld, isLoad := in.(*ssa.UnOp); isLoad && ld.Op == token.MUL && !writtenOutsideInit(c.P, g) {
						// a variable assigned once at start-up: fine unless it is an object with internal state
						if _, isIface := derefType(g.Type()).Underlying().(*types.Interface); !isIface {
							if _, isPtr := derefType(g.Type()).Underlying().(*types.Pointer); !isPtr {
								continue
							}
						}
					}
					bad = append(bad, fmt.Sprintf("%s: %s uses the package-level variable %s while choosing a key's shard: concurrent lookups share its state with no lock, so a key can be sent to the wrong shard (a second entry, and a second fetch, for the same key)", c.P.pos(in.Pos()), funcName(f), g.Name()))
				}
			}
		}
	}
	c.check(len(bad) == 0, "shard-stateless", funcName(root), c.P.pos(root.Pos()), fmt.Sprintf("%d functions on the way to the shard index use no shared mutable state", n), strings.Join(uniq(bad), " || "), n)
}

// ruleStoreCtorNilOnError: a store constructor hands out a store only together
// with a nil error (the dispatcher keeps any non-nil store it is given).
func ruleStoreCtorNilOnError(c *Ctx) {
	n := 0
	bad := []string{}
	for _, f := range c.P.allFuncs {
		if !inPkg(f, "store") || f.Parent() != nil || f.Signature.Results().Len() != 2 {
			continue
		}
		res := f.Signature.Results()
		if !isErrorType(res.At(1).Type()) || !strings.HasSuffix(res.At(0).Type().String(), "store.Store") && !strings.Contains(res.At(0).Type().String(), "Store") {
			continue
		}
		c.P.Simulate(f, SimConfig{}, func(pr *PathResult) {
			if pr.Exit != "return" || len(pr.Results) != 2 {
				return
			}
			n++
			st, err := pr.Results[0], pr.Results[1]
			if st.IsNil() || err.IsNil() {
				return
			}
			if k, isNil := pr.Facts.Decide(eqTerm(err, nilTerm(nil))); k && isNil {
				return
			}
			if k, isNil := pr.Facts.Decide(eqTerm(st, nilTerm(st.Type))); k && isNil {
				return
			}
			// both handed through from one call (NewStore returning newXStore's pair)
			if st.Op == "ext" && err.Op == "ext" && len(st.Args) == 1 && len(err.Args) == 1 && st.Args[0].Key() == err.Args[0].Key() {
				return
			}
			bad = append(bad, fmt.Sprintf("%s can return a store together with a possibly non-nil error on path [%s]: the dispatcher logs the error and keeps the half-built store, and the first lookup panics inside the entry lock", funcName(f), condString(pr.Conds)))
		})
	}
	if n < 4 {
		c.undecided("store-ctor-nil-on-error", "store", "-", fmt.Sprintf("only %d constructor paths found", n))
		return
	}
	c.check(len(bad) == 0, "store-ctor-nil-on-error", "store", "store/store.go", fmt.Sprintf("%d return paths of the store constructors: a store only with a nil error", n), strings.Join(uniq(bad), " || "), n)
}

// ruleGetVisitsAll: Locations.Get gives up (returns nil) only after the whole
// sorted list was visited.
func ruleGetVisitsAll(c *Ctx) {
	fn := c.P.Method("location", "Locations", "Get")
	if fn == nil {
		c.undecided("get-visits-all", "Locations.Get", "-", "not found")
		return
	}
	n := 0
	bad := []string{}
	for f := range staticScope(fn, "location", 2) {
		if f != fn && !isHelper(f) {
			continue
		}
		done := map[*ssa.BasicBlock]bool{}
		for _, b := range f.Blocks {
			if done[b] {
				continue
			}
			scc := cycleOf(b)
			if scc == nil {
				continue
			}
			var header *ssa.BasicBlock
			for x := range scc {
				done[x] = true
				for _, p := range x.Preds {
					if !scc[p] {
						header = x
					}
				}
			}
			for x := range scc {
				for _, y := range x.Succs {
					if scc[y] || x == header {
						continue
					}
					n++
					ret, isRet := y.Instrs[len(y.Instrs)-1].(*ssa.Return)
					if isRet && len(ret.Results) == 1 {
						if k, ok := ret.Results[0].(*ssa.Const); !ok || !k.IsNil() {
							continue // leaves with what it found
						}
						if _, isBool := ret.Results[0].Type().Underlying().(*types.Basic); isBool {
							continue
						}
					}
					bad = append(bad, fmt.Sprintf("%s: %s leaves the walk over the sorted list early without a match: a listed, matching location further down is never looked at and the request is answered 503", c.P.pos(x.Instrs[len(x.Instrs)-1].Pos()), funcName(f)))
				}
			}
		}
	}
	c.check(len(bad) == 0, "get-visits-all", funcName(fn), c.P.pos(fn.Pos()), fmt.Sprintf("%d exits from inside the walk, each with a match", n), strings.Join(uniq(bad), " || "), n+1)
}

// ruleWildcardGroup: the capture group a rewrite wildcard is turned into
// matches the empty remainder too ("/api/*" applies to "/api/").
func ruleWildcardGroup(c *Ctx) {
	fn := c.P.Func("location", "generateURLRewriter")
	if fn == nil {
		c.undecided("wildcard-group", "location.generateURLRewriter", "-", "not found")
		return
	}
	n := 0
	bad := []string{}
	for f := range staticScope(fn, "location", 2) {
		for _, b := range f.Blocks {
			for _, in := range b.Instrs {
				call, ok := in.(*ssa.Call)
				if !ok {
					continue
				}
				sc := call.Call.StaticCallee()
				if sc == nil || (sc.String() != "strings.Replace" && sc.String() != "strings.ReplaceAll") {
					continue
				}
				from, ok1 := call.Call.Args[1].(*ssa.Const)
				to, ok2 := call.Call.Args[2].(*ssa.Const)
				if !ok1 || !ok2 {
					continue
				}
				fs, _ := constTerm(from.Value, from.Type()).StrVal()
				ts, _ := constTerm(to.Value, to.Type()).StrVal()
				if fs != "*" {
					continue
				}
				n++
				re, err := regexp.Compile("^" + ts + "$")
				switch {
				case err != nil:
					bad = append(bad, fmt.Sprintf("%s: the wildcard is replaced by %q, which is not a valid pattern", c.P.pos(call.Pos()), ts))
				case re.NumSubexp() != 1:
					bad = append(bad, fmt.Sprintf("%s: the wildcard is replaced by %q, which is not one capture group", c.P.pos(call.Pos()), ts))
				case !re.MatchString(""):
					bad = append(bad, fmt.Sprintf("%s: the wildcard is replaced by %q, which does not match an empty remainder: \"/api/*\" no longer applies to \"/api/\" and the upstream gets the unrewritten path", c.P.pos(call.Pos()), ts))
				case !re.MatchString("a/b.c-d"):
					bad = append(bad, fmt.Sprintf("%s: the wildcard is replaced by %q, which does not match an ordinary path remainder", c.P.pos(call.Pos()), ts))
				}
			}
		}
	}
	if n == 0 {
		c.undecided("wildcard-group", funcName(fn), c.P.pos(fn.Pos()), "no replacement of '*' by a constant found")
		return
	}
	c.check(len(bad) == 0, "wildcard-group", funcName(fn), c.P.pos(fn.Pos()), fmt.Sprintf("%d wildcard replacements: one capture group that also matches the empty remainder", n), strings.Join(uniq(bad), " || "), n)
}
