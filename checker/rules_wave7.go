package main

// Rules added in answer to the fifth held-out round of seeded changes.

import (
	"fmt"
	"go/types"
	"strings"

	"golang.org/x/tools/go/ssa"
)

// ruleStoreRegistryKey: the process-wide registry of persistent stores is keyed
// by the store URL exactly as configured (the query string carries the options
// that keep caches apart: prefix=, db=).
func ruleStoreRegistryKey(c *Ctx) {
	n := 0
	bad := []string{}
	for _, nm := range []string{"NewStore", "GetStore"} {
		fn := c.P.Func("store", nm)
		if fn == nil || len(fn.Params) == 0 {
			c.undecided("store-registry-key", "store."+nm, "-", "not found")
			return
		}
		param := "p:" + fn.Params[0].Name()
		c.P.Simulate(fn, SimConfig{Inline: func(callee *ssa.Function, d int) bool { return inPkg(callee, "store") && isHelper(callee) && d < 3 }}, func(pr *PathResult) {
			for _, e := range pr.Events {
				if e.Kind != "call" || e.Callee == nil || !strings.HasPrefix(e.Callee.String(), "(*sync.Map).") {
					continue
				}
				switch e.Callee.Name() {
				case "Range":
					bad = append(bad, fmt.Sprintf("store.%s searches the registry with Range instead of looking the URL up: whatever test the callback applies (a prefix, say) lets caches with different URLs end up sharing one store", nm))
				case "Load", "Store", "LoadOrStore", "Delete", "LoadAndDelete":
					n++
					k := e.Args[1].strip()
					if !(k.Op == "sym" && k.Name == param) {
						bad = append(bad, fmt.Sprintf("store.%s addresses the registry by %s, not by the store URL as given: caches whose URLs differ (e.g. only in prefix= or db=) end up sharing one store", nm, prettyTerm(k)))
					}
				}
			}
		})
	}
	if n < 2 {
		c.undecided("store-registry-key", "store", "-", fmt.Sprintf("only %d registry accesses found", n))
		return
	}
	c.check(len(bad) == 0, "store-registry-key", "store", "store/store.go", fmt.Sprintf("%d registry accesses, all keyed by the URL parameter itself", n), strings.Join(uniq(bad), " || "), n)
}

// ruleRewriteSource: the path rewriter works on the decoded path field it writes
// back to (URL.Path in, URL.Path out); an escaped or full form written into Path
// is escaped a second time when the request is sent on.
func ruleRewriteSource(c *Ctx) {
	gen := c.P.Func("location", "generateURLRewriter")
	if gen == nil {
		c.undecided("rewrite-source", "location.generateURLRewriter", "-", "not found")
		return
	}
	n := 0
	bad := []string{}
	readsPath := false
	scope := staticScope(gen, "location", 2)
	for _, rf := range returnedFuncs(gen) {
		for f := range staticScope(rf, "location", 2) {
			scope[f] = true
		}
	}
	for f := range scope {
		for _, b := range f.Blocks {
			for _, in := range b.Instrs {
				switch x := in.(type) {
				case ssa.CallInstruction:
					sc := x.Common().StaticCallee()
					if sc == nil || !strings.HasPrefix(sc.String(), "(*net/url.URL).") {
						continue
					}
					n++
					switch sc.Name() {
					case "EscapedPath", "RequestURI", "String":
						bad = append(bad, fmt.Sprintf("%s: %s feeds the rewriter with URL.%s(): the result (still percent-encoded / with the query) is written into URL.Path and escaped again on the way to the upstream", c.P.pos(in.Pos()), funcName(f), sc.Name()))
					}
				case *ssa.UnOp:
					if fa, ok := x.X.(*ssa.FieldAddr); ok && faField(fa).Name() == "Path" {
						readsPath = true
						n++
					}
				}
			}
		}
	}
	if !readsPath {
		bad = append(bad, "the rewriter does not read URL.Path")
	}
	c.check(len(bad) == 0, "rewrite-source", funcName(gen), c.P.pos(gen.Pos()), "the rewriter reads and writes URL.Path only", strings.Join(uniq(bad), " || "), n)
}

// ruleDestroyOnlyStops: retiring a replaced upstream instance stops its health
// checker and nothing else; it does not change the state of the instance's
// servers (requests that resolved the instance before the reload still go
// through it).
func ruleDestroyOnlyStops(c *Ctx) {
	fn := c.P.Method("upstream", "upstreamServer", "Destroy")
	if fn == nil {
		c.undecided("destroy-only-stops", "upstreamServer.Destroy", "-", "not found")
		return
	}
	n := 0
	bad := []string{}
	stops := false
	for f := range staticScope(fn, "upstream", 2) {
		for _, b := range f.Blocks {
			for _, in := range b.Instrs {
				ci, ok := in.(ssa.CallInstruction)
				if !ok {
					continue
				}
				sc := ci.Common().StaticCallee()
				if sc == nil || sc.Pkg == nil || sc.Pkg.Pkg.Path() != "github.com/vicanso/upstream" {
					continue
				}
				n++
				switch sc.Name() {
				case "StopHealthCheck":
					stops = true
				case "GetUpstreamList", "GetAvailableUpstreamList":
				default:
					bad = append(bad, fmt.Sprintf("%s: Destroy calls %s on the retired pool: requests already routed to this instance lose their servers (errors during a reload)", c.P.pos(in.Pos()), sc.Name()))
				}
			}
		}
	}
	if !stops {
		bad = append(bad, "Destroy does not stop the health checker")
	}
	c.check(len(bad) == 0, "destroy-only-stops", funcName(fn), c.P.pos(fn.Pos()), fmt.Sprintf("%d calls into the pool: only the health checker is stopped", n), strings.Join(uniq(bad), " || "), n)
}

// ruleNoWaitUnderLock: pike never waits for in-flight requests to finish
// (http.Server.Shutdown, WaitGroup.Wait) while holding one of its own locks: the
// requests being waited for take those locks on their way out.
func ruleNoWaitUnderLock(c *Ctx) {
	waits := map[string]bool{"(*net/http.Server).Shutdown": true, "(*sync.WaitGroup).Wait": true}
	n := 0
	bad := []string{}
	for _, f := range c.P.allFuncs {
		if f.Parent() != nil {
			continue
		}
		has := false
		for g := range staticScope(f, strings.TrimPrefix(strings.TrimPrefix(fnPkgPath(f), pikeMod), "/"), 1) {
			for _, b := range g.Blocks {
				for _, in := range b.Instrs {
					if ci, ok := in.(ssa.CallInstruction); ok {
						if sc := ci.Common().StaticCallee(); sc != nil && waits[sc.String()] {
							has = true
						}
					}
				}
			}
		}
		if !has {
			continue
		}
		c.P.Simulate(f, SimConfig{MaxVisits: 2}, func(pr *PathResult) {
			held := 0
			for _, e := range pr.Events {
				switch {
				case e.calleeIs("(*sync.Mutex).Lock", "(*sync.RWMutex).Lock", "(*sync.RWMutex).RLock"):
					held++
				case e.calleeIs("(*sync.Mutex).Unlock", "(*sync.RWMutex).Unlock", "(*sync.RWMutex).RUnlock"):
					if held > 0 {
						held--
					}
				case e.Kind == "call" && e.Callee != nil && waits[e.Callee.String()] && !e.Deferred:
					n++
					if held > 0 {
						bad = append(bad, fmt.Sprintf("%s: %s waits for in-flight work (%s) while holding a lock that the requests it waits for still need: they block each other forever", c.P.pos(e.Instr.Pos()), funcName(f), e.Callee.Name()))
					}
				}
			}
		})
	}
	// the request handlers: no lock of pike's own is held while the request is parked behind another request's
	// fetch or is at the upstream (a writer waiting for that lock, a reload, stalls every other request)
	var getFn *ssa.Function
	if gm := c.P.Method("cache", "httpCache", "Get"); gm != nil {
		getFn = gm
	}
	for _, f := range c.P.allFuncs {
		if !inPkg(f, "server") || len(f.Params) == 0 || f.Parent() == nil {
			continue
		}
		if !strings.HasSuffix(f.Params[len(f.Params)-1].Type().String(), "elton.Context") {
			continue
		}
		top := f
		for top.Parent() != nil {
			top = top.Parent()
		}
		if top.Name() != "NewCache" && top.Name() != "NewProxy" && top.Name() != "NewResponder" {
			continue
		}
		c.P.Simulate(f, SimConfig{MaxVisits: 2}, func(pr *PathResult) {
			held := 0
			for _, e := range pr.Events {
				if e.Deferred || e.InDefer {
					continue
				}
				switch {
				case e.calleeIs("(*sync.Mutex).Lock", "(*sync.RWMutex).Lock", "(*sync.RWMutex).RLock") && e.Depth == 0:
					held++
				case e.calleeIs("(*sync.Mutex).Unlock", "(*sync.RWMutex).Unlock", "(*sync.RWMutex).RUnlock") && e.Depth == 0:
					if held > 0 {
						held--
					}
				case e.Kind == "call" && e.Callee != nil && e.Callee == getFn, isFieldCall(e, "Next"), isFieldCall(e, "Proxy"):
					n++
					if held > 0 {
						what := "the upstream call / next handler"
						if e.Callee == getFn {
							what = "the lookup that parks a coalesced request"
						}
						bad = append(bad, fmt.Sprintf("%s: %s holds a lock across %s: a configuration reload waiting for that lock blocks every new request behind the slowest one (and a parked request never lets the fetcher finish)", c.P.pos(e.Instr.Pos()), funcName(f), what))
					}
				}
			}
		})
	}
	c.check(len(bad) == 0, "no-wait-under-lock", "pike", "-", fmt.Sprintf("%d waits for in-flight work found, none under a lock", n), strings.Join(uniq(bad), " || "), n+1)
}

func fnPkgPath(f *ssa.Function) string {
	if p := fnPkg(f); p != nil {
		return p.Path()
	}
	return ""
}

// ruleResultBeforeError: in decoder code, a value returned together with an error
// is not used as a method receiver on a path where that error is known to be
// non-nil (a deferred r.Close() registered before the error check of
// gzip.NewReader runs with a nil reader and panics on a damaged header).
func ruleResultBeforeError(c *Ctx, pkgs map[string]bool) {
	roots := decoderRoots(c.P, pkgs)
	if len(roots) < 4 {
		c.undecided("result-before-error", "decoders", "-", fmt.Sprintf("only %d decoder functions found", len(roots)))
		return
	}
	n := 0
	bad := []string{}
	for _, fn := range roots {
		c.P.Simulate(fn, SimConfig{MaxVisits: 2, Inline: orHelpers(fn, inlineNested(fn))}, func(pr *PathResult) {
			for _, e := range pr.Events {
				if (e.Kind != "call" && e.Kind != "invoke") || len(e.Args) == 0 {
					continue
				}
				recv := e.Args[0].strip()
				if !(recv.Op == "ext" && recv.Name == "0" && len(recv.Args) == 1 && recv.Args[0].Op == "call") {
					continue
				}
				if e.Callee != nil && e.Callee.Signature.Recv() == nil && e.Kind == "call" {
					continue // passed as an argument, not used as a receiver
				}
				n++
				errT := ext(recv.Args[0], 1)
				f := pr.Facts
				if !e.InDefer {
					f = factsAt(c.P, pr, e)
				}
				if k, isNil := f.Decide(eqTerm(errT, nilTerm(nil))); k && !isNil {
					bad = append(bad, fmt.Sprintf("%s: %s calls %s on the value returned by %s on a path where that call reported an error (the value is nil there: the decoder panics instead of returning the error)", c.P.pos(e.Instr.Pos()), funcName(fn), e.CalleeName(), recv.Args[0].Name))
				}
			}
		})
	}
	c.check(len(bad) == 0, "result-before-error", "decoders", "-", fmt.Sprintf("%d decoder functions, %d method calls on (value, error) results: none on a path where the error is set", len(roots), n), strings.Join(uniq(bad), " || "), n+1)
}

// ruleCompletionNoNilDeref: the completions (also on their store-failure paths)
// never read through the entry's response pointer unless it is known to be set:
// a hit-for-pass marker has no response.
func ruleCompletionNoNilDeref(c *Ctx, a *cacheAnchors) {
	n := 0
	bad := []string{}
	for _, fn := range a.completions {
		if fn == nil {
			continue
		}
		c.P.Simulate(fn, SimConfig{Inline: inlineCache, DerefEvents: true, MaxVisits: 2}, func(pr *PathResult) {
			for _, e := range pr.Events {
				if e.Kind != "deref" {
					continue
				}
				base := e.Args[0]
				if !(base.Op == "init" && len(base.Args) == 1 && isFieldAddr(base.Args[0], a.fResponse)) {
					continue
				}
				n++
				f := factsAt(c.P, pr, e)
				if k, isNil := f.Decide(eqTerm(base, nilTerm(base.Type))); !(k && !isNil) {
					bad = append(bad, fmt.Sprintf("%s: %s reads a field of the entry's response without it being known non-nil (a hit-for-pass marker has none: the completion panics, on this path [%s])", c.P.pos(e.Instr.Pos()), funcName(fn), condString(pr.Conds)))
				}
			}
		})
	}
	c.check(len(bad) == 0, "completion-no-nil-deref", "cache.httpCache", "cache/http_cache.go", fmt.Sprintf("%d reads through the entry's response pointer in the completions, all guarded", n), strings.Join(uniq(bad), " || "), n+1)
}

var _ = types.Typ

// rulePeriodUnits: the hit-for-pass period the dispatcher keeps is a number of
// seconds: the option's value as given, or a small constant; never a
// time.Duration (nanoseconds) squeezed into the int.
func rulePeriodUnits(c *Ctx) {
	fn := c.P.Func("cache", "NewDispatcher")
	fld := c.P.StructField("cache", "dispatcher", "hitForPass")
	if fn == nil {
		c.undecided("period-units", "cache.NewDispatcher", "-", "not found")
		return
	}
	n := 0
	bad := []string{}
	c.P.Simulate(fn, SimConfig{}, func(pr *PathResult) {
		for _, e := range pr.Events {
			if e.Kind != "store" || e.Addr.Op != "fa" {
				continue
			}
			fv, ok := e.Addr.Obj.(*types.Var)
			if !ok || !isIntType(fv.Type()) {
				continue
			}
			if fld != nil && fv != fld {
				continue
			}
			if fld == nil && !strings.Contains(strings.ToLower(fv.Name()), "pass") {
				continue
			}
			n++
			v := e.Val
			if k, ok := v.IntVal(); ok && k > 366*24*3600 {
				bad = append(bad, fmt.Sprintf("the dispatcher's %s is set to the constant %d: a duration in nanoseconds stored where seconds are expected (the period never ends)", fv.Name(), k))
			}
			if v.contains(func(x *Term) bool {
				if x.Type == nil {
					return false
				}
				nt, ok := x.Type.(*types.Named)
				return ok && nt.Obj().Pkg() != nil && nt.Obj().Pkg().Path() == "time" && nt.Obj().Name() == "Duration"
			}) {
				bad = append(bad, "the dispatcher's "+fv.Name()+" is computed from a time.Duration ("+prettyTerm(v)+"): nanoseconds stored where seconds are expected")
			}
		}
	})
	if n == 0 {
		c.undecided("period-units", funcName(fn), c.P.pos(fn.Pos()), "no store of the hit-for-pass period found")
		return
	}
	c.check(len(bad) == 0, "period-units", funcName(fn), c.P.pos(fn.Pos()), fmt.Sprintf("%d stores of the period: the option's seconds as given", n), strings.Join(uniq(bad), " || "), n)
}

// ruleRewriteChain: a location's rewrite rules are applied in sequence: each
// rule is matched against the path the previous rules produced, and the last
// result is what the request gets.
func ruleRewriteChain(c *Ctx) {
	gen := c.P.Func("location", "generateURLRewriter")
	if gen == nil {
		c.undecided("rewrite-chain", "location.generateURLRewriter", "-", "not found")
		return
	}
	var lit *ssa.Function
	for _, af := range returnedFuncs(gen) {
		if np := len(af.Params); np >= 1 && strings.HasSuffix(af.Params[np-1].Type().String(), "net/http.Request") {
			lit = af
		}
	}
	if lit == nil {
		c.undecided("rewrite-chain", funcName(gen), c.P.pos(gen.Pos()), "the rewriter closure was not recognised")
		return
	}
	isRegexp := func(t *Term) bool {
		return t != nil && t.Type != nil && strings.HasSuffix(t.Type.String(), "regexp.Regexp")
	}
	n, chained, written := 0, 0, 0
	bad, verb := []string{}, []string{}
	sim := c.P.Simulate(lit, SimConfig{MaxVisits: 3}, func(pr *PathResult) {
		n++
		var prevIn *Term     // the path the previous rule was matched against
		var produced []*Term // strings produced since then
		everProduced := map[string]bool{}
		for _, e := range pr.Events {
			if e.Kind == "store" && e.Addr != nil && e.Addr.Op == "fa" && e.Addr.Name == "Path" && e.Val != nil {
				// what is written back is the last rule's result (or the path as it came), nothing applied on top
				written++
				v := stripConvTerm(e.Val)
				if !(v.Op == "init" || everProduced[v.Key()] || (v.Op == "sym" && strings.HasPrefix(v.Name, "widen:"))) {
					verb = append(verb, fmt.Sprintf("%s: the path written back is %s, not the result of the rules as it stands: the upstream receives a path changed by more than the configured rewrite (a cleaned path loses its trailing slash and doubled slashes)", c.P.pos(e.Instr.Pos()), prettyTerm(v)))
				}
				continue
			}
			if e.Kind != "call" && e.Kind != "invoke" {
				continue
			}
			var in *Term
			hasRe := false
			for _, a := range e.Args {
				if isRegexp(a) {
					hasRe = true
				} else if a != nil && isStringType(a.Type) && in == nil {
					in = a
				}
			}
			if hasRe && in != nil {
				if prevIn != nil {
					chained++
					switch {
					case produced != nil && !in.contains(func(x *Term) bool {
						for _, pt := range produced {
							if x.Key() == pt.Key() {
								return true
							}
						}
						return false
					}):
						bad = append(bad, fmt.Sprintf("%s: a rule is matched against %s although the previous rule produced %s: the rules are not chained (a later rule never sees the earlier rule's result)", c.P.pos(e.Instr.Pos()), prettyTerm(in), prettyTerm(produced[len(produced)-1])))
					case produced == nil && in.Key() != prevIn.Key():
						bad = append(bad, fmt.Sprintf("%s: a rule is matched against %s although the previous rule, which did not apply, was matched against %s", c.P.pos(e.Instr.Pos()), prettyTerm(in), prettyTerm(prevIn)))
					}
				}
				prevIn, produced = in, nil
				continue
			}
			if prevIn != nil && e.Result != nil && isStringType(e.Result.Type) {
				produced = append(produced, e.Result)
				everProduced[e.Result.Key()] = true
			}
		}
	})
	if sim.Overflow || chained == 0 {
		c.undecided("rewrite-chain", funcName(lit), c.P.pos(lit.Pos()), "no path applies two rules in sequence: idiom not recognised")
		return
	}
	c.check(len(bad) == 0, "rewrite-chain", funcName(lit), c.P.pos(lit.Pos()), fmt.Sprintf("%d paths, %d successive rule applications: each rule is matched against the previous rule's result", n, chained), strings.Join(uniq(bad), " || "), chained)
	if written == 0 {
		c.undecided("rewrite-result-verbatim", funcName(lit), c.P.pos(lit.Pos()), "no store to the request's path found")
		return
	}
	c.check(len(verb) == 0, "rewrite-result-verbatim", funcName(lit), c.P.pos(lit.Pos()), fmt.Sprintf("%d writes of the request path: each writes the rules' result (or the path as it came) unchanged", written), strings.Join(uniq(verb), " || "), written)
}

// returnedFuncs: the pike functions a constructor hands out as a function value:
// a literal, a named function, or the method behind a bound method value.
func returnedFuncs(fn *ssa.Function) []*ssa.Function {
	out := []*ssa.Function{}
	var resolve func(v ssa.Value, d int)
	resolve = func(v ssa.Value, d int) {
		if d > 4 {
			return
		}
		switch x := v.(type) {
		case *ssa.MakeClosure:
			f, _ := x.Fn.(*ssa.Function)
			if f == nil {
				return
			}
			if strings.HasPrefix(f.Synthetic, "bound method wrapper") {
				for _, b := range f.Blocks {
					for _, in := range b.Instrs {
						if ci, ok := in.(ssa.CallInstruction); ok {
							if sc := ci.Common().StaticCallee(); sc != nil && isPikeFunc(sc) {
								out = append(out, sc)
							}
						}
					}
				}
				return
			}
			out = append(out, f)
		case *ssa.Function:
			out = append(out, x)
		case *ssa.ChangeType:
			resolve(x.X, d+1)
		case *ssa.MakeInterface:
			resolve(x.X, d+1)
		case *ssa.Phi:
			for _, e := range x.Edges {
				resolve(e, d+1)
			}
		}
	}
	for _, b := range fn.Blocks {
		for _, in := range b.Instrs {
			if r, ok := in.(*ssa.Return); ok {
				for _, v := range r.Results {
					resolve(v, 0)
				}
			}
		}
	}
	return out
}
