package main

// Rules over the persistence format (cache.httpCache / cache.HTTPResponse
// Bytes/FromBytes and the readers in cache/cache.go): writer/reader layout
// agreement, bounded reads, short-read detection, freshness of encoded records.

import (
	"fmt"
	"go/token"
	"go/types"
	"strings"

	"golang.org/x/tools/go/ssa"
)

type layoutElem struct {
	Kind  string // U32 U64 U32LEN BYTES
	Field string
}

func (e layoutElem) String() string { return e.Kind + "(" + e.Field + ")" }

// rootField: the receiver field a term is derived from.
func rootField(t *Term, recv *Term) string {
	name := ""
	t.walk(func(x *Term) bool {
		if name != "" {
			return false
		}
		if x.Op == "init" && x.Args[0].Op == "fa" && x.Args[0].Args[0].Key() == recv.Key() {
			name = x.Args[0].Name
			return false
		}
		return true
	})
	return name
}

func writerLayout(p *Program, fn *ssa.Function) ([]layoutElem, string, []string) {
	var best []layoutElem
	bestRes := ""
	notes := []string{}
	allSeqs := []string{}
	p.Simulate(fn, SimConfig{}, func(pr *PathResult) {
		if pr.Exit != "return" || len(pr.Results) != 2 || !pr.Results[1].IsNil() {
			return
		}
		res := pr.Results[0]
		recv := &Term{Op: "sym", Name: "p:" + fn.Params[0].Name(), Type: fn.Params[0].Type()}
		elems := map[int64]*Term{}
		if base, parts, isChain := appendChain(res); isChain {
			// append(append(make([]byte, 0, n), a...), b...): the parts in order
			if !(base.IsNil() || (base.Op == "make" && len(base.Args) > 0 && isZeroInt(base.Args[0]))) {
				bestRes = "result is appended onto " + prettyTerm(base)
				return
			}
			for i, pt := range parts {
				elems[int64(i)] = pt
			}
		} else if res.Op == "call" && res.Fn != nil && res.Fn.String() == "(*bytes.Buffer).Bytes" && len(res.Args) == 1 {
			// sequential writes into a buffer created empty in this call
			B := res.Args[0].strip()
			emptyAtStart := B.Op == "alloc"
			if B.Op == "call" && B.Fn != nil && B.Fn.String() == "bytes.NewBuffer" && len(B.Args) == 1 {
				a := stripConvTerm(B.Args[0])
				emptyAtStart = a.IsNil() || (a.Op == "make" && len(a.Args) > 0 && isZeroInt(a.Args[0]))
			}
			if !emptyAtStart {
				bestRes = "result is written onto " + prettyTerm(B)
				return
			}
			i := int64(0)
			for _, ev := range pr.Events {
				if ev.Kind == "call" && ev.Callee != nil && strings.HasPrefix(ev.Callee.String(), "(*bytes.Buffer).") && len(ev.Args) > 0 && ev.Args[0].strip().Key() == B.Key() {
					switch ev.Callee.Name() {
					case "Write":
						elems[i] = ev.Args[1]
						i++
					case "Bytes", "Len", "Grow", "Cap":
					default:
						bestRes = "the buffer is also changed by " + ev.Callee.Name()
						return
					}
				}
			}
		} else {
			if !(res.Op == "call" && res.Fn != nil && res.Fn.String() == "bytes.Join") {
				bestRes = "result is " + prettyTerm(res)
				return
			}
			sl := res.Args[0]
			if sl.Op != "slice" || sl.Args[0].Op != "alloc" {
				return
			}
			if sep, ok := stripConvTerm(res.Args[1]).StrVal(); !stripConvTerm(res.Args[1]).IsNil() && (!ok || sep != "") {
				notes = append(notes, "the elements are joined with a non-empty separator")
			}
			for k, loc := range pr.State.heapLoc {
				if loc.Op == "ia" && loc.Args[0].Key() == sl.Args[0].Key() {
					if i, ok := loc.Args[1].IntVal(); ok {
						elems[i] = pr.State.heap[k]
					}
				}
			}
		}
		// a field handed to a marshaller goes in as it stands
		for _, ev := range pr.Events {
			if ev.Kind == "call" && ev.Callee != nil && ev.Callee.Name() == "Marshal" && len(ev.Args) > 0 {
				a := stripConvTerm(ev.Args[0].strip())
				if !verbatimField(a, recv) {
					notes = append(notes, "the value marshalled into the record is computed ("+prettyTerm(a)+"), not the entry's field as it stands: what is decoded differs from what was encoded")
				}
			}
		}
		out := []layoutElem{}
		lens := map[string]string{} // key of T -> field, for U32LEN(T)
		for i := int64(0); i < int64(len(elems)); i++ {
			e := elems[i]
			if e == nil {
				return
			}
			// a fixed-width field written through encoding/binary into a local array
			if e.Op == "slice" && len(e.Args) > 0 && e.Args[0].Op == "alloc" {
				for _, ev := range pr.Events {
					if ev.Kind != "call" || ev.Callee == nil || !strings.HasPrefix(ev.Callee.String(), "(encoding/binary.bigEndian).PutUint") || len(ev.Args) < 3 {
						continue
					}
					if sliceBase(ev.Args[1]).Key() != e.Args[0].Key() {
						continue
					}
					fnName := "uint32ToBytes"
					if strings.HasSuffix(ev.Callee.Name(), "64") {
						fnName = "uint64ToBytes"
					}
					e = &Term{Op: "call", Name: fnName, Fn: p.Func("cache", fnName), Args: []*Term{stripConvTerm(ev.Args[2])}}
				}
			}
			switch {
			case e.Op == "call" && e.Fn != nil && e.Fn.Name() == "uint32ToBytes":
				x := e.Args[0]
				if x.Op == "len" {
					f := rootField(x.Args[0], recv)
					lens[x.Args[0].Key()] = f
					out = append(out, layoutElem{"U32LEN", f})
				} else if f := rootField(x, recv); f != "" {
					if !verbatimField(x, recv) {
						notes = append(notes, "the number written for "+f+" is computed ("+prettyTerm(x)+"), not the field as it stands")
					}
					out = append(out, layoutElem{"U32", f})
				} else {
					out = append(out, layoutElem{"U32", "?" + prettyTerm(x)})
				}
			case e.Op == "call" && e.Fn != nil && e.Fn.Name() == "uint64ToBytes":
				if f := rootField(e.Args[0], recv); f != "" && !verbatimField(e.Args[0], recv) {
					notes = append(notes, "the number written for "+f+" is computed ("+prettyTerm(e.Args[0])+"), not the field as it stands")
				}
				out = append(out, layoutElem{"U64", rootField(e.Args[0], recv)})
			default:
				f := rootField(e, recv)
				if _, ok := lens[e.Key()]; !ok {
					f += "!nolen"
				}
				out = append(out, layoutElem{"BYTES", f})
			}
		}
		allSeqs = append(allSeqs, fixedSeq(out))
		if len(out) > len(best) {
			best = out
		}
	})
	for _, q := range allSeqs {
		if q != fixedSeq(best) {
			notes = append(notes, fmt.Sprintf("the record's shape depends on the entry: one successful path writes the fixed-width elements %s, another %s (a reader cannot tell which it is given unless it tests exactly the same condition)", fixedSeq(best), q))
		}
	}
	return best, bestRes, notes
}

func kindSeq(xs []layoutElem) string {
	ks := []string{}
	for _, x := range xs {
		k := x.Kind
		if k == "U32LEN" {
			k = "U32" // the same four bytes; the length of a nil element folds to a constant
		}
		ks = append(ks, k)
	}
	return "[" + strings.Join(ks, " ") + "]"
}

func readerLayout(p *Program, fn *ssa.Function) ([]layoutElem, []string) {
	var best []layoutElem
	notes := []string{}
	allSeqs := []string{}
	p.Simulate(fn, SimConfig{}, func(pr *PathResult) {
		if pr.Exit != "return" || len(pr.Results) != 1 {
			return
		}
		// full success: every tested error is nil
		for _, l := range pr.Conds {
			if l.Atom.Op == "eq" && l.Atom.Args[1].IsNil() && !l.Pol {
				return
			}
			if l.Atom.Op == "eq" && l.Atom.Args[0].Op == "len" && l.Pol {
				return // the empty-input shortcut
			}
		}
		// a path that reports an error of the decoder's own is not a success either
		if r0 := pr.Results[0]; !r0.IsNil() && r0.Op != "ext" && r0.Op != "call" {
			// (the error of the last read handed on unchecked is the success path of a decoder that ends `return err`)
			if k, isNil := pr.Facts.Decide(eqTerm(r0, nilTerm(nil))); !(k && isNil) {
				return
			}
		}
		recv := &Term{Op: "sym", Name: "p:" + fn.Params[0].Name(), Type: fn.Params[0].Type()}
		// a decoded record is what the bytes say: no field is set to a constant of the decoder's own
		for _, e := range pr.Events {
			if e.Kind == "store" && e.Addr.Op == "fa" && e.Addr.Args[0].Key() == recv.Key() && e.Val.IsConst() && !e.Val.IsNil() {
				if iv, ok := e.Val.IntVal(); ok && iv == 0 {
					continue
				}
				notes = append(notes, "the decoder sets "+e.Addr.Name+" to a constant of its own ("+prettyTerm(e.Val)+") instead of what the record holds")
			}
			if e.Kind == "store" && e.Addr.Op == "fa" && e.Addr.Args[0].Key() == recv.Key() && e.Val.contains(func(x *Term) bool { return x.Op == "global" }) {
				switch e.Val.Type.Underlying().(type) {
				case *types.Map, *types.Slice, *types.Pointer:
					notes = append(notes, "the decoder puts a package-level object ("+prettyTerm(e.Val)+") into "+e.Addr.Name+": every decoded record then shares it, and what is decoded into it later (a map is merged into, not replaced) shows up in all of them")
				}
			}
		}
		dest := func(t *Term, from int) string {
			has := func(x *Term) bool { return x != nil && x.contains(func(y *Term) bool { return y.Key() == t.Key() }) }
			for i := from; i < len(pr.Events); i++ {
				e := pr.Events[i]
				if e.Kind == "store" && e.Addr.Op == "fa" && e.Addr.Args[0].Key() == recv.Key() && has(e.Val) {
					if isIntType(t.Type) && stripConvTerm(e.Val).Key() != t.Key() {
						notes = append(notes, "the number read for "+e.Addr.Name+" is stored after a computation ("+prettyTerm(e.Val)+"), not as it was read")
					}
					return e.Addr.Name
				}
				if e.Kind == "call" || e.Kind == "invoke" {
					uses := false
					for _, a := range e.Args {
						if has(a) {
							uses = true
						}
					}
					if !uses {
						continue
					}
					if e.Callee != nil && (e.Callee.Name() == "readBytes" || strings.HasSuffix(e.Callee.String(), "Buffer).Next")) {
						return "#size"
					}
					for _, a := range e.Args {
						a = a.strip()
						if a.Op == "fa" && a.Args[0].Key() == recv.Key() {
							return a.Name
						}
					}
					// result or receiver stored later
					for j := i + 1; j < len(pr.Events); j++ {
						e2 := pr.Events[j]
						if e2.Kind == "store" && e2.Addr.Op == "fa" && e2.Addr.Args[0].Key() == recv.Key() {
							if e.Result != nil && e2.Val.contains(func(y *Term) bool { return y.Key() == e.Result.Key() }) {
								return e2.Addr.Name
							}
							if len(e.Args) > 0 && e2.Val.Key() == e.Args[0].Key() {
								return e2.Addr.Name
							}
						}
					}
				}
			}
			return "?"
		}
		out := []layoutElem{}
		for i, e := range pr.Events {
			if e.Kind != "call" || e.Callee == nil {
				continue
			}
			switch {
			case e.Callee.Name() == "readUint32ToInt":
				d := dest(ext(e.Result, 0), i+1)
				if d == "#size" {
					out = append(out, layoutElem{"U32LEN", "?"})
				} else {
					out = append(out, layoutElem{"U32", d})
				}
			case e.Callee.Name() == "readUint64ToInt64":
				out = append(out, layoutElem{"U64", dest(ext(e.Result, 0), i+1)})
			case e.Callee.Name() == "readBytes" || e.Callee.String() == "(*bytes.Buffer).Next":
				r := e.Result
				if e.Callee.Name() == "readBytes" {
					r = ext(e.Result, 0)
				}
				d := dest(r, i+1)
				// the size must be the immediately preceding U32 read
				if len(out) > 0 && out[len(out)-1].Kind == "U32LEN" {
					out[len(out)-1].Field = d
				} else {
					d += "!nolen"
				}
				out = append(out, layoutElem{"BYTES", d})
			}
		}
		allSeqs = append(allSeqs, kindSeq(out))
		if len(out) > len(best) {
			best = out
		}
	})
	for _, q := range allSeqs {
		if q != kindSeq(best) {
			notes = append(notes, fmt.Sprintf("what the reader consumes depends on what it has read so far: one successful path reads %s, another %s (an element skipped on one of them is taken for the next one)", kindSeq(best), q))
		}
	}
	return best, notes
}

func ruleLayout(c *Ctx) {
	for _, typ := range []struct {
		name  string
		floor int
	}{{"httpCache", 5}, {"HTTPResponse", 14}} {
		w := c.P.Method("cache", typ.name, "Bytes")
		r := c.P.Method("cache", typ.name, "FromBytes")
		if w == nil || r == nil {
			c.undecided("layout-agreement", typ.name, "-", "Bytes/FromBytes not found")
			continue
		}
		pos := c.P.pos(w.Pos())
		wl, wres, wn := writerLayout(c.P, w)
		rl, rn := readerLayout(c.P, r)
		if len(wl) == 0 {
			c.undecided("layout-agreement", typ.name, pos, "writer layout not recognised ("+wres+")")
			continue
		}
		if len(rl) == 0 {
			c.undecided("layout-agreement", typ.name, c.P.pos(r.Pos()), "reader layout not recognised")
			continue
		}
		bad := append(wn, rn...)
		ws, rs := []string{}, []string{}
		for _, e := range wl {
			ws = append(ws, e.String())
		}
		for _, e := range rl {
			rs = append(rs, e.String())
		}
		if len(wl) != len(rl) {
			bad = append(bad, fmt.Sprintf("the writer emits %d elements %v, the reader consumes %d %v", len(wl), ws, len(rl), rs))
		} else {
			for i := range wl {
				if wl[i].Kind != rl[i].Kind || !fieldsAgree(wl[i].Field, rl[i].Field) {
					bad = append(bad, fmt.Sprintf("element %d: written as %s, read as %s", i, wl[i], rl[i]))
				}
			}
		}
		for i, e := range wl {
			if e.Kind == "BYTES" && (i == 0 || wl[i-1].Kind != "U32LEN" || !fieldsAgree(wl[i-1].Field, e.Field)) {
				bad = append(bad, fmt.Sprintf("written element %d (%s) is not preceded by its own length", i, e))
			}
		}
		if len(wl) < typ.floor {
			bad = append(bad, fmt.Sprintf("only %d elements recognised (the record has %d)", len(wl), typ.floor))
		}
		c.check(len(bad) == 0, "layout-agreement", typ.name, pos, fmt.Sprintf("writer and reader agree on %d elements: %s", len(wl), strings.Join(ws, " ")), strings.Join(uniq(bad), " || "), len(wl))
	}
}

// verbatimField: x is the receiver's field as loaded, possibly converted.
func verbatimField(x, recv *Term) bool {
	x = stripConvTerm(x)
	return x.Op == "init" && x.Args[0].Op == "fa" && x.Args[0].Args[0].Key() == recv.Key()
}

func fieldsAgree(a, b string) bool {
	norm := func(s string) string {
		s = strings.TrimSuffix(s, "!nolen")
		return s
	}
	return norm(a) == norm(b) && !strings.Contains(a, "!nolen") && !strings.Contains(b, "!nolen") && !strings.HasPrefix(a, "?") && !strings.HasPrefix(b, "?")
}

// ruleBoundedReads: every read of the decoders and their helpers either fails
// on a short buffer or is bounded by what remains; lengths taken from the
// record never size an allocation or bound a loop.
func ruleBoundedReads(c *Ctx) {
	scope := map[*ssa.Function]bool{}
	for _, typ := range []string{"httpCache", "HTTPResponse"} {
		if f := c.P.Method("cache", typ, "FromBytes"); f != nil {
			for g := range staticScope(f, "cache", 3) {
				scope[g] = true
			}
		}
	}
	if len(scope) < 4 {
		c.undecided("bounded-reads", "decoders", "-", "decoders not found")
		return
	}
	n := 0
	bad := []string{}
	// the two record decoders with every helper of the decoding scope simulated in
	// place, so that a helper's parameters (a field width, a length just read) have
	// the values its callers pass
	roots := map[*ssa.Function]bool{}
	for _, typ := range []string{"httpCache", "HTTPResponse"} {
		if f := c.P.Method("cache", typ, "FromBytes"); f != nil {
			roots[f] = true
		}
	}
	for fn := range scope {
		// structural: no run-time sized allocation, and no size limit of the decoder's own
		for _, b := range fn.Blocks {
			for _, in := range b.Instrs {
				if ms, ok := in.(*ssa.MakeSlice); ok {
					if _, isConst := ms.Len.(*ssa.Const); !isConst {
						bad = append(bad, fmt.Sprintf("%s: allocation whose size is computed at run time inside a decoder (must not depend on lengths read from the record)", c.P.pos(ms.Pos())))
					}
				}
				if bo, ok := in.(*ssa.BinOp); ok {
					switch bo.Op {
					case token.LSS, token.LEQ, token.GTR, token.GEQ:
						for _, op := range []ssa.Value{bo.X, bo.Y} {
							if cst, ok := op.(*ssa.Const); ok && cst.Value != nil && isIntType(cst.Type()) && cst.Int64() > 64 {
								bad = append(bad, fmt.Sprintf("%s: %s compares a length with the constant %d: the encoder has no such limit, so an entry it writes (a large body) can never be read back", c.P.pos(bo.Pos()), funcName(fn), cst.Int64()))
							}
						}
					}
				}
			}
		}
	}
	for fn := range scope {
		name := funcName(fn)
		if !roots[fn] {
			continue
		}
		sim := c.P.Simulate(fn, SimConfig{Inline: func(callee *ssa.Function, d int) bool { return scope[callee] && !roots[callee] && d < 5 }}, func(pr *PathResult) {
			where := name + " path [" + condString(pr.Conds) + "]"
			for _, e := range pr.Events {
				if e.Kind != "call" || e.Callee == nil {
					continue
				}
				switch e.Callee.String() {
				case "(*bytes.Buffer).Next":
					n++
					buf, cnt := e.Args[0], e.Args[1]
					okLo, okHi := false, false
					if iv := pr.Facts.Interval(cnt); iv.Lo != nil && iv.Lo.Sign() >= 0 {
						okLo = true
					}
					for _, l := range pr.Conds {
						if l.Atom.Op == "lt" && !l.Pol && l.Atom.Args[1].Key() == cnt.Key() && l.Atom.Args[0].Op == "call" && strings.HasPrefix(l.Atom.Args[0].Name, "(*bytes.Buffer).Len") && l.Atom.Args[0].Args[0].Key() == buf.Key() {
							okHi = true // !(buffer.Len() < n)
						}
					}
					if cnt.Op == "call" && strings.HasPrefix(cnt.Name, "(*bytes.Buffer).Len") && len(cnt.Args) == 1 && cnt.Args[0].Key() == buf.Key() {
						okLo, okHi = true, true // Next(buffer.Len()): everything that is left
					}
					if !okLo {
						bad = append(bad, "Buffer.Next(n) with n not known >= 0 (a length word >= 2^31 is negative on 32-bit builds and Next panics) in "+where)
					}
					if !okHi {
						bad = append(bad, "Buffer.Next(n) without checking n against the remaining bytes: a truncated field is silently accepted, in "+where)
					}
				case "(*bytes.Buffer).Read", "(*bytes.Buffer).ReadByte":
					n++
					// the byte count must be compared with the wanted length
					cntT := ext(e.Result, 0)
					used := false
					for _, l := range pr.Conds {
						if l.Atom.contains(func(x *Term) bool { return x.Key() == cntT.Key() }) {
							used = true
						}
					}
					if !used && e.Callee.Name() == "Read" {
						bad = append(bad, "Buffer.Read's byte count is ignored: a short read (truncated record) is zero-padded and accepted, in "+where)
					}
				case "encoding/binary.Read", "io.ReadFull":
					n++
				}
			}
		})
		if sim.Overflow {
			bad = append(bad, "path overflow in "+name)
		}
		// allocations sized by data from the record
		for _, b := range fn.Blocks {
			for _, in := range b.Instrs {
				if ms, ok := in.(*ssa.MakeSlice); ok {
					if _, isConst := ms.Len.(*ssa.Const); !isConst {
						bad = append(bad, fmt.Sprintf("%s: allocation whose size is computed at run time inside a decoder (must not depend on lengths read from the record)", c.P.pos(ms.Pos())))
					}
				}
			}
		}
	}
	if n < 3 {
		c.undecided("bounded-reads", "decoders", "-", fmt.Sprintf("only %d reads found", n))
		return
	}
	c.check(len(bad) == 0, "bounded-reads", "decoders", "cache/cache.go", fmt.Sprintf("%d reads in %d functions: fixed-width reads fail on short input (binary.Read), variable reads are checked against 0 and the remaining length before Buffer.Next; no allocation is sized by record data", n, len(scope)), strings.Join(uniq(bad), " || "), n)
}

// ruleTruncation: on every successful path of the entry decoder the last read is
// a fixed-width read whose error was checked.
func ruleTruncation(c *Ctx) {
	fn := c.P.Method("cache", "httpCache", "FromBytes")
	if fn == nil {
		c.undecided("truncation-detected", "httpCache.FromBytes", "-", "not found")
		return
	}
	name, pos := funcName(fn), c.P.pos(fn.Pos())
	n, succ := 0, 0
	bad := []string{}
	c.P.Simulate(fn, SimConfig{}, func(pr *PathResult) {
		n++
		if len(pr.Results) != 1 {
			return
		}
		k, isNil := pr.Facts.Decide(eqTerm(pr.Results[0], nilTerm(nil)))
		if !(pr.Results[0].IsNil() || (k && isNil) || !k) {
			return
		}
		// candidate success path: collect reads
		var last *Event
		for _, e := range pr.Events {
			if e.Kind == "call" && e.Callee != nil && (strings.HasPrefix(e.Callee.Name(), "read") || strings.HasPrefix(e.Callee.String(), "(*bytes.Buffer).")) && e.Callee.Name() != "NewBuffer" {
				last = e
			}
		}
		if last == nil {
			return
		}
		succ++
		if !(last.Callee.Name() == "readUint64ToInt64" || last.Callee.Name() == "readUint32ToInt" || last.Callee.Name() == "readBytes") {
			bad = append(bad, "the record's tail is read with "+last.Callee.Name()+" on path ["+condString(pr.Conds)+"]")
			return
		}
		errT := ext(last.Result, 1)
		if pr.Results[0].Key() != errT.Key() {
			if k, v := pr.Facts.Decide(eqTerm(errT, nilTerm(nil))); !(k && v) {
				bad = append(bad, "the error of the final read is neither returned nor checked on path ["+condString(pr.Conds)+"]")
			}
		}
	})
	if succ == 0 {
		c.undecided("truncation-detected", name, pos, "no successful decode path recognised")
		return
	}
	c.check(len(bad) == 0, "truncation-detected", name, pos, fmt.Sprintf("%d paths: every decode ends with a checked fixed-width/bounded read, so a record cut anywhere fails", n), strings.Join(uniq(bad), " || "), n)
}

// ruleEncodedFresh: the byte slice returned by Bytes() does not alias memory
// that outlives or is shared beyond the call (pool, package variable, field).
func ruleEncodedFresh(c *Ctx) {
	for _, typ := range []string{"httpCache", "HTTPResponse"} {
		fn := c.P.Method("cache", typ, "Bytes")
		if fn == nil {
			c.undecided("encoded-record-fresh", typ, "-", "Bytes not found")
			continue
		}
		name, pos := funcName(fn), c.P.pos(fn.Pos())
		n := 0
		bad := []string{}
		c.P.Simulate(fn, SimConfig{}, func(pr *PathResult) {
			n++
			if len(pr.Results) != 2 || pr.Results[0].IsNil() {
				return
			}
			where := "path [" + condString(pr.Conds) + "]"
			r := stripConvTerm(pr.Results[0])
			okFresh := false
			switch {
			case r.Op == "call" && r.Fn != nil && (r.Fn.String() == "bytes.Join" || r.Fn.String() == "bytes.Repeat"):
				okFresh = true
			case r.Op == "make":
				okFresh = true
			case r.Op == "append":
				base, _, _ := appendChain(r)
				okFresh = base.IsNil() || base.Op == "make"
			case r.Op == "call" && r.Fn != nil && r.Fn.String() == "(*bytes.Buffer).Bytes":
				b := r.Args[0].strip()
				okFresh = b.Op == "alloc" || (b.Op == "call" && b.Fn != nil && (b.Fn.String() == "bytes.NewBuffer" || b.Fn.String() == "bytes.NewBufferString"))
			}
			if !okFresh {
				bad = append(bad, "the encoded record is "+prettyTerm(r)+", not memory allocated by this call (the store may still be reading it when another entry is encoded) on "+where)
			}
			for _, e := range pr.Events {
				if (e.Kind == "call" || e.Kind == "defer") && e.Callee != nil && strings.Contains(e.Callee.String(), "sync.Pool") {
					bad = append(bad, "the encoder exchanges buffers with a sync.Pool: the returned record aliases memory the next encode reuses, on "+where)
				}
			}
		})
		if n == 0 {
			c.undecided("encoded-record-fresh", name, pos, "no path")
			continue
		}
		c.check(len(bad) == 0, "encoded-record-fresh", name, pos, fmt.Sprintf("%d paths: the record is freshly allocated (bytes.Join) and no pool is involved", n), strings.Join(uniq(bad), " || "), n)
	}
}

// ruleWriterWidths: the integer writers emit exactly the width the readers consume.
func ruleWriterWidths(c *Ctx) {
	bad := []string{}
	n := 0
	for _, pair := range []struct {
		w, r  string
		width int64
	}{{"uint32ToBytes", "readUint32ToInt", 4}, {"uint64ToBytes", "readUint64ToInt64", 8}} {
		w, r := c.P.Func("cache", pair.w), c.P.Func("cache", pair.r)
		if w == nil || r == nil {
			bad = append(bad, pair.w+"/"+pair.r+" not found")
			continue
		}
		c.P.Simulate(w, SimConfig{MaxVisits: 10}, func(pr *PathResult) {
			n++
			res := pr.Results[0]
			var size *Term
			if res.Op == "slice" && len(res.Args) == 4 && res.Args[0].Op == "alloc" && res.Args[1].Op == "none" && res.Args[2].Op == "none" {
				// a composite literal []byte{…}: the whole backing array
				if pt, ok := res.Args[0].Type.(*types.Pointer); ok {
					if at, ok := pt.Elem().Underlying().(*types.Array); ok {
						res = &Term{Op: "slice", Type: res.Type, Args: []*Term{res.Args[0], res.Args[1], intTerm(at.Len()), res.Args[3]}}
					}
				}
			}
			if res.Op == "make" && len(res.Args) > 0 {
				size = res.Args[0]
			} else if res.Op == "slice" && len(res.Args) == 4 && res.Args[0].Op == "alloc" {
				size = res.Args[2] // make([]byte, N) with constant N: new([N]byte)[:N]
			}
			if size == nil {
				bad = append(bad, pair.w+" returns "+prettyTerm(res))
				return
			}
			if v, ok := size.IntVal(); !ok || v != pair.width {
				bad = append(bad, fmt.Sprintf("%s emits %s bytes, the reader consumes %d", pair.w, prettyTerm(size), pair.width))
			}
			okPut := false
			for _, e := range pr.Events {
				if (e.Kind == "call" || e.Kind == "invoke") && strings.Contains(e.CalleeName(), fmt.Sprintf("PutUint%d", pair.width*8)) && strings.Contains(e.CalleeName(), "bigEndian") {
					okPut = true
				}
			}
			if !okPut && handRolledBigEndian(pr, res, pair.width) {
				okPut = true
			}
			if !okPut {
				bad = append(bad, pair.w+" does not write a big-endian integer of that width")
			}
		})
		// reader: binary.Read into a variable of the same width, big endian
		c.P.Simulate(r, SimConfig{}, func(pr *PathResult) {
			n++
			for _, e := range pr.Events {
				if e.Kind == "call" && e.Callee != nil && e.Callee.String() == "encoding/binary.Read" {
					dst := e.Args[2].strip()
					if pt, ok := dst.Type.(*types.Pointer); ok {
						if bt, ok := pt.Elem().Underlying().(*types.Basic); ok {
							sz := map[types.BasicKind]int64{types.Uint32: 4, types.Uint64: 8, types.Int32: 4, types.Int64: 8}[bt.Kind()]
							if sz != pair.width {
								bad = append(bad, fmt.Sprintf("%s reads into a %s", pair.r, bt.Name()))
							}
							// the 4-byte value is widened to int afterwards: it must be read unsigned, as it was written
							if pair.width == 4 && bt.Kind() == types.Int32 {
								bad = append(bad, fmt.Sprintf("%s reads the unsigned 32-bit number the writer emits into an int32: values of 2^31 and above (a 3GB compress threshold) come back negative after the reload", pair.r))
							}
						}
					}
					if !strings.Contains(e.Args[1].Key(), "BigEndian") {
						bad = append(bad, pair.r+" does not read big-endian")
					}
				}
			}
		})
	}
	c.check(len(bad) == 0, "integer-widths", "cache/cache.go", "cache/cache.go", "uint32/uint64 writers and readers agree on width (4/8), signedness and byte order (big endian)", strings.Join(uniq(bad), " || "), n)
}

// appendChain flattens append(append(base, a...), b...) into base and [a, b].
func appendChain(t *Term) (*Term, []*Term, bool) {
	if t == nil || t.Op != "append" {
		return t, nil, false
	}
	parts := []*Term{}
	for t.Op == "append" && len(t.Args) == 2 {
		parts = append([]*Term{t.Args[1]}, parts...)
		t = t.Args[0]
	}
	if t.Op == "append" {
		return t, nil, false
	}
	return t, parts, true
}

func isZeroInt(t *Term) bool {
	v, ok := t.IntVal()
	return ok && v == 0
}

// handRolledBigEndian: byte i of the returned array is the parameter shifted
// right by 8*(width-1-i), for every i.
func handRolledBigEndian(pr *PathResult, res *Term, width int64) bool {
	var base *Term
	switch {
	case res.Op == "slice" && len(res.Args) > 0 && res.Args[0].Op == "alloc":
		base = res.Args[0]
	case res.Op == "make":
		base = res
	default:
		return false
	}
	cells := map[int64]*Term{}
	for k, loc := range pr.State.heapLoc {
		if loc.Op == "ia" && loc.Args[0].Key() == base.Key() {
			if i, ok := loc.Args[1].IntVal(); ok {
				cells[i] = pr.State.heap[k]
			}
		}
	}
	for i := int64(0); i < width; i++ {
		v := cells[i]
		if v == nil {
			return false
		}
		shift := int64(0)
		t := stripConvTerm(v)
		for t.Op == "bin" && t.Name == ">>" && len(t.Args) == 2 {
			n, ok := stripConvTerm(t.Args[1]).IntVal()
			if !ok {
				return false
			}
			shift += n
			t = stripConvTerm(t.Args[0])
		}
		if !(t.Op == "sym" && strings.HasPrefix(t.Name, "p:")) || shift != 8*(width-1-i) {
			return false
		}
	}
	return true
}

// fixedSeq: the fixed-width elements only (an empty variable-length element
// appended onto a slice leaves no trace in the writer's term).
func fixedSeq(xs []layoutElem) string {
	ks := []string{}
	for _, x := range xs {
		switch x.Kind {
		case "U32LEN", "U32":
			ks = append(ks, "U32")
		case "U64":
			ks = append(ks, "U64")
		}
	}
	return "[" + strings.Join(ks, " ") + "]"
}
