package main

// Symbolic terms and path facts used by the path-sensitive dataflow engine
// (pathsim.go). Terms are canonical (structurally keyed) descriptions of SSA
// values along one control-flow path; facts are what the branch decisions taken
// so far imply (integer intervals, equalities with constants, literal
// polarities). There is no solver: feasibility is decided by constant folding,
// interval refinement and syntactic correlation of repeated predicates.

import (
	"fmt"
	"go/constant"
	"go/token"
	"go/types"
	"math/big"
	"sort"
	"strings"

	"golang.org/x/tools/go/ssa"
)

type Term struct {
	Op   string
	Args []*Term
	Name string
	Val  constant.Value
	Obj  types.Object
	Fn   *ssa.Function
	Type types.Type
	key  string
}

func (t *Term) Key() string {
	if t == nil {
		return "<nil>"
	}
	if t.key != "" {
		return t.key
	}
	var sb strings.Builder
	sb.WriteString(t.Op)
	if t.Name != "" {
		sb.WriteString(":" + t.Name)
	}
	if t.Op == "const" {
		sb.WriteString(":" + t.Val.ExactString())
		if b, ok := t.Type.Underlying().(*types.Basic); ok && b.Info()&types.IsString != 0 {
			sb.WriteString("s")
		}
	}
	if t.Op == "conv" || t.Op == "ta" || t.Op == "zero" {
		sb.WriteString("<" + types.TypeString(t.Type, nil) + ">")
	}
	if len(t.Args) > 0 {
		sb.WriteString("(")
		for i, a := range t.Args {
			if i > 0 {
				sb.WriteString(",")
			}
			sb.WriteString(a.Key())
		}
		sb.WriteString(")")
	}
	t.key = sb.String()
	return t.key
}

func (t *Term) String() string { return prettyTerm(t) }

func prettyTerm(t *Term) string {
	if t == nil {
		return "<nil>"
	}
	switch t.Op {
	case "const":
		return t.Val.ExactString()
	case "nil":
		return "nil"
	case "sym":
		return t.Name
	case "init":
		return "«" + prettyTerm(t.Args[0]) + "»" + t.Name
	case "fa", "fld":
		return prettyTerm(t.Args[0]) + "." + t.Name
	case "not":
		return "!(" + prettyTerm(t.Args[0]) + ")"
	case "eq":
		return prettyTerm(t.Args[0]) + "==" + prettyTerm(t.Args[1])
	case "lt":
		return prettyTerm(t.Args[0]) + "<" + prettyTerm(t.Args[1])
	case "bin":
		return "(" + prettyTerm(t.Args[0]) + t.Name + prettyTerm(t.Args[1]) + ")"
	}
	s := t.Op
	if t.Name != "" {
		s += ":" + t.Name
	}
	if len(t.Args) > 0 {
		parts := []string{}
		for _, a := range t.Args {
			parts = append(parts, prettyTerm(a))
		}
		s += "(" + strings.Join(parts, ",") + ")"
	}
	return s
}

func mk(op, name string, typ types.Type, args ...*Term) *Term {
	return &Term{Op: op, Name: name, Type: typ, Args: args}
}

var tBool = types.Typ[types.Bool]
var tInt = types.Typ[types.Int]
var tString = types.Typ[types.String]

func constTerm(v constant.Value, typ types.Type) *Term {
	if typ == nil {
		switch v.Kind() {
		case constant.Bool:
			typ = tBool
		case constant.String:
			typ = tString
		default:
			typ = tInt
		}
	}
	return &Term{Op: "const", Val: v, Type: typ}
}
func boolTerm(b bool) *Term  { return constTerm(constant.MakeBool(b), tBool) }
func intTerm(i int64) *Term  { return constTerm(constant.MakeInt64(i), tInt) }
func strTerm(s string) *Term { return constTerm(constant.MakeString(s), tString) }
func nilTerm(typ types.Type) *Term {
	return &Term{Op: "nil", Type: typ}
}

func (t *Term) IsConst() bool { return t != nil && t.Op == "const" }
func (t *Term) IsNil() bool   { return t != nil && t.Op == "nil" }
func (t *Term) IsTrue() bool {
	return t.IsConst() && t.Val.Kind() == constant.Bool && constant.BoolVal(t.Val)
}
func (t *Term) IsFalse() bool {
	return t.IsConst() && t.Val.Kind() == constant.Bool && !constant.BoolVal(t.Val)
}
func (t *Term) IntVal() (int64, bool) {
	if !t.IsConst() || t.Val.Kind() != constant.Int {
		return 0, false
	}
	return constant.Int64Val(t.Val)
}
func (t *Term) StrVal() (string, bool) {
	if !t.IsConst() || t.Val.Kind() != constant.String {
		return "", false
	}
	return constant.StringVal(t.Val), true
}

// zeroTerm is the zero value of a type.
func zeroTerm(typ types.Type) *Term {
	switch u := typ.Underlying().(type) {
	case *types.Basic:
		switch {
		case u.Info()&types.IsBoolean != 0:
			return constTerm(constant.MakeBool(false), typ)
		case u.Info()&types.IsString != 0:
			return constTerm(constant.MakeString(""), typ)
		case u.Info()&types.IsNumeric != 0:
			return constTerm(constant.MakeInt64(0), typ)
		case u.Kind() == types.UnsafePointer || u.Kind() == types.UntypedNil:
			return nilTerm(typ)
		}
	case *types.Pointer, *types.Slice, *types.Map, *types.Chan, *types.Signature, *types.Interface:
		return nilTerm(typ)
	}
	return &Term{Op: "zero", Type: typ}
}

// knownNonNil: terms that denote a freshly created or address-of value.
func knownNonNil(t *Term) bool {
	switch t.Op {
	case "alloc", "closure", "func", "make", "fa", "ia", "global", "append1":
		return true
	case "conv", "mkiface":
		if len(t.Args) == 1 {
			return knownNonNil(t.Args[0])
		}
	case "const":
		return true
	case "call":
		// constructors of error libraries (errors.New, fmt.Errorf, hes.New…) return a value
		if t.Fn != nil && !isPikeFunc(t.Fn) && t.Fn.Signature.Recv() == nil {
			nm := t.Fn.Name()
			if nm == "Errorf" || strings.HasPrefix(nm, "New") || nm == "Wrap" && false {
				if _, isPtr := t.Type.Underlying().(*types.Pointer); isPtr {
					return true
				}
				if t.Type != nil && types.Identical(t.Type, types.Universe.Lookup("error").Type()) {
					return true
				}
			}
		}
	}
	return false
}

func isIntType(t types.Type) bool {
	if t == nil {
		return false
	}
	b, ok := t.Underlying().(*types.Basic)
	return ok && b.Info()&types.IsInteger != 0
}

// ---------------------------------------------------------------- intervals

type Interval struct {
	Lo, Hi *big.Int // nil = unbounded
}

func (iv Interval) String() string {
	lo, hi := "-inf", "+inf"
	if iv.Lo != nil {
		lo = iv.Lo.String()
	}
	if iv.Hi != nil {
		hi = iv.Hi.String()
	}
	return "[" + lo + "," + hi + "]"
}
func (iv Interval) Empty() bool {
	return iv.Lo != nil && iv.Hi != nil && iv.Lo.Cmp(iv.Hi) > 0
}
func (iv Interval) IsPoint() (*big.Int, bool) {
	if iv.Lo != nil && iv.Hi != nil && iv.Lo.Cmp(iv.Hi) == 0 {
		return iv.Lo, true
	}
	return nil, false
}
func point(i int64) Interval { b := big.NewInt(i); return Interval{b, b} }
func ivOf(lo, hi int64) Interval {
	return Interval{big.NewInt(lo), big.NewInt(hi)}
}
func maxB(a, b *big.Int) *big.Int { // nil = -inf
	if a == nil {
		return b
	}
	if b == nil {
		return a
	}
	if a.Cmp(b) >= 0 {
		return a
	}
	return b
}
func minB(a, b *big.Int) *big.Int { // nil = +inf
	if a == nil {
		return b
	}
	if b == nil {
		return a
	}
	if a.Cmp(b) <= 0 {
		return a
	}
	return b
}
func (iv Interval) Meet(o Interval) Interval {
	return Interval{maxB(iv.Lo, o.Lo), minB(iv.Hi, o.Hi)}
}
func (iv Interval) Within(o Interval) bool {
	if o.Lo != nil && (iv.Lo == nil || iv.Lo.Cmp(o.Lo) < 0) {
		return false
	}
	if o.Hi != nil && (iv.Hi == nil || iv.Hi.Cmp(o.Hi) > 0) {
		return false
	}
	return true
}

func typeRange(t types.Type, intBits int) Interval {
	b, ok := t.Underlying().(*types.Basic)
	if !ok {
		return Interval{}
	}
	bits, signed := 0, true
	switch b.Kind() {
	case types.Int, types.UntypedInt:
		bits = intBits
	case types.Int8:
		bits = 8
	case types.Int16:
		bits = 16
	case types.Int32, types.UntypedRune:
		bits = 32
	case types.Int64:
		bits = 64
	case types.Uint, types.Uintptr:
		bits, signed = intBits, false
	case types.Uint8:
		bits, signed = 8, false
	case types.Uint16:
		bits, signed = 16, false
	case types.Uint32:
		bits, signed = 32, false
	case types.Uint64:
		bits, signed = 64, false
	default:
		return Interval{}
	}
	one := big.NewInt(1)
	if signed {
		hi := new(big.Int).Lsh(one, uint(bits-1))
		lo := new(big.Int).Neg(hi)
		hi = new(big.Int).Sub(hi, one)
		return Interval{lo, hi}
	}
	hi := new(big.Int).Lsh(one, uint(bits))
	hi.Sub(hi, one)
	return Interval{big.NewInt(0), hi}
}

// ------------------------------------------------------------------- facts

type Lit struct {
	Atom *Term
	Pol  bool
}

func (l Lit) String() string {
	if l.Pol {
		return prettyTerm(l.Atom)
	}
	return "!(" + prettyTerm(l.Atom) + ")"
}

type Facts struct {
	lits    map[string]bool
	iv      map[string]Interval
	eqc     map[string]*Term
	nec     map[string][]*Term
	intBits int
}

func newFacts(intBits int) *Facts {
	return &Facts{lits: map[string]bool{}, iv: map[string]Interval{}, eqc: map[string]*Term{}, nec: map[string][]*Term{}, intBits: intBits}
}
func (f *Facts) clone() *Facts {
	g := newFacts(f.intBits)
	for k, v := range f.lits {
		g.lits[k] = v
	}
	for k, v := range f.iv {
		g.iv[k] = v
	}
	for k, v := range f.eqc {
		g.eqc[k] = v
	}
	for k, v := range f.nec {
		g.nec[k] = append([]*Term{}, v...)
	}
	return g
}

// Interval of an integer-typed term under the current facts.
func (f *Facts) Interval(t *Term) Interval {
	if t == nil {
		return Interval{}
	}
	if t.IsConst() {
		if t.Val.Kind() == constant.Int {
			if b, ok := constant.Val(t.Val).(*big.Int); ok {
				return Interval{b, b}
			}
			if i, ok := constant.Int64Val(t.Val); ok {
				return point(i)
			}
		}
		return Interval{}
	}
	res := f.structural(t)
	if iv, ok := f.iv[t.Key()]; ok {
		res = res.Meet(iv)
	}
	return res
}

func (f *Facts) structural(t *Term) Interval {
	tr := Interval{}
	if t.Type != nil && isIntType(t.Type) {
		tr = typeRange(t.Type, f.intBits)
	}
	fit := func(iv Interval) Interval {
		// a result outside the type's range wraps: fall back to the full range
		if tr.Lo == nil && tr.Hi == nil {
			return iv
		}
		if iv.Within(tr) {
			return iv
		}
		return tr
	}
	switch t.Op {
	case "len", "cap":
		r := typeRange(tInt, f.intBits)
		r.Lo = big.NewInt(0)
		if len(t.Args) == 1 {
			if s, ok := t.Args[0].StrVal(); ok {
				return point(int64(len(s)))
			}
		}
		return r
	case "conv":
		if len(t.Args) == 1 && isIntType(t.Args[0].Type) {
			return fit(f.Interval(t.Args[0]))
		}
	case "bin":
		a, b := f.Interval(t.Args[0]), f.Interval(t.Args[1])
		same := t.Args[0].Key() == t.Args[1].Key()
		switch t.Name {
		case "+":
			return fit(Interval{addB(a.Lo, b.Lo), addB(a.Hi, b.Hi)})
		case "-":
			if same {
				return point(0)
			}
			return fit(Interval{subB(a.Lo, b.Hi), subB(a.Hi, b.Lo)})
		case "*":
			if a.Lo != nil && a.Hi != nil && b.Lo != nil && b.Hi != nil {
				c := []*big.Int{new(big.Int).Mul(a.Lo, b.Lo), new(big.Int).Mul(a.Lo, b.Hi), new(big.Int).Mul(a.Hi, b.Lo), new(big.Int).Mul(a.Hi, b.Hi)}
				lo, hi := c[0], c[0]
				for _, x := range c {
					lo, hi = minB(lo, x), maxB(hi, x)
				}
				return fit(Interval{lo, hi})
			}
		case "/":
			if same {
				return point(1) // x/x with x != 0 (x == 0 panics)
			}
			if b.Lo != nil && b.Lo.Sign() > 0 && b.Hi != nil && a.Lo != nil && a.Hi != nil {
				c := []*big.Int{new(big.Int).Quo(a.Lo, b.Lo), new(big.Int).Quo(a.Lo, b.Hi), new(big.Int).Quo(a.Hi, b.Lo), new(big.Int).Quo(a.Hi, b.Hi)}
				lo, hi := c[0], c[0]
				for _, x := range c {
					lo, hi = minB(lo, x), maxB(hi, x)
				}
				return fit(Interval{lo, hi})
			}
		case "%":
			if b.Lo != nil && b.Lo.Sign() > 0 && b.Hi != nil {
				hi := new(big.Int).Sub(b.Hi, big.NewInt(1))
				if a.Lo != nil && a.Lo.Sign() >= 0 {
					return Interval{big.NewInt(0), hi}
				}
				return Interval{new(big.Int).Neg(hi), hi}
			}
		}
	}
	return tr
}

func addB(a, b *big.Int) *big.Int {
	if a == nil || b == nil {
		return nil
	}
	return new(big.Int).Add(a, b)
}
func subB(a, b *big.Int) *big.Int {
	if a == nil || b == nil {
		return nil
	}
	return new(big.Int).Sub(a, b)
}

// Decide evaluates a boolean term under the facts: (known, value).
func (f *Facts) Decide(t *Term) (bool, bool) {
	switch t.Op {
	case "const":
		if t.Val.Kind() == constant.Bool {
			return true, constant.BoolVal(t.Val)
		}
		return false, false
	case "not":
		k, v := f.Decide(t.Args[0])
		return k, !v
	case "eq":
		a, b := t.Args[0], t.Args[1]
		if a.Key() == b.Key() {
			return true, true
		}
		if (a.IsConst() && b.IsConst()) && a.Val.Kind() == b.Val.Kind() {
			return true, constant.Compare(a.Val, token.EQL, b.Val)
		}
		if a.IsNil() && b.IsNil() {
			return true, true
		}
		if (a.IsNil() && knownNonNil(b)) || (b.IsNil() && knownNonNil(a)) {
			return true, false
		}
		if isIntType(a.Type) || isIntType(b.Type) {
			// len(s) == 0 for a string s is s == ""
			for _, pr := range [][2]*Term{{a, b}, {b, a}} {
				if v, ok := pr[1].IntVal(); ok && v == 0 && pr[0].Op == "len" && len(pr[0].Args) == 1 && isStringType(pr[0].Args[0].Type) {
					if k, r := f.Decide(eqTerm(pr[0].Args[0], strTerm(""))); k {
						return true, r
					}
				}
			}
			ia, ib := f.Interval(a), f.Interval(b)
			if ia.Meet(ib).Empty() {
				return true, false
			}
			pa, oka := ia.IsPoint()
			pb, okb := ib.IsPoint()
			if oka && okb && pa.Cmp(pb) == 0 {
				return true, true
			}
		} else {
			// equality with a constant / nil
			x, c := a, b
			if a.IsConst() || a.IsNil() {
				x, c = b, a
			}
			if sv, isStr := c.StrVal(); isStr && sv == "" && c.IsConst() {
				// x == "" is len(x) == 0
				iv := f.Interval(&Term{Op: "len", Type: tInt, Args: []*Term{x}})
				if lo, ok := iv.IsPoint(); ok && lo.Sign() == 0 {
					return true, true
				}
				if iv.Meet(point(0)).Empty() {
					return true, false
				}
			}
			if c.IsConst() || c.IsNil() {
				if e, ok := f.eqc[x.Key()]; ok {
					if e.Key() == c.Key() {
						return true, true
					}
					if (e.IsConst() || e.IsNil()) && (c.IsConst() || c.IsNil()) {
						return true, false
					}
				}
				for _, n := range f.nec[x.Key()] {
					if n.Key() == c.Key() {
						return true, false
					}
				}
			}
		}
	case "lt":
		a, b := t.Args[0], t.Args[1]
		if a.Key() == b.Key() {
			return true, false
		}
		if sa, ok := a.StrVal(); ok {
			if sb, ok := b.StrVal(); ok {
				return true, sa < sb
			}
		}
		ia, ib := f.Interval(a), f.Interval(b)
		if ia.Hi != nil && ib.Lo != nil && ia.Hi.Cmp(ib.Lo) < 0 {
			return true, true
		}
		if ia.Lo != nil && ib.Hi != nil && ia.Lo.Cmp(ib.Hi) >= 0 {
			return true, false
		}
	}
	if e, ok := f.eqc[t.Key()]; ok && e.IsConst() && e.Val.Kind() == constant.Bool {
		return true, constant.BoolVal(e.Val)
	}
	if v, ok := f.lits[t.Key()]; ok {
		return true, v
	}
	return false, false
}

// Assume adds the literal; false means the path is infeasible.
func (f *Facts) Assume(t *Term, pol bool) bool {
	if k, v := f.Decide(t); k {
		return v == pol
	}
	switch t.Op {
	case "not":
		return f.Assume(t.Args[0], !pol)
	case "eq":
		a, b := t.Args[0], t.Args[1]
		if isIntType(a.Type) || isIntType(b.Type) {
			ia, ib := f.Interval(a), f.Interval(b)
			if pol {
				m := ia.Meet(ib)
				if m.Empty() {
					return false
				}
				if !a.IsConst() {
					f.iv[a.Key()] = m
				}
				if !b.IsConst() {
					f.iv[b.Key()] = m
				}
			} else {
				trim := func(x *Term, ix Interval, c *big.Int) bool {
					if x.IsConst() {
						return true
					}
					one := big.NewInt(1)
					if ix.Lo != nil && ix.Lo.Cmp(c) == 0 {
						ix.Lo = new(big.Int).Add(ix.Lo, one)
					}
					if ix.Hi != nil && ix.Hi.Cmp(c) == 0 {
						ix.Hi = new(big.Int).Sub(ix.Hi, one)
					}
					if ix.Empty() {
						return false
					}
					f.iv[x.Key()] = ix
					return true
				}
				if c, ok := ib.IsPoint(); ok {
					if !trim(a, ia, c) {
						return false
					}
				}
				if c, ok := ia.IsPoint(); ok {
					if !trim(b, ib, c) {
						return false
					}
				}
			}
		} else {
			x, c := a, b
			if a.IsConst() || a.IsNil() {
				x, c = b, a
			}
			if c.IsConst() || c.IsNil() {
				if pol {
					f.eqc[x.Key()] = c
				} else {
					f.nec[x.Key()] = append(f.nec[x.Key()], c)
				}
			}
		}
		f.lits[t.Key()] = pol
		return true
	case "lt":
		a, b := t.Args[0], t.Args[1]
		ia, ib := f.Interval(a), f.Interval(b)
		one := big.NewInt(1)
		if isIntType(a.Type) || isIntType(b.Type) {
			if pol { // a < b
				if ib.Hi != nil {
					ia.Hi = minB(ia.Hi, new(big.Int).Sub(ib.Hi, one))
				}
				if ia.Lo != nil {
					ib.Lo = maxB(ib.Lo, new(big.Int).Add(ia.Lo, one))
				}
			} else { // a >= b
				ia.Lo = maxB(ia.Lo, ib.Lo)
				ib.Hi = minB(ib.Hi, ia.Hi)
			}
			if ia.Empty() || ib.Empty() {
				return false
			}
			if !a.IsConst() {
				f.iv[a.Key()] = ia
			}
			if !b.IsConst() {
				f.iv[b.Key()] = ib
			}
		}
		f.lits[t.Key()] = pol
		return true
	}
	f.lits[t.Key()] = pol
	if t.Type != nil {
		if b, ok := t.Type.Underlying().(*types.Basic); ok && b.Info()&types.IsBoolean != 0 {
			f.eqc[t.Key()] = boolTerm(pol)
		}
	}
	return true
}

// ---------------------------------------------------------- constructors

func notTerm(t *Term) *Term {
	if t.IsConst() && t.Val.Kind() == constant.Bool {
		return boolTerm(!constant.BoolVal(t.Val))
	}
	if t.Op == "not" {
		return t.Args[0]
	}
	return mk("not", "", tBool, t)
}

func eqTerm(a, b *Term) *Term {
	if a.IsConst() && b.IsConst() && a.Val.Kind() == b.Val.Kind() && a.Val.Kind() != constant.Unknown {
		return boolTerm(constant.Compare(a.Val, token.EQL, b.Val))
	}
	if a.Key() == b.Key() {
		return boolTerm(true)
	}
	// canonical order: constant / nil last, otherwise by key
	if a.IsConst() || a.IsNil() || (!(b.IsConst() || b.IsNil()) && a.Key() > b.Key()) {
		a, b = b, a
	}
	return mk("eq", "", tBool, a, b)
}

func ltTerm(a, b *Term) *Term {
	if a.IsConst() && b.IsConst() && a.Val.Kind() == b.Val.Kind() && a.Val.Kind() != constant.Unknown && a.Val.Kind() != constant.Bool {
		return boolTerm(constant.Compare(a.Val, token.LSS, b.Val))
	}
	return mk("lt", "", tBool, a, b)
}

// cmpTerm normalises the six comparison operators to eq / lt / not.
func cmpTerm(op token.Token, a, b *Term) *Term {
	switch op {
	case token.EQL:
		return eqTerm(a, b)
	case token.NEQ:
		return notTerm(eqTerm(a, b))
	case token.LSS:
		return ltTerm(a, b)
	case token.GTR:
		return ltTerm(b, a)
	case token.LEQ:
		return notTerm(ltTerm(b, a))
	case token.GEQ:
		return notTerm(ltTerm(a, b))
	}
	return nil
}

func binTerm(op token.Token, a, b *Term, typ types.Type) *Term {
	if c := cmpTerm(op, a, b); c != nil {
		return c
	}
	if a.IsConst() && b.IsConst() {
		func() {
			defer func() { recover() }()
			switch op {
			case token.SHL, token.SHR:
				if s, ok := constant.Uint64Val(b.Val); ok && s < 512 {
					v := constant.Shift(a.Val, op, uint(s))
					a = constTerm(v, typ)
					b = nil
				}
			case token.QUO:
				if a.Val.Kind() == constant.Int && b.Val.Kind() == constant.Int {
					if constant.Sign(b.Val) != 0 {
						a = constTerm(constant.BinaryOp(a.Val, token.QUO_ASSIGN, b.Val), typ)
						b = nil
					}
				}
			case token.ADD, token.SUB, token.MUL, token.REM, token.AND, token.OR, token.XOR, token.AND_NOT, token.LAND, token.LOR:
				if op == token.REM && constant.Sign(b.Val) == 0 {
					return
				}
				a = constTerm(constant.BinaryOp(a.Val, op, b.Val), typ)
				b = nil
			}
		}()
		if b == nil {
			return a
		}
	}
	// x + 0, x - 0, 0 + x
	if (op == token.ADD || op == token.SUB) && b.IsConst() && b.Val.Kind() == constant.Int && constant.Sign(b.Val) == 0 {
		return a
	}
	if op == token.ADD && a.IsConst() && a.Val.Kind() == constant.Int && constant.Sign(a.Val) == 0 {
		return b
	}
	return mk("bin", op.String(), typ, a, b)
}

// -------------------------------------------------------------- matching

// walk visits t and all its sub-terms.
func (t *Term) walk(fn func(*Term) bool) {
	if t == nil || !fn(t) {
		return
	}
	for _, a := range t.Args {
		a.walk(fn)
	}
}

func (t *Term) contains(pred func(*Term) bool) bool {
	found := false
	t.walk(func(x *Term) bool {
		if found {
			return false
		}
		if pred(x) {
			found = true
			return false
		}
		return true
	})
	return found
}

// strip removes value-preserving wrappers (interface boxing, extraction of a
// single result).
func (t *Term) strip() *Term {
	for t != nil && (t.Op == "mkiface") && len(t.Args) == 1 {
		t = t.Args[0]
	}
	return t
}

// fieldLoadOf reports whether t is the (initial or havocked) content of field
// `field` of some base, returning the base term.
func (t *Term) fieldLoad(field *types.Var) (*Term, bool) {
	if t == nil {
		return nil, false
	}
	if t.Op == "init" && len(t.Args) == 1 && t.Args[0].Op == "fa" && t.Args[0].Obj == field {
		return t.Args[0].Args[0], true
	}
	if t.Op == "fld" && t.Obj == field {
		return t.Args[0], true
	}
	return nil, false
}

func sortedKeys[M ~map[string]V, V any](m M) []string {
	ks := make([]string, 0, len(m))
	for k := range m {
		ks = append(ks, k)
	}
	sort.Strings(ks)
	return ks
}

var _ = fmt.Sprintf

// substTerm replaces sub-terms by key.
func substTerm(t *Term, m map[string]*Term) *Term {
	if t == nil || len(m) == 0 {
		return t
	}
	if r, ok := m[t.Key()]; ok {
		return r
	}
	if len(t.Args) == 0 {
		return t
	}
	changed := false
	args := make([]*Term, len(t.Args))
	for i, a := range t.Args {
		args[i] = substTerm(a, m)
		if args[i] != a {
			changed = true
		}
	}
	if !changed {
		return t
	}
	n := *t
	n.Args = args
	n.key = ""
	return &n
}

// linearize writes an integer term as sum(coeff * atom) + c; ok is false when
// the term contains a product of two non-constants.
func linearize(t *Term) (map[string]int64, map[string]*Term, int64, bool) {
	coef := map[string]int64{}
	atoms := map[string]*Term{}
	var c int64
	ok := true
	var walk func(t *Term, k int64)
	walk = func(t *Term, k int64) {
		if v, isC := t.IntVal(); isC {
			c += k * v
			return
		}
		if t.Op == "conv" && len(t.Args) == 1 && isIntType(t.Type) && isIntType(t.Args[0].Type) {
			walk(t.Args[0], k)
			return
		}
		if t.Op == "bin" {
			switch t.Name {
			case "+":
				walk(t.Args[0], k)
				walk(t.Args[1], k)
				return
			case "-":
				walk(t.Args[0], k)
				walk(t.Args[1], -k)
				return
			case "*":
				if v, isC := t.Args[0].IntVal(); isC {
					walk(t.Args[1], k*v)
					return
				}
				if v, isC := t.Args[1].IntVal(); isC {
					walk(t.Args[0], k*v)
					return
				}
			}
		}
		coef[t.Key()] += k
		atoms[t.Key()] = t
	}
	walk(t, 1)
	for k, v := range coef {
		if v == 0 {
			delete(coef, k)
		}
	}
	return coef, atoms, c, ok
}

func sameLinear(a, b *Term) bool {
	ca, _, ka, _ := linearize(a)
	cb, _, kb, _ := linearize(b)
	if ka != kb || len(ca) != len(cb) {
		return false
	}
	for k, v := range ca {
		if cb[k] != v {
			return false
		}
	}
	return true
}

func isStringType(t types.Type) bool {
	if t == nil {
		return false
	}
	b, ok := t.Underlying().(*types.Basic)
	return ok && b.Info()&types.IsString != 0
}
