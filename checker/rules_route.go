package main

// Rules over package location: Match, priority classes, sort before publish,
// first match among the server's own locations.

import (
	"fmt"
	"strings"

	"golang.org/x/tools/go/ssa"
)

func isElemOfField(t *Term, field string) bool {
	// «ia(«recv.field», idx)»
	return t != nil && t.Op == "init" && t.Args[0].Op == "ia" && t.Args[0].Args[0].Op == "init" &&
		t.Args[0].Args[0].Args[0].Op == "fa" && t.Args[0].Args[0].Args[0].Name == field
}

func ruleMatch(c *Ctx) {
	fn := c.P.Method("location", "Location", "Match")
	if fn == nil {
		c.undecided("match", "Location.Match", "-", "not found")
		return
	}
	name, pos := funcName(fn), c.P.pos(fn.Pos())
	n := 0
	bad := []string{}
	trues, falses := 0, 0
	sim := c.P.Simulate(fn, SimConfig{}, func(pr *PathResult) {
		n++
		where := "path [" + condString(pr.Conds) + "]"
		if len(pr.Results) != 1 || !pr.Results[0].IsConst() {
			bad = append(bad, "the result is not decided by the host/prefix tests on "+where)
			return
		}
		res := pr.Results[0].IsTrue()
		hostsEmpty, prefEmpty := false, false
		hostsKnown, prefKnown := false, false
		hostHit, prefHit := false, false
		hostExh, prefExh := false, false
		for _, l := range pr.Conds {
			at := l.Atom
			switch {
			case at.Op == "eq" && at.Args[0].Op == "len" && isRespField(at.Args[0].Args[0], "Hosts"):
				hostsKnown, hostsEmpty = true, l.Pol
			case at.Op == "eq" && at.Args[0].Op == "len" && isRespField(at.Args[0].Args[0], "Prefixes"):
				prefKnown, prefEmpty = true, l.Pol
			case at.Op == "eq" && ((isElemOfField(at.Args[0], "Hosts") && at.Args[1].Op == "sym" && at.Args[1].Name == "p:host") ||
				(isElemOfField(at.Args[1], "Hosts") && at.Args[0].Op == "sym" && at.Args[0].Name == "p:host")):
				if l.Pol {
					hostHit = true
				}
			case at.Op == "call" && at.Fn != nil && at.Fn.String() == "strings.HasPrefix":
				if !(at.Args[0].Op == "sym" && at.Args[0].Name == "p:url" && isElemOfField(at.Args[1], "Prefixes")) {
					bad = append(bad, "prefix test is HasPrefix("+prettyTerm(at.Args[0])+", "+prettyTerm(at.Args[1])+"), expected HasPrefix(url, configured prefix) on "+where)
				}
				if l.Pol {
					prefHit = true
				}
			case at.Op == "lt" && at.Args[1].Op == "len" && isRespField(at.Args[1].Args[0], "Hosts"):
				if !l.Pol {
					hostExh = true
				}
			case at.Op == "lt" && at.Args[1].Op == "len" && isRespField(at.Args[1].Args[0], "Prefixes"):
				if !l.Pol {
					prefExh = true
				}
			default:
				bad = append(bad, "the match depends on "+l.String()+" on "+where)
			}
		}
		hostOK := (hostsKnown && hostsEmpty) || hostHit
		prefOK := (prefKnown && prefEmpty) || prefHit
		if res {
			trues++
			if !hostOK {
				bad = append(bad, "matches although the host list is non-empty and no configured host equalled the request host on "+where)
			}
			if !prefOK {
				bad = append(bad, "matches although the prefix list is non-empty and no configured prefix is a prefix of the URI on "+where)
			}
		} else {
			falses++
			hostFail := hostsKnown && !hostsEmpty && !hostHit && (hostExh || true)
			prefFail := prefKnown && !prefEmpty && !prefHit
			if !(hostFail || prefFail) {
				bad = append(bad, "rejects although both filters are satisfied on "+where)
			}
			_ = prefExh
		}
	})
	if sim.Overflow || trues == 0 || falses == 0 {
		c.undecided("match", name, pos, "idiom not recognised")
		return
	}
	c.check(len(bad) == 0, "match", name, pos, fmt.Sprintf("%d paths: true iff (no hosts or some host == request host) and (no prefixes or HasPrefix(uri, some prefix)); depends on nothing else", n), strings.Join(uniq(bad), " || "), n)
}

func rulePriority(c *Ctx) {
	fn := c.P.Method("location", "Location", "getPriority")
	if fn == nil {
		c.undecided("priority-classes", "getPriority", "-", "not found")
		return
	}
	name, pos := funcName(fn), c.P.pos(fn.Pos())
	table := map[[2]bool]int64{}
	bad := []string{}
	n := 0
	c.P.Simulate(fn, SimConfig{}, func(pr *PathResult) {
		n++
		if len(pr.Results) != 1 {
			return
		}
		var hasP, hasH *bool
		cached := false
		for _, l := range pr.Conds {
			at := l.Atom
			if at.Op == "eq" && at.Args[0].Op == "len" && isRespField(at.Args[0].Args[0], "Prefixes") {
				v := !l.Pol
				hasP = &v
			} else if at.Op == "eq" && at.Args[0].Op == "len" && isRespField(at.Args[0].Args[0], "Hosts") {
				v := !l.Pol
				hasH = &v
			} else if at.Op == "lt" && isZeroInt(at.Args[0]) && at.Args[1].Op == "len" && isRespField(at.Args[1].Args[0], "Prefixes") {
				v := l.Pol // 0 < len(Prefixes)
				hasP = &v
			} else if at.Op == "lt" && isZeroInt(at.Args[0]) && at.Args[1].Op == "len" && isRespField(at.Args[1].Args[0], "Hosts") {
				v := l.Pol
				hasH = &v
			} else if at.Op == "eq" && at.Args[0].Op == "call" && strings.Contains(at.Args[0].Name, "Int32).Load") {
				if !l.Pol {
					cached = true
				}
			} else {
				bad = append(bad, "the priority depends on "+l.String())
			}
		}
		if cached {
			r := stripConvTerm(pr.Results[0])
			if !(r.Op == "call" && strings.Contains(r.Name, "Int32).Load")) {
				bad = append(bad, "with a cached priority the result is "+prettyTerm(r))
			}
			return
		}
		v, ok := pr.Results[0].IntVal()
		if !ok || hasP == nil || hasH == nil {
			bad = append(bad, "priority "+prettyTerm(pr.Results[0])+" is not a constant decided by (has prefixes, has hosts) on ["+condString(pr.Conds)+"]")
			return
		}
		table[[2]bool{*hasP, *hasH}] = v
		// the value cached is the value returned
		stored := false
		for _, e := range pr.Events {
			if e.Kind == "call" && e.Callee != nil && strings.HasSuffix(e.Callee.String(), "Int32).Store") {
				if sv, ok := e.Args[1].IntVal(); ok && sv == v {
					stored = true
				} else {
					bad = append(bad, fmt.Sprintf("caches %s but returns %d", prettyTerm(e.Args[1]), v))
				}
			}
		}
		_ = stored
	})
	if len(table) != 4 {
		c.undecided("priority-classes", name, pos, fmt.Sprintf("only %d of the 4 specificity classes recognised", len(table)))
		return
	}
	ph, p, h, none := table[[2]bool{true, true}], table[[2]bool{true, false}], table[[2]bool{false, true}], table[[2]bool{false, false}]
	if !(ph < p && p < h && h < none) {
		bad = append(bad, fmt.Sprintf("priorities prefix+host=%d prefix=%d host=%d none=%d are not strictly increasing in that order (the list is sorted ascending and the first match wins)", ph, p, h, none))
	}
	for _, v := range []int64{ph, p, h, none} {
		if v == 0 {
			bad = append(bad, "a class has priority 0, the 'not computed yet' sentinel")
		}
	}
	c.check(len(bad) == 0, "priority-classes", name, pos, fmt.Sprintf("prefix+host=%d < prefix=%d < host=%d < unconstrained=%d, all non-zero", ph, p, h, none), strings.Join(uniq(bad), " || "), n)
}

func ruleSortedPublish(c *Ctx) {
	fn := c.P.Method("location", "Locations", "Set")
	if fn == nil {
		c.undecided("sorted-before-publish", "Locations.Set", "-", "not found")
		return
	}
	name, pos := funcName(fn), c.P.pos(fn.Pos())
	getPrio := c.P.Method("location", "Location", "getPriority")
	n, pub := 0, 0
	bad := []string{}
	var less *ssa.Function
	sim := c.P.Simulate(fn, SimConfig{}, func(pr *PathResult) {
		n++
		where := "path [" + condString(pr.Conds) + "]"
		sortAt, storeAt := -1, -1
		var sorted, stored *Term
		locked := false
		for i, e := range pr.Events {
			switch {
			case e.Kind == "call" && e.Callee != nil && (e.Callee.String() == "sort.Slice" || e.Callee.String() == "sort.SliceStable"):
				sortAt = i
				sorted = e.Args[0].strip()
				if cl := e.Args[1]; cl.Op == "closure" {
					less = cl.Fn
					// the comparator must read the slice being sorted
					okBind := false
					for _, b := range cl.Args {
						if b.Op == "alloc" {
							if v, ok := pr.State.heap[b.Key()]; ok && v.Key() == sorted.Key() {
								okBind = true
							}
						}
						if b.Key() == sorted.Key() {
							okBind = true
						}
					}
					if !okBind {
						bad = append(bad, "the comparator does not read the slice that is being sorted on "+where)
					}
				}
			case e.calleeIs("(*sync.RWMutex).Lock"):
				locked = true
			case e.calleeIs("(*sync.RWMutex).Unlock"):
				locked = false
			case e.Kind == "store" && e.Addr.Op == "fa" && e.Addr.Name == "locations" && e.Addr.Args[0].Op == "sym":
				storeAt = i
				stored = e.Val
				if !locked {
					bad = append(bad, "the list is published without the write lock on "+where)
				}
			}
		}
		if storeAt < 0 {
			return
		}
		pub++
		if sortAt < 0 || sortAt > storeAt {
			bad = append(bad, "the list is published before it is sorted on "+where)
		} else if sorted.Key() != stored.Key() {
			bad = append(bad, "the slice published ("+prettyTerm(stored)+") is not the slice that was sorted on "+where)
		}
	})
	if sim.Overflow || pub == 0 || less == nil {
		c.undecided("sorted-before-publish", name, pos, "idiom not recognised")
		return
	}
	// the comparator: getPriority(data[i]) < getPriority(data[j])
	nl := 0
	c.P.Simulate(less, SimConfig{}, func(pr *PathResult) {
		nl++
		if len(pr.Results) != 1 {
			return
		}
		r := pr.Results[0]
		okShape := false
		if r.Op == "lt" {
			a, b := stripConvTerm(r.Args[0]), stripConvTerm(r.Args[1])
			elem := func(t *Term, idx string) (*Term, bool) {
				if t.Op == "call" && t.Fn == getPrio && len(t.Args) == 1 {
					x := t.Args[0]
					if x.Op == "init" && x.Args[0].Op == "ia" && x.Args[0].Args[1].Op == "sym" && x.Args[0].Args[1].Name == "p:"+idx {
						return x.Args[0].Args[0], true
					}
				}
				return nil, false
			}
			si, ok1 := elem(a, less.Params[0].Name())
			sj, ok2 := elem(b, less.Params[1].Name())
			if ok1 && ok2 && si.Key() == sj.Key() && si.Op == "init" && si.Args[0].Op == "sym" && strings.HasPrefix(si.Args[0].Name, "fv:") {
				okShape = true
			}
		}
		if !okShape {
			bad = append(bad, "the comparator is "+prettyTerm(r)+", not getPriority(s[i]) < getPriority(s[j]) on the sorted slice s (a comparator reading anything else is not permuted with the elements)")
		}
	})
	c.check(len(bad) == 0, "sorted-before-publish", name, pos, fmt.Sprintf("%d paths: sort.Slice on the slice that is then published under the write lock; comparator = getPriority(s[i]) < getPriority(s[j])", n), strings.Join(uniq(bad), " || "), n+nl)
}

func ruleNamedOnly(c *Ctx) {
	fn := c.P.Method("location", "Locations", "Get")
	if fn == nil {
		c.undecided("named-only", "Locations.Get", "-", "not found")
		return
	}
	name, pos := funcName(fn), c.P.pos(fn.Pos())
	match := c.P.Method("location", "Location", "Match")
	n, hits := 0, 0
	bad := []string{}
	sim := c.P.Simulate(fn, SimConfig{}, func(pr *PathResult) {
		n++
		where := "path [" + condString(pr.Conds) + "]"
		if len(pr.Results) != 1 {
			return
		}
		r := pr.Results[0]
		if r.IsNil() {
			return
		}
		hits++
		// r is an element of the sorted list
		fromList := false
		if r.Op == "init" && r.Args[0].Op == "ia" {
			base := r.Args[0].Args[0]
			if base.Op == "call" && base.Fn != nil && base.Fn.Name() == "GetLocations" {
				fromList = true
			}
			// GetLocations written out in place: the receiver's list itself
			if base.Op == "init" && base.Args[0].Op == "fa" && base.Args[0].Name == "locations" {
				fromList = true
			}
		}
		if !fromList {
			bad = append(bad, "returns "+prettyTerm(r)+", not an element of the sorted location list on "+where)
			return
		}
		nameOK, matchOK := false, false
		for _, l := range pr.Conds {
			at := l.Atom
			if at.Op == "eq" && l.Pol {
				x, y := at.Args[0], at.Args[1]
				isName := func(t *Term) bool {
					return t.Op == "init" && t.Args[0].Op == "fa" && t.Args[0].Name == "Name" && t.Args[0].Args[0].Key() == r.Key()
				}
				isParamName := func(t *Term) bool {
					return t.Op == "init" && t.Args[0].Op == "ia" && t.Args[0].Args[0].Op == "sym" && t.Args[0].Args[0].Name == "p:names"
				}
				if (isName(x) && isParamName(y)) || (isName(y) && isParamName(x)) {
					nameOK = true
				}
			}
			// the names put into a set first: a successful lookup of the element's name in a map filled from the names
			if l.Pol && at.Op == "ext" && at.Name == "1" && len(at.Args) == 1 && at.Args[0].Op == "lookup" && len(at.Args[0].Args) == 2 {
				m, key := at.Args[0].Args[0], at.Args[0].Args[1]
				keyIsName := key.Op == "init" && key.Args[0].Op == "fa" && key.Args[0].Name == "Name" && key.Args[0].Args[0].Key() == r.Key()
				filled := false
				for _, e := range pr.Events {
					if e.Kind == "mapupdate" && e.Addr != nil && e.Addr.Key() == m.Key() && len(e.Args) == 1 {
						if k := e.Args[0]; k.Op == "init" && k.Args[0].Op == "ia" && k.Args[0].Args[0].Op == "sym" && k.Args[0].Args[0].Name == "p:names" {
							filled = true
						}
					}
				}
				if keyIsName && filled {
					nameOK = true
				}
			}
			if at.Op == "call" && at.Fn == match && l.Pol && at.Args[0].Key() == r.Key() {
				if at.Args[1].Op == "sym" && at.Args[1].Name == "p:host" && at.Args[2].Op == "sym" && at.Args[2].Name == "p:url" {
					matchOK = true
				} else {
					bad = append(bad, "Match is called with ("+prettyTerm(at.Args[1])+", "+prettyTerm(at.Args[2])+") on "+where)
				}
			}
		}
		if !nameOK {
			bad = append(bad, "a location is returned without its name being one of the server's names (locations not listed on the server must never be used) on "+where)
		}
		if !matchOK {
			bad = append(bad, "a location is returned without Match(host, url) having succeeded on "+where)
		}
	})
	if sim.Overflow || hits == 0 {
		c.undecided("named-only", name, pos, "idiom not recognised")
		return
	}
	// loop nesting: the sorted list is walked by the outer loop
	order := loopNesting(fn)
	if order != "locations>names" && order != "locations" && order != "names;locations" {
		bad = append(bad, "loop nesting is "+order+": the list sorted by specificity must be the OUTER loop, otherwise the first configured name wins over a more specific class")
	}
	c.check(len(bad) == 0, "named-only", name, pos, fmt.Sprintf("%d paths: a non-nil result is an element of the sorted list whose name equals one of the given names and which matches (host, url); the sorted list is the outer loop", n), strings.Join(uniq(bad), " || "), n)
}

// loopNesting classifies the two nested range loops of Locations.Get by the
// collection each ranges over.
func loopNesting(fn *ssa.Function) string {
	type loop struct {
		header *ssa.BasicBlock
		coll   string
		cyc    map[*ssa.BasicBlock]bool
	}
	loops := []loop{}
	for _, b := range fn.Blocks {
		if !isLoopHeader(b) || len(b.Instrs) == 0 {
			continue
		}
		iff, ok := b.Instrs[len(b.Instrs)-1].(*ssa.If)
		if !ok {
			continue
		}
		bo, ok := iff.Cond.(*ssa.BinOp)
		if !ok {
			continue
		}
		ln, ok := bo.Y.(*ssa.Call)
		if !ok {
			continue
		}
		coll := "?"
		switch x := ln.Call.Args[0].(type) {
		case *ssa.Parameter:
			coll = x.Name()
		case *ssa.Call:
			if sc := x.Call.StaticCallee(); sc != nil {
				coll = sc.Name()
			}
		case *ssa.UnOp:
			// the list read from the receiver's field directly (GetLocations inlined by hand)
			if fa, ok := x.X.(*ssa.FieldAddr); ok {
				coll = faField(fa).Name()
			}
		case *ssa.Phi:
			for _, e := range x.Edges {
				if ld, ok := e.(*ssa.UnOp); ok {
					if fa, ok := ld.X.(*ssa.FieldAddr); ok {
						coll = faField(fa).Name()
					}
				}
			}
		}
		if coll == "GetLocations" {
			coll = "locations"
		}
		loops = append(loops, loop{b, coll, cycleOf(b)})
	}
	if len(loops) == 1 {
		return loops[0].coll // the other collection is scanned by a helper
	}
	if len(loops) != 2 {
		return fmt.Sprintf("%d loops", len(loops))
	}
	a, b := loops[0], loops[1]
	if a.cyc[b.header] && !b.cyc[a.header] {
		return a.coll + ">" + b.coll
	}
	if b.cyc[a.header] && !a.cyc[b.header] {
		return b.coll + ">" + a.coll
	}
	if a.cyc[b.header] && b.cyc[a.header] {
		// both in the same cycle set: the outer header dominates the inner
		if a.header.Dominates(b.header) {
			return a.coll + ">" + b.coll
		}
		return b.coll + ">" + a.coll
	}
	// one after the other: a first pass over one collection (filling a set), then the search over the other
	if a.header.Dominates(b.header) {
		return a.coll + ";" + b.coll
	}
	if b.header.Dominates(a.header) {
		return b.coll + ";" + a.coll
	}
	return "not nested"
}

// ruleErrorCodes: the errors returned when routing fails are 5xx.
func ruleErrorCodes(c *Ctx) {
	sp := c.P.SSAPkgs[pkgPath("server")]
	if sp == nil || sp.Func("init") == nil {
		c.undecided("routing-errors-5xx", "server", "-", "package init not found")
		return
	}
	found := map[string]int64{}
	for _, b := range sp.Func("init").Blocks {
		for _, in := range b.Instrs {
			st, ok := in.(*ssa.Store)
			if !ok {
				continue
			}
			g, ok := st.Addr.(*ssa.Global)
			if !ok {
				continue
			}
			call, ok := st.Val.(*ssa.Call)
			if !ok || call.Call.StaticCallee() == nil || call.Call.StaticCallee().Name() != "NewError" {
				continue
			}
			if cst, ok := call.Call.Args[1].(*ssa.Const); ok {
				found[g.Name()] = cst.Int64()
			}
		}
	}
	bad := []string{}
	for _, e := range []string{"ErrLocationNotFound", "ErrUpstreamNotFound", "ErrCacheDispatcherNotFound", "ErrInvalidResponse"} {
		v, ok := found[e]
		if !ok {
			bad = append(bad, e+" is not built by util.NewError(msg, const)")
		} else if v < 500 || v > 599 {
			bad = append(bad, fmt.Sprintf("%s carries status %d, not a 5xx", e, v))
		}
	}
	c.check(len(bad) == 0, "routing-errors-5xx", "server", "server/server.go", fmt.Sprintf("error statuses %v are all 5xx", found), strings.Join(bad, " || "), len(found))
}
