package main

// Rules over cache.HTTPResponse: content-encoding negotiation (decision table),
// the compress threshold, variant provenance, ingest of upstream bodies,
// pre-compression, header clone.

import (
	"fmt"
	"go/types"
	"sort"
	"strings"

	"golang.org/x/tools/go/ssa"
)

func respMethod(p *Program, name string) *ssa.Function {
	return p.Method("cache", "HTTPResponse", name)
}

func isRespField(t *Term, field string) bool {
	return t != nil && t.Op == "init" && t.Args[0].Op == "fa" && t.Args[0].Name == field && t.Args[0].Args[0].Op == "sym"
}

func isCallTo(t *Term, fn *ssa.Function) bool {
	return t != nil && t.Op == "call" && t.Fn == fn && fn != nil
}

func isExtOfCallNamed(t *Term, idx int, name string) (*Term, bool) {
	if t != nil && t.Op == "ext" && t.Name == fmt.Sprint(idx) && t.Args[0].Op == "call" && t.Args[0].Fn != nil && strings.TrimSuffix(strings.TrimSuffix(t.Args[0].Fn.Name(), "$thunk"), "$bound") == name {
		return t.Args[0], true
	}
	return nil, false
}

// ruleDecisionTable extracts the decision function of getBodyByAcceptEncoding
// over its five atoms and compares all 32 cells with the documented list.
func ruleDecisionTable(c *Ctx) {
	fn := respMethod(c.P, "getBodyByAcceptEncoding")
	if fn == nil {
		c.undecided("decision-table", "getBodyByAcceptEncoding", "-", "function not found")
		return
	}
	name, pos := funcName(fn), c.P.pos(fn.Pos())
	type row struct {
		lits    map[string]bool
		outcome string
		where   string
	}
	rows := []row{}
	bad := []string{}
	prov := []string{}
	n := 0
	sim := c.P.Simulate(fn, SimConfig{}, func(pr *PathResult) {
		n++
		where := "path [" + condString(pr.Conds) + "]"
		if len(pr.Results) != 3 {
			return
		}
		lits := map[string]bool{}
		isErrPath := false
		for _, l := range pr.Conds {
			at := l.Atom
			switch {
			case at.Op == "call" && at.Fn != nil && at.Fn.String() == "strings.Contains" && at.Args[0].Op == "sym":
				s, _ := at.Args[1].StrVal()
				switch s {
				case "br":
					lits["AB"] = l.Pol
				case "gzip":
					lits["AG"] = l.Pol
				default:
					bad = append(bad, "the decision depends on Accept-Encoding containing "+s)
				}
			case at.Op == "eq" && at.Args[0].Op == "len" && isRespField(at.Args[0].Args[0], "BrBody"):
				if v, ok := at.Args[1].IntVal(); ok && v == 0 {
					lits["HB"] = !l.Pol
				}
			case at.Op == "lt" && at.Args[1].Op == "len" && isRespField(at.Args[1].Args[0], "BrBody"):
				if v, ok := at.Args[0].IntVal(); ok && v == 0 {
					lits["HB"] = l.Pol
				}
			case at.Op == "eq" && at.Args[0].Op == "len" && isRespField(at.Args[0].Args[0], "GzipBody"):
				if v, ok := at.Args[1].IntVal(); ok && v == 0 {
					lits["HG"] = !l.Pol
				}
			case at.Op == "lt" && at.Args[1].Op == "len" && isRespField(at.Args[1].Args[0], "GzipBody"):
				if v, ok := at.Args[0].IntVal(); ok && v == 0 {
					lits["HG"] = l.Pol
				}
			case at.Op == "call" && at.Fn != nil && at.Fn.Name() == "shouldCompressed":
				lits["SC"] = l.Pol
			case at.Op == "eq" && at.Args[0].Op == "ext" && at.Args[1].IsNil():
				if !l.Pol {
					isErrPath = true
				}
			default:
				bad = append(bad, "the decision depends on "+l.String()+" (only the client's accepted codings, the stored variants and shouldCompressed may decide) on "+where)
			}
		}
		label, body, errT := pr.Results[0], pr.Results[1], pr.Results[2]
		if isErrPath {
			if errT.IsNil() {
				bad = append(bad, "a failed step does not return its error on "+where)
			}
			return
		}
		if !errT.IsNil() {
			bad = append(bad, "returns an error although no step failed on "+where)
			return
		}
		ls, ok := label.StrVal()
		if !ok {
			bad = append(bad, "the encoding label is not a constant on "+where)
			return
		}
		out := ""
		switch {
		case isRespField(body, "BrBody"):
			out = "stored-br"
		case isRespField(body, "GzipBody"):
			out = "stored-gzip"
		default:
			if call, ok := isExtOfCallNamed(body, 0, "GetRawBody"); ok && call.Args[0].Op == "sym" {
				out = "raw"
			} else if call, ok := isExtOfCallNamed(body, 0, "Brotli"); ok {
				out = "transcode-br"
				if raw, ok2 := isExtOfCallNamed(call.Args[1], 0, "GetRawBody"); !ok2 || raw.Args[0].Op != "sym" {
					prov = append(prov, "the br transcode input is "+prettyTerm(call.Args[1])+", not the raw body, on "+where)
				}
				if !(call.Args[0].Op == "call" && call.Args[0].Fn != nil && call.Args[0].Fn.String() == pikeMod+"/compress.Get" && isRespField(call.Args[0].Args[0], "CompressSrv")) {
					prov = append(prov, "the transcode does not use the response's own compress profile on "+where)
				}
			} else if call, ok := isExtOfCallNamed(body, 0, "Gzip"); ok {
				out = "transcode-gzip"
				if raw, ok2 := isExtOfCallNamed(call.Args[1], 0, "GetRawBody"); !ok2 || raw.Args[0].Op != "sym" {
					prov = append(prov, "the gzip transcode input is "+prettyTerm(call.Args[1])+", not the raw body, on "+where)
				}
			} else {
				out = "other:" + prettyTerm(body)
			}
		}
		want := map[string]string{"stored-br": "br", "transcode-br": "br", "stored-gzip": "gzip", "transcode-gzip": "gzip", "raw": ""}
		if w, ok := want[out]; !ok {
			prov = append(prov, fmt.Sprintf("label %q is paired with body %s, which is neither a stored variant, the raw body nor a transcode of it, on %s", ls, prettyTerm(body), where))
		} else if w != ls {
			prov = append(prov, fmt.Sprintf("label %q is paired with a %s body on %s", ls, out, where))
		}
		rows = append(rows, row{lits, ls + "/" + out, where})
	})
	if sim.Overflow || len(rows) < 6 {
		c.undecided("decision-table", name, pos, fmt.Sprintf("idiom not recognised (%d decision paths)", len(rows)))
		return
	}
	expected := func(ab, ag, hb, hg, sc bool) string {
		switch {
		case ab && hb:
			return "br/stored-br"
		case ag && hg:
			return "gzip/stored-gzip"
		case !sc:
			return "/raw"
		case ab:
			return "br/transcode-br"
		case ag:
			return "gzip/transcode-gzip"
		}
		return "/raw"
	}
	cells := 0
	for m := 0; m < 32; m++ {
		v := map[string]bool{"AB": m&1 != 0, "AG": m&2 != 0, "HB": m&4 != 0, "HG": m&8 != 0, "SC": m&16 != 0}
		outs := map[string]bool{}
		for _, r := range rows {
			okRow := true
			for k, pol := range r.lits {
				if v[k] != pol {
					okRow = false
				}
			}
			if okRow {
				outs[r.outcome] = true
			}
		}
		cells++
		want := expected(v["AB"], v["AG"], v["HB"], v["HG"], v["SC"])
		ks := []string{}
		for k := range outs {
			ks = append(ks, k)
		}
		sort.Strings(ks)
		if len(ks) != 1 || ks[0] != want {
			bad = append(bad, fmt.Sprintf("cell accept-br=%v accept-gzip=%v has-br=%v has-gzip=%v should-compress=%v: code yields %v, the documented table says %s", v["AB"], v["AG"], v["HB"], v["HG"], v["SC"], ks, want))
		}
	}
	c.check(len(bad) == 0, "decision-table", name, pos, fmt.Sprintf("%d paths; all %d cells of (accept-br, accept-gzip, has-br, has-gzip, should-compress) are deterministic and equal the documented list", n, cells), strings.Join(uniq(bad), " || "), cells)
	c.check(len(prov) == 0, "label-provenance", name, pos, "every label is paired with the stored variant of that coding, the raw body, or a transcode of the raw body with the response's profile", strings.Join(uniq(prov), " || "), n)
}

// ruleThreshold: shouldCompressed is false iff all three variants are <= the
// minimum length; otherwise the content-type filter (default when nil) decides.
func ruleThreshold(c *Ctx) {
	fn := respMethod(c.P, "shouldCompressed")
	if fn == nil {
		c.undecided("threshold", "shouldCompressed", "-", "function not found")
		return
	}
	name, pos := funcName(fn), c.P.pos(fn.Pos())
	n := 0
	bad := []string{}
	sawFalse, sawMatch := false, false
	c.P.Simulate(fn, SimConfig{}, func(pr *PathResult) {
		n++
		where := "path [" + condString(pr.Conds) + "]"
		if len(pr.Results) != 1 {
			return
		}
		big := map[string]*bool{}
		var filterNil *bool
		for _, l := range pr.Conds {
			at := l.Atom
			if at.Op == "lt" && isRespField(at.Args[0], "CompressMinLength") && at.Args[1].Op == "len" {
				for _, f := range []string{"RawBody", "GzipBody", "BrBody"} {
					if isRespField(at.Args[1].Args[0], f) {
						v := l.Pol
						big[f] = &v
					}
				}
				continue
			}
			if at.Op == "eq" && isRespField(at.Args[0], "CompressContentTypeFilter") && at.Args[1].IsNil() {
				v := l.Pol
				filterNil = &v
				continue
			}
			bad = append(bad, "the decision depends on "+l.String()+" on "+where)
		}
		r := pr.Results[0]
		if r.IsFalse() {
			sawFalse = true
			for _, f := range []string{"RawBody", "GzipBody", "BrBody"} {
				if big[f] == nil || *big[f] {
					bad = append(bad, "returns false without len("+f+") <= CompressMinLength being established on "+where)
				}
			}
			return
		}
		anyBig := false
		for _, v := range big {
			if *v {
				anyBig = true
			}
		}
		if !anyBig {
			bad = append(bad, "the filter decides although no variant is known to exceed the minimum length (a body of exactly the minimum length must stay uncompressed) on "+where)
		}
		if !(r.Op == "call" && r.Fn != nil && r.Fn.String() == "(*regexp.Regexp).MatchString") {
			bad = append(bad, "the result is "+prettyTerm(r)+", not the content-type filter's match, on "+where)
			return
		}
		sawMatch = true
		if !isHeaderCall(r.Args[1], "Get", "Content-Type") {
			bad = append(bad, "the filter is matched against "+prettyTerm(r.Args[1])+", not the Content-Type, on "+where)
		}
		if filterNil == nil {
			bad = append(bad, "the configured filter is not tested for nil on "+where)
		} else if *filterNil {
			if g := regexGlobalOf(r.Args[0]); g == nil || !c.P.neverNilGlobal(g) || g.Pkg() == nil || g.Pkg().Path() != pkgPath("cache") {
				bad = append(bad, "with no configured filter the matcher is "+prettyTerm(r.Args[0])+", not the default filter, on "+where)
			}
		} else if !isRespField(r.Args[0], "CompressContentTypeFilter") {
			bad = append(bad, "the configured filter is not the one used on "+where)
		}
	})
	if !sawFalse || !sawMatch {
		c.undecided("threshold", name, pos, "idiom not recognised")
		return
	}
	c.check(len(bad) == 0, "threshold", name, pos, fmt.Sprintf("%d paths: false iff RawBody, GzipBody and BrBody are all <= CompressMinLength; otherwise filter.MatchString(Content-Type) with the default filter when none is configured", n), strings.Join(uniq(bad), " || "), n)
}

// ruleRawProvenance: GetRawBody returns RawBody, else gunzip(GzipBody), else
// brotli-decode(BrBody).
func ruleRawProvenance(c *Ctx) {
	fn := respMethod(c.P, "GetRawBody")
	if fn == nil {
		c.undecided("raw-provenance", "GetRawBody", "-", "function not found")
		return
	}
	name, pos := funcName(fn), c.P.pos(fn.Pos())
	n := 0
	bad := []string{}
	kinds := map[string]bool{}
	c.P.Simulate(fn, SimConfig{}, func(pr *PathResult) {
		n++
		where := "path [" + condString(pr.Conds) + "]"
		if len(pr.Results) != 2 {
			return
		}
		nonEmpty := map[string]*bool{}
		for _, l := range pr.Conds {
			at := l.Atom
			if at.Op == "eq" && at.Args[0].Op == "len" {
				for _, f := range []string{"RawBody", "GzipBody", "BrBody"} {
					if isRespField(at.Args[0].Args[0], f) {
						v := !l.Pol
						nonEmpty[f] = &v
					}
				}
			}
		}
		// any spelling of the emptiness tests (== 0, != 0, > 0, < 1)
		fieldTerms := map[string]*Term{}
		for _, l := range pr.Conds {
			l.Atom.walk(func(x *Term) bool {
				if x.Op == "len" && len(x.Args) == 1 {
					for _, f := range []string{"RawBody", "GzipBody", "BrBody"} {
						if isRespField(x.Args[0], f) {
							fieldTerms[f] = x
						}
					}
				}
				return true
			})
		}
		for f, lt := range fieldTerms {
			if k, isZero := pr.Facts.Decide(eqTerm(lt, intTerm(0))); k {
				v := !isZero
				nonEmpty[f] = &v
			}
		}
		r := pr.Results[0]
		switch {
		case isRespField(r, "RawBody"):
			kinds["raw"] = true
			// fine: either non-empty, or everything is empty
			rawKnownNonEmpty := nonEmpty["RawBody"] != nil && *nonEmpty["RawBody"]
			if k, isZero := pr.Facts.Decide(eqTerm(&Term{Op: "len", Type: tInt, Args: []*Term{r}}, intTerm(0))); k && !isZero {
				rawKnownNonEmpty = true
			}
			if !rawKnownNonEmpty {
				for _, f := range []string{"GzipBody", "BrBody"} {
					if nonEmpty[f] == nil || *nonEmpty[f] {
						bad = append(bad, "returns a RawBody that may be empty (e.g. the empty, non-nil slice a record restored from the store carries) although "+f+" may hold the body on "+where)
					}
				}
			}
		case r.Op == "ext" && r.Args[0].Op == "call" && r.Args[0].Fn != nil:
			call := r.Args[0]
			switch call.Fn.Name() {
			case "Gunzip":
				kinds["gunzip"] = true
				if !isRespField(call.Args[1], "GzipBody") {
					bad = append(bad, "Gunzip is applied to "+prettyTerm(call.Args[1])+" on "+where)
				}
			case "BrotliDecode":
				kinds["br"] = true
				if !isRespField(call.Args[1], "BrBody") {
					bad = append(bad, "BrotliDecode is applied to "+prettyTerm(call.Args[1])+" on "+where)
				}
			default:
				bad = append(bad, "raw body produced by "+call.Fn.Name()+" on "+where)
			}
			if pr.Results[1].Key() != ext(call, 1).Key() {
				bad = append(bad, "the decoder's error is not returned on "+where)
			}
		default:
			bad = append(bad, "returns "+prettyTerm(r)+" on "+where)
		}
	})
	if len(kinds) < 3 {
		c.undecided("raw-provenance", name, pos, "idiom not recognised")
		return
	}
	c.check(len(bad) == 0, "raw-provenance", name, pos, fmt.Sprintf("%d paths: RawBody, else Gunzip(GzipBody), else BrotliDecode(BrBody), decoder errors returned", n), strings.Join(uniq(bad), " || "), n)
}

// ruleFill: label and body written to the context are results #0/#1 of one
// negotiation for the client's Accept-Encoding; status and header come from the
// same response.
func ruleFill(c *Ctx) {
	fn := respMethod(c.P, "Fill")
	neg := respMethod(c.P, "getBodyByAcceptEncoding")
	if fn == nil || neg == nil {
		c.undecided("fill-pairing", "Fill", "-", "function not found")
		return
	}
	name, pos := funcName(fn), c.P.pos(fn.Pos())
	n, okPaths := 0, 0
	bad := []string{}
	c.P.Simulate(fn, SimConfig{}, func(pr *PathResult) {
		n++
		where := "path [" + condString(pr.Conds) + "]"
		var G *Event
		for _, e := range pr.Events {
			if e.Kind == "call" && e.Callee == neg {
				G = e
			}
		}
		if G == nil {
			bad = append(bad, "no negotiation on "+where)
			return
		}
		ae := G.Args[1]
		if !(ae.Op == "call" && ae.Fn != nil && ae.Fn.Name() == "GetRequestHeader" && len(ae.Args) == 2) {
			bad = append(bad, "the negotiation input is "+prettyTerm(ae)+", not the client's Accept-Encoding, on "+where)
		} else if s, _ := ae.Args[1].StrVal(); !strings.EqualFold(s, "Accept-Encoding") {
			bad = append(bad, "the negotiation reads header "+s+" on "+where)
		}
		errK, errNil := pr.Facts.Decide(eqTerm(ext(G.Result, 2), nilTerm(nil)))
		if !(errK && errNil) {
			if len(pr.Results) == 1 && pr.Results[0].IsNil() {
				bad = append(bad, "a negotiation error is swallowed on "+where)
			}
			return
		}
		okPaths++
		var enc, bodyBuf, status, merged *Term
		for _, e := range pr.Events {
			if e.Kind == "call" && e.Callee != nil && e.Callee.Name() == "SetHeader" && len(e.Args) == 3 {
				if s, _ := e.Args[1].StrVal(); strings.EqualFold(s, "Content-Encoding") {
					enc = e.Args[2]
				} else {
					bad = append(bad, "Fill sets header "+prettyTerm(e.Args[1])+" over what the upstream sent (SetHeader replaces every value of that field) on "+where)
				}
			}
			if e.Kind == "call" && e.Callee != nil && isPikeOrEltonHeaderDel(e.Callee) {
				bad = append(bad, "Fill removes a response header ("+e.Callee.Name()+") on "+where)
			}
			if e.Kind == "call" && e.Callee != nil && e.Callee.Name() == "MergeHeader" {
				merged = e.Args[1]
			}
			if e.Kind == "store" && e.Addr.Op == "fa" && e.Addr.Name == "BodyBuffer" {
				bodyBuf = e.Val
			}
			if e.Kind == "store" && e.Addr.Op == "fa" && e.Addr.Name == "StatusCode" {
				status = e.Val
			}
		}
		if enc == nil || enc.Key() != ext(G.Result, 0).Key() {
			bad = append(bad, "Content-Encoding is set to "+prettyTerm(enc)+", not the negotiated label, on "+where)
		}
		if bodyBuf == nil || !bodyBuf.contains(func(x *Term) bool { return x.Key() == ext(G.Result, 1).Key() }) || !(bodyBuf.Op == "call" && strings.HasPrefix(bodyBuf.Name, "bytes.NewBuffer")) {
			bad = append(bad, "the body buffer is "+prettyTerm(bodyBuf)+", not the negotiated body, on "+where)
		}
		if status == nil || !isRespField(status, "StatusCode") {
			bad = append(bad, "the status code written is "+prettyTerm(status)+" on "+where)
		}
		if merged == nil || !isRespField(merged, "Header") {
			bad = append(bad, "the stored header is not merged into the response on "+where)
		}
	})
	if okPaths == 0 {
		c.undecided("fill-pairing", name, pos, "idiom not recognised")
		return
	}
	c.check(len(bad) == 0, "fill-pairing", name, pos, fmt.Sprintf("%d paths: Content-Encoding and body are results #0/#1 of one negotiation on the client's Accept-Encoding; status and header from the same response", n), strings.Join(uniq(bad), " || "), n)
}

// ruleIngest: NewHTTPResponse files the upstream body under the variant its
// encoding names, decodes every other encoding into RawBody, and deep-copies the
// header minus the recomputed fields.
func ruleIngest(c *Ctx) {
	fn := c.P.Func("cache", "NewHTTPResponse")
	if fn == nil {
		c.undecided("ingest", "NewHTTPResponse", "-", "function not found")
		return
	}
	name, pos := funcName(fn), c.P.pos(fn.Pos())
	n := 0
	bad := []string{}
	kinds := map[string]bool{}
	c.P.Simulate(fn, SimConfig{Inline: orHelpers(fn, func(cal *ssa.Function, d int) bool {
		return inPkg(cal, "cache") && cal.Name() == "cloneHeaderAndIgnore" && d < 1
	})}, func(pr *PathResult) {
		n++
		where := "path [" + condString(pr.Conds) + "]"
		if len(pr.Results) != 2 {
			return
		}
		encIs := ""
		encKnown := false
		notEnc := map[string]bool{}
		for _, l := range pr.Conds {
			if l.Atom.Op == "eq" && l.Atom.Args[0].Op == "sym" && l.Atom.Args[0].Name == "p:encoding" {
				if s, ok := l.Atom.Args[1].StrVal(); ok {
					if l.Pol {
						encIs, encKnown = s, true
					} else {
						notEnc[s] = true
					}
				}
			}
		}
		stores := map[string]*Term{}
		var resp *Term
		for _, e := range pr.Events {
			if e.Kind == "store" && e.Addr.Op == "fa" && e.Addr.Args[0].Op == "alloc" {
				stores[e.Addr.Name] = e.Val
				resp = e.Addr.Args[0]
			}
		}
		_ = resp
		data := func(t *Term) bool { return t != nil && t.Op == "sym" && t.Name == "p:data" }
		if sc := stores["StatusCode"]; sc == nil || !(sc.Op == "sym" && sc.Name == "p:statusCode") {
			bad = append(bad, "the status code stored is "+prettyTerm(sc)+" on "+where)
		}
		if h := stores["Header"]; h == nil || !(h.Op == "call" && strings.HasPrefix(h.Name, "(net/http.Header).Clone")) {
			bad = append(bad, "the header stored is "+prettyTerm(h)+", not a deep copy (Header.Clone) of the upstream's, on "+where)
		}
		switch {
		case encKnown && encIs == "gzip":
			kinds["gzip"] = true
			if !data(stores["GzipBody"]) || stores["BrBody"] != nil || stores["RawBody"] != nil {
				bad = append(bad, "a gzip body is not filed as (only) the gzip variant on "+where)
			}
		case encKnown && encIs == "br":
			kinds["br"] = true
			if !data(stores["BrBody"]) || stores["GzipBody"] != nil || stores["RawBody"] != nil {
				bad = append(bad, "a br body is not filed as (only) the br variant on "+where)
			}
		case encKnown && encIs == "":
			kinds["identity"] = true
			if !data(stores["RawBody"]) || stores["GzipBody"] != nil || stores["BrBody"] != nil {
				bad = append(bad, "an identity body is not filed as (only) the raw variant on "+where)
			}
		case notEnc["gzip"] && notEnc["br"] && notEnc[""]:
			kinds["other"] = true
			var dec *Event
			for _, e := range pr.Events {
				if e.Kind == "call" && e.Callee != nil && e.Callee.Name() == "Decompress" {
					dec = e
				}
			}
			if dec == nil || !(dec.Args[1].Op == "sym" && dec.Args[1].Name == "p:encoding") || !data(dec.Args[2]) {
				bad = append(bad, "a body in another encoding is not decoded with Decompress(encoding, data) on "+where)
				return
			}
			errK, errNil := pr.Facts.Decide(eqTerm(ext(dec.Result, 1), nilTerm(nil)))
			if errK && !errNil {
				if !pr.Results[0].IsNil() || pr.Results[1].IsNil() {
					bad = append(bad, "a decode failure still yields a response on "+where)
				}
				return
			}
			if rb := stores["RawBody"]; rb == nil || rb.Key() != ext(dec.Result, 0).Key() || stores["GzipBody"] != nil || stores["BrBody"] != nil {
				bad = append(bad, "the decoded body is not filed as (only) the raw variant on "+where)
			}
		default:
			bad = append(bad, "the upstream encoding is not fully distinguished on "+where)
		}
	})
	if len(kinds) < 4 {
		c.undecided("ingest", name, pos, fmt.Sprintf("idiom not recognised (%v)", kinds))
		return
	}
	c.check(len(bad) == 0, "ingest", name, pos, fmt.Sprintf("%d paths: gzip/br/identity bodies filed under exactly the matching variant, every other encoding decoded into the raw variant or rejected; header deep-copied", n), strings.Join(uniq(bad), " || "), n)
}

// stringTable reads the constant elements of a package-level []string.
func (p *Program) stringTable(pkg, name string) ([]string, bool) {
	g := p.Global(pkg, name)
	sp := p.SSAPkgs[pkgPath(pkg)]
	if g == nil || sp == nil || sp.Func("init") == nil {
		return nil, false
	}
	for _, b := range sp.Func("init").Blocks {
		for _, in := range b.Instrs {
			st, ok := in.(*ssa.Store)
			if !ok || st.Addr != g {
				continue
			}
			sl, ok := st.Val.(*ssa.Slice)
			if !ok {
				return nil, false
			}
			al, ok := sl.X.(*ssa.Alloc)
			if !ok {
				return nil, false
			}
			out := map[int64]string{}
			for _, r := range *al.Referrers() {
				ia, ok := r.(*ssa.IndexAddr)
				if !ok {
					continue
				}
				idx, ok := ia.Index.(*ssa.Const)
				if !ok {
					return nil, false
				}
				for _, rr := range *ia.Referrers() {
					if s2, ok := rr.(*ssa.Store); ok {
						cst, ok := s2.Val.(*ssa.Const)
						if !ok {
							return nil, false
						}
						sv, ok := constTerm(cst.Value, cst.Type()).StrVal()
						if !ok {
							return nil, false
						}
						out[idx.Int64()] = sv
					}
				}
			}
			res := []string{}
			for i := int64(0); i < int64(len(out)); i++ {
				res = append(res, out[i])
			}
			return res, true
		}
	}
	return nil, false
}

// ruleIgnoredHeaders: the stored header drops exactly the fields pike recomputes
// per client (and at most hop-by-hop / date fields).
func ruleIgnoredHeaders(c *Ctx) {
	tbl, ok := c.P.stringTable("cache", "ignoreHeaders")
	if !ok {
		c.undecided("ignored-headers", "cache.ignoreHeaders", "-", "table is not a constant string slice")
		return
	}
	g := c.P.Global("cache", "ignoreHeaders")
	pos := c.P.pos(g.Pos())
	bad := []string{}
	has := map[string]bool{}
	for _, h := range tbl {
		has[strings.ToLower(h)] = true
	}
	for _, must := range []string{"content-encoding", "content-length"} {
		if !has[must] {
			bad = append(bad, must+" is kept in the stored header: it would contradict the variant / length actually sent to each client")
		}
	}
	allowed := map[string]bool{"content-encoding": true, "content-length": true, "transfer-encoding": true, "connection": true, "keep-alive": true, "date": true}
	for h := range has {
		if !allowed[h] {
			bad = append(bad, "end-to-end header "+h+" is dropped from stored responses")
		}
	}
	// the clone deletes exactly the table's entries; writers of the table
	for _, w := range globalWriters(c.P, g) {
		if w.Name() != "init" {
			bad = append(bad, "the table is modified at run time in "+funcName(w))
		}
	}
	c.check(len(bad) == 0, "ignored-headers", "cache.ignoreHeaders", pos, fmt.Sprintf("table %v: contains Content-Encoding and Content-Length, only recomputed/hop-by-hop fields, never modified at run time", tbl), strings.Join(uniq(bad), " || "), len(tbl))
}

func globalWriters(p *Program, g *ssa.Global) []*ssa.Function {
	out := []*ssa.Function{}
	for _, f := range p.allFuncs {
		w := false
		for _, b := range f.Blocks {
			for _, in := range b.Instrs {
				if st, ok := in.(*ssa.Store); ok {
					if st.Addr == g {
						w = true
					}
					if ia, ok := st.Addr.(*ssa.IndexAddr); ok {
						if ld, ok := ia.X.(*ssa.UnOp); ok && ld.X == g {
							w = true
						}
					}
				}
			}
		}
		if w {
			out = append(out, f)
		}
	}
	return out
}

// ruleCompressVariants: Compress produces both variants from the raw body with
// the response's profile and drops the raw body only when both exist.
func ruleCompressVariants(c *Ctx) {
	fn := respMethod(c.P, "Compress")
	if fn == nil {
		c.undecided("compress-variants", "Compress", "-", "function not found")
		return
	}
	name, pos := funcName(fn), c.P.pos(fn.Pos())
	n, drops := 0, 0
	bad := []string{}
	var resp *Term
	c.P.Simulate(fn, SimConfig{Init: func(s *Sim, st *State, params []*Term) { resp = params[0] }}, func(pr *PathResult) {
		n++
		where := "path [" + condString(pr.Conds) + "]"
		s := &Sim{P: c.P, Cfg: SimConfig{NoHavoc: true}}
		dropsRaw := false
		for _, e := range pr.Events {
			if e.Kind == "store" && e.Addr.Op == "fa" && e.Addr.Name == "RawBody" && e.Addr.Args[0].Key() == resp.Key() {
				if e.Val.IsNil() {
					dropsRaw = true
				} else {
					bad = append(bad, "RawBody is overwritten with "+prettyTerm(e.Val)+" on "+where)
				}
			}
		}
		have := map[string]bool{}
		for _, f := range []string{"GzipBody", "BrBody"} {
			fv := c.P.StructField("cache", "HTTPResponse", f)
			v := s.finalCell(pr.State, resp, fv)
			produced := v.Op == "ext"
			if k, isZero := pr.Facts.Decide(eqTerm(&Term{Op: "len", Type: tInt, Args: []*Term{v}}, intTerm(0))); produced || (k && !isZero) {
				have[f] = true
			}
			if produced {
				call := v.Args[0]
				wantFn := map[string]string{"GzipBody": "Gzip", "BrBody": "Brotli"}[f]
				if call.Op != "call" || call.Fn == nil || call.Fn.Name() != wantFn {
					bad = append(bad, f+" is produced by "+prettyTerm(call)+" on "+where)
					continue
				}
				if raw, ok := isExtOfCallNamed(call.Args[1], 0, "GetRawBody"); !ok || raw.Args[0].Key() != resp.Key() {
					bad = append(bad, f+" is compressed from "+prettyTerm(call.Args[1])+", not the raw body, on "+where)
				}
				if !(call.Args[0].Op == "call" && call.Args[0].Fn != nil && call.Args[0].Fn.String() == pikeMod+"/compress.Get" && isRespField(call.Args[0].Args[0], "CompressSrv")) {
					bad = append(bad, f+" is not compressed with the response's own profile on "+where)
				}
				if dropsRaw {
					if k, isNil := pr.Facts.Decide(eqTerm(ext(call, 1), nilTerm(nil))); !(k && isNil) {
						bad = append(bad, "the raw body is dropped although producing "+f+" may have failed on "+where)
					}
				}
			} else if dropsRaw {
				// pre-existing variant must be known non-empty
				z := intTerm(0)
				if k, isZero := pr.Facts.Decide(eqTerm(&Term{Op: "len", Type: tInt, Args: []*Term{v}}, z)); !(k && !isZero) {
					bad = append(bad, "the raw body is dropped although "+f+" may be empty on "+where)
				}
			}
		}
		if dropsRaw {
			drops++
		}
		// a successful return leaves both variants or neither (neither: not compressible)
		if len(pr.Results) == 1 && pr.Exit == "return" {
			if k, isNil := pr.Facts.Decide(eqTerm(pr.Results[0], nilTerm(nil))); pr.Results[0].IsNil() || (k && isNil) {
				if have["GzipBody"] != have["BrBody"] {
					miss := "BrBody"
					if have["BrBody"] {
						miss = "GzipBody"
					}
					bad = append(bad, "returns success with one stored variant but without producing "+miss+" (that encoding is then compressed per request, or the other one is served instead) on "+where)
				}
			}
		}
	})
	if drops == 0 {
		c.undecided("compress-variants", name, pos, "no path drops the raw body: idiom not recognised")
		return
	}
	c.check(len(bad) == 0, "compress-variants", name, pos, fmt.Sprintf("%d paths (%d drop the raw body): variants are compressed from the raw body with the response's profile; raw is dropped only when both variants exist", n, drops), strings.Join(uniq(bad), " || "), n)
}

// rulePrecompress: the Hit completion sets the best-compression profile and
// compresses the response before publishing it; Compress has no other caller.
func rulePrecompress(c *Ctx, a *serverAnchors) {
	F := a.cacheable
	name, pos := funcName(F), c.P.pos(F.Pos())
	compressFn := respMethod(c.P, "Compress")
	best := c.P.Const("compress", "BestCompression")
	if compressFn == nil || best == nil {
		c.undecided("precompress", name, pos, "Compress / BestCompression not found")
		return
	}
	n := 0
	bad := []string{}
	var respP *Term
	c.P.Simulate(F, SimConfig{Inline: inlineCache, Init: func(s *Sim, st *State, params []*Term) {
		for i, prm := range F.Params {
			if i > 0 {
				if _, ok := prm.Type().(*types.Pointer); ok {
					respP = params[i]
				}
			}
		}
	}}, func(pr *PathResult) {
		n++
		where := "path [" + condString(pr.Conds) + "]"
		if pr.Exit != "return" {
			return
		}
		profAt, compAt, pubAt := -1, -1, -1
		for i, e := range pr.Events {
			if e.Kind == "store" && e.Addr.Op == "fa" && e.Addr.Name == "CompressSrv" && respP != nil && e.Addr.Args[0].Key() == respP.Key() {
				if s, ok := e.Val.StrVal(); ok && s == constantString(best) {
					profAt = i
				} else {
					bad = append(bad, "the profile set before pre-compression is "+prettyTerm(e.Val)+" on "+where)
				}
			}
			if e.Kind == "call" && e.Callee == compressFn && compAt < 0 {
				compAt = i
				if respP == nil || e.Args[0].Key() != respP.Key() {
					bad = append(bad, "Compress is applied to "+prettyTerm(e.Args[0])+" on "+where)
				}
			}
			if e.Kind == "store" && (isFieldAddr(e.Addr, a.cacheA.fResponse) || isFieldAddr(e.Addr, a.cacheA.fStatus)) && pubAt < 0 {
				pubAt = i
			}
			if (e.Kind == "send") && pubAt < 0 {
				pubAt = i
			}
		}
		if compAt < 0 {
			bad = append(bad, "a cacheable response is published without being pre-compressed (each client then pays a transcode, and the variant mix differs from the documented one) on "+where)
			return
		}
		if profAt < 0 || profAt > compAt {
			bad = append(bad, "the best-compression profile is not selected before compressing on "+where)
		}
		if pubAt >= 0 && compAt > pubAt {
			bad = append(bad, "the response is published (or waiters are woken) before it is compressed on "+where)
		}
	})
	// other callers of Compress
	for _, f := range c.P.allFuncs {
		if f == F {
			continue
		}
		for _, b := range f.Blocks {
			for _, in := range b.Instrs {
				if ci, ok := in.(ssa.CallInstruction); ok && ci.Common().StaticCallee() == compressFn {
					bad = append(bad, fmt.Sprintf("%s: Compress is also called from %s (a published response must not be rewritten)", c.P.pos(in.Pos()), funcName(f)))
				}
			}
		}
	}
	if n == 0 {
		c.undecided("precompress", name, pos, "no path")
		return
	}
	c.check(len(bad) == 0, "precompress", name, pos, fmt.Sprintf("%d paths: CompressSrv = BestCompression, then Compress(resp), before the entry is published; no other caller of Compress", n), strings.Join(uniq(bad), " || "), n)
}

func constantString(c *types.Const) string {
	s := c.Val().ExactString()
	if len(s) >= 2 && s[0] == '"' {
		return s[1 : len(s)-1]
	}
	return s
}

// ruleDecoderDispatch: Decompress maps every documented encoding to its own
// decoder, and each decoder reaches its codec's entry point.
func ruleDecoderDispatch(c *Ctx) {
	fn := c.P.Method("compress", "compressSrv", "Decompress")
	if fn == nil {
		c.undecided("decoder-dispatch", "Decompress", "-", "function not found")
		return
	}
	name, pos := funcName(fn), c.P.pos(fn.Pos())
	want := map[string]string{}
	for cn, dec := range map[string]string{"EncodingGzip": "Gunzip", "EncodingBrotli": "BrotliDecode", "EncodingLZ4": "LZ4Decode", "EncodingSnappy": "SnappyDecode", "EncodingZSTD": "ZSTDDecode"} {
		k := c.P.Const("compress", cn)
		if k == nil {
			c.undecided("decoder-dispatch", name, pos, "constant compress."+cn+" not found")
			return
		}
		want[constantString(k)] = dec
	}
	n := 0
	bad := []string{}
	seen := map[string]bool{}
	c.P.Simulate(fn, SimConfig{}, func(pr *PathResult) {
		n++
		enc, known := "", false
		for _, l := range pr.Conds {
			if l.Atom.Op == "eq" && l.Pol && l.Atom.Args[0].Op == "sym" {
				if s, ok := l.Atom.Args[1].StrVal(); ok {
					enc, known = s, true
				}
			}
		}
		if len(pr.Results) != 2 {
			return
		}
		r := pr.Results[0]
		if !known {
			if !r.IsNil() || pr.Results[1].IsNil() {
				bad = append(bad, "an unknown encoding is not rejected")
			}
			return
		}
		seen[enc] = true
		if enc == "" {
			if !(r.Op == "sym" && r.Name == "p:data") {
				bad = append(bad, "identity is not passed through")
			}
			return
		}
		call, ok := isExtOfCallNamed(r, 0, want[enc])
		if !ok && want[enc] != "" {
			// the worker the decoder method forwards to, called directly (forwarder rule pins that pairing)
			worker := "do" + want[enc]
			if want[enc] == "Gunzip" {
				worker = "doGunzip"
			}
			if wc, ok2 := isExtOfCallNamed(r, 0, worker); ok2 && len(wc.Args) == 1 {
				call, ok = &Term{Op: "call", Args: []*Term{nilTerm(nil), wc.Args[0]}}, true
			}
		}
		if want[enc] == "" {
			bad = append(bad, "undocumented encoding "+enc+" is decoded")
		} else if !ok || !(call.Args[1].Op == "sym" && call.Args[1].Name == "p:data") {
			bad = append(bad, fmt.Sprintf("encoding %q is decoded by %s instead of %s(data)", enc, prettyTerm(r), want[enc]))
		}
	})
	for enc := range want {
		if !seen[enc] {
			bad = append(bad, "encoding "+enc+" has no case")
		}
	}
	if !seen[""] {
		bad = append(bad, "identity has no case")
	}
	// each decoder method reaches the right library entry point
	entry := map[string]string{"Gunzip": "compress/gzip.NewReader", "BrotliDecode": "github.com/andybalholm/brotli.NewReader", "LZ4Decode": "github.com/pierrec/lz4.UncompressBlock",
		"SnappyDecode": "github.com/golang/snappy.Decode", "ZSTDDecode": "(*github.com/klauspost/compress/zstd.Decoder).DecodeAll",
		"Gzip": "compress/gzip.NewWriterLevel", "Brotli": "github.com/andybalholm/brotli.NewWriterLevel"}
	for m, lib := range entry {
		mf := c.P.Method("compress", "compressSrv", m)
		if mf == nil {
			bad = append(bad, "method "+m+" not found")
			continue
		}
		reach := map[string]bool{}
		var walk func(f *ssa.Function, d int)
		walk = func(f *ssa.Function, d int) {
			for _, b := range f.Blocks {
				for _, in := range b.Instrs {
					if ci, ok := in.(ssa.CallInstruction); ok {
						if sc := ci.Common().StaticCallee(); sc != nil {
							reach[sc.String()] = true
							if d < 3 && sc.Blocks != nil && inPkg(sc, "compress") {
								walk(sc, d+1)
							}
						}
					}
				}
			}
		}
		walk(mf, 0)
		if !reach[lib] {
			bad = append(bad, m+" does not reach "+lib)
		}
		for m2, lib2 := range entry {
			if m2 != m && lib2 != lib && reach[lib2] {
				bad = append(bad, m+" reaches another codec's entry point "+lib2)
			}
		}
	}
	c.check(len(bad) == 0, "decoder-dispatch", name, pos, fmt.Sprintf("%d paths: every Encoding* constant and identity has its own case; each codec method reaches its own library entry point and no other", n), strings.Join(uniq(bad), " || "), n+len(entry))
}

// isPikeOrEltonHeaderDel: a call that deletes response headers on the context.
func isPikeOrEltonHeaderDel(f *ssa.Function) bool {
	nm := f.Name()
	return (nm == "ResetHeader" || nm == "DelHeader") && strings.Contains(f.String(), "elton.Context")
}
