package main

// Rules over package config: cross-reference validation, Write, the YAML/JSON
// field tables, and agreement between validators and the parsers that consume
// the validated fields.

import (
	"fmt"
	"go/constant"
	"go/token"
	"go/types"
	"os"
	"path/filepath"
	"reflect"
	"sort"
	"strings"

	"golang.org/x/tools/go/ssa"
)

// refPath renders a term such as c.Locations[i].Upstream as "Locations[].Upstream".
func refPath(t *Term) string {
	switch t.Op {
	case "fld":
		return refPath(t.Args[0]) + "." + t.Name
	case "init":
		return refPath(t.Args[0])
	case "fa":
		b := refPath(t.Args[0])
		if b == "" {
			return t.Name
		}
		return b + "." + t.Name
	case "ia":
		return refPath(t.Args[0]) + "[]"
	case "structval":
		return refPath(t.Args[0])
	case "sym":
		return ""
	}
	return "?"
}

// emptyCheckedField: the configuration field a value compared with "" was read from.
func emptyCheckedField(v ssa.Value, d int) string {
	if d > 5 {
		return ""
	}
	switch x := v.(type) {
	case *ssa.UnOp:
		return emptyCheckedField(x.X, d+1)
	case *ssa.FieldAddr:
		return faField(x).Name()
	case *ssa.Field:
		if st, ok := x.X.Type().Underlying().(*types.Struct); ok {
			return st.Field(x.Field).Name()
		}
	case *ssa.IndexAddr:
		return emptyCheckedField(x.X, d+1)
	case *ssa.Index:
		return emptyCheckedField(x.X, d+1)
	case *ssa.Extract:
		if nx, ok := x.Tuple.(*ssa.Next); ok {
			if r, ok := nx.Iter.(*ssa.Range); ok {
				return emptyCheckedField(r.X, d+1)
			}
		}
	case *ssa.Phi:
		for _, e := range x.Edges {
			if f := emptyCheckedField(e, d+1); f != "" {
				return f
			}
		}
	}
	return ""
}

func ruleValidateRefs(c *Ctx) {
	fn := c.P.Method("config", "PikeConfig", "Validate")
	if fn == nil {
		c.undecided("reference-checks", "PikeConfig.Validate", "-", "not found")
		return
	}
	name, pos := funcName(fn), c.P.pos(fn.Pos())
	want := map[string]string{
		"Locations[].Upstream|Upstreams[].Name":  "ErrUpstreamNotFound",
		"Servers[].Locations[]|Locations[].Name": "ErrLocationNotFound",
		"Servers[].Cache|Caches[].Name":          "ErrCacheNotFound",
		"Servers[].Compress|Compresses[].Name":   "ErrCompressNotFound",
	}
	seenPairs := map[string]bool{}
	errsReturned := map[string]bool{}
	bad := []string{}
	n := 0
	structFirst := true
	// first with loops followed twice; when a comparison only shows on a later visit of a loop header (a found
	// flag assigned from the comparison and tested by the loop condition) once more with a third visit
	var sim *Sim
	deepOverflow := false
	for _, visits := range []int{2, 3} {
		if visits == 3 {
			complete := true
			for k := range want {
				if !seenPairs[k] {
					complete = false
				}
			}
			if complete || sim.Overflow {
				break
			}
		}
		prev := sim
		sim = c.P.Simulate(fn, SimConfig{MaxPaths: 1 << 18, MaxVisits: visits}, func(pr *PathResult) {
			n++
			// name sets: m[x.Name] = … followed by a membership test m[ref]
			sets := map[string]string{}
			for _, e := range pr.Events {
				if e.Kind == "mapupdate" && e.Addr != nil && len(e.Args) == 1 {
					sets[e.Addr.Key()] = strings.TrimPrefix(refPath(e.Args[0]), ".")
				}
			}
			for _, l := range pr.Conds {
				l.Atom.walk(func(x *Term) bool {
					if x.Op == "lookup" && len(x.Args) == 2 {
						if member, ok := sets[x.Args[0].Key()]; ok {
							a := strings.TrimPrefix(refPath(x.Args[1]), ".")
							for _, k := range []string{a + "|" + member, member + "|" + a} {
								if _, ok := want[k]; ok {
									seenPairs[k] = true
								}
							}
						}
					}
					return true
				})
			}
			for _, l := range pr.Conds {
				if l.Atom.Op == "eq" {
					a, b := strings.TrimPrefix(refPath(l.Atom.Args[0]), "."), strings.TrimPrefix(refPath(l.Atom.Args[1]), ".")
					for _, k := range []string{a + "|" + b, b + "|" + a} {
						if _, ok := want[k]; ok {
							seenPairs[k] = true
						}
					}
				}
			}
			if len(pr.Results) == 1 {
				r := pr.Results[0]
				if r.Op == "init" && r.Args[0].Op == "global" {
					parts := strings.Split(r.Args[0].Name, ".")
					errsReturned[parts[len(parts)-1]] = true
				}
			}
			// struct validation first
			first := true
			for _, e := range pr.Events {
				if e.Kind == "call" && e.Callee != nil {
					if strings.HasSuffix(e.Callee.String(), "validator/v10.Validate).Struct") {
						if !first {
							structFirst = false
						}
						if k, isNil := pr.Facts.Decide(eqTerm(e.Result, nilTerm(nil))); k && !isNil {
							if len(pr.Results) != 1 || pr.Results[0].Key() != e.Result.Key() {
								bad = append(bad, "a struct-validation error is not returned")
							}
						}
					}
					first = false
				}
			}
		})
		if visits == 3 && sim.Overflow {
			sim = prev // the deeper run did not finish: what the first run established stands
			deepOverflow = true
		}
	}
	if sim.Overflow {
		c.undecided("reference-checks", name, pos, "path enumeration overflow")
		return
	}
	if deepOverflow {
		for k := range want {
			if !seenPairs[k] {
				c.undecided("reference-checks", name, pos, "path enumeration overflow before the comparison for "+k+" was reached")
				return
			}
		}
	}
	for k, e := range want {
		if !seenPairs[k] {
			bad = append(bad, "no comparison of "+strings.Replace(k, "|", " with ", 1)+" (dangling "+strings.Split(k, "|")[0]+" would be accepted)")
		}
		if !errsReturned[e] {
			bad = append(bad, e+" is never returned")
		}
	}
	if !structFirst {
		bad = append(bad, "field validation (validator.Struct) is not the first step")
	}
	// the found-flags are per referrer: no flag state is carried around the outermost loop of its section
	flags := 0
	var allBlocks []*ssa.BasicBlock
	for g := range staticScope(fn, "config", 3) {
		allBlocks = append(allBlocks, g.Blocks...)
	}
	for _, b := range allBlocks {
		iff, ok := b.Instrs[len(b.Instrs)-1].(*ssa.If)
		if !ok {
			continue
		}
		retErr := false
		for _, s := range b.Succs {
			for _, in := range s.Instrs {
				if r, ok := in.(*ssa.Return); ok && len(r.Results) == 1 {
					if ld, ok := r.Results[0].(*ssa.UnOp); ok {
						if g, ok := ld.X.(*ssa.Global); ok && strings.HasPrefix(g.Name(), "Err") {
							retErr = true
						}
					}
				}
			}
		}
		if !retErr {
			continue
		}
		flags++
		cyc := cycleOf(b)
		if cyc == nil {
			continue // not inside a loop of its function: the flag is local to one call (one referrer)
		}
		var outer *ssa.BasicBlock
		for x := range cyc {
			for _, p := range x.Preds {
				if !cyc[p] {
					outer = x
				}
			}
		}
		seen := map[ssa.Value]bool{}
		var walk func(v ssa.Value)
		walk = func(v ssa.Value) {
			if seen[v] {
				return
			}
			seen[v] = true
			switch x := v.(type) {
			case *ssa.UnOp:
				walk(x.X)
			case *ssa.BinOp:
				// the flag starts as "the reference is empty": only the two optional references may be left out
				if x.Op == token.EQL || x.Op == token.NEQ {
					for k, side := range []ssa.Value{x.X, x.Y} {
						other := []ssa.Value{x.Y, x.X}[k]
						if cst, ok := other.(*ssa.Const); !ok || cst.Value == nil || cst.Value.Kind() != constant.String || constant.StringVal(cst.Value) != "" {
							continue
						}
						fld := emptyCheckedField(side, 0)
						if fld != "" && fld != "Cache" && fld != "Compress" {
							bad = append(bad, fmt.Sprintf("%s: an empty %s is exempted from its reference check: it is accepted for saving although nothing can be named \"\" (the server then resolves nothing)", c.P.pos(x.Pos()), fld))
						}
					}
				}
			case *ssa.Phi:
				if x.Block() == outer {
					bad = append(bad, fmt.Sprintf("%s: the 'found' flag tested here is carried across iterations of the outer loop (it is not reset for each referrer): once one referrer resolves, every later dangling one is accepted", c.P.pos(iff.Cond.Pos())))
				}
				for _, e := range x.Edges {
					walk(e)
				}
			}
		}
		walk(iff.Cond)
	}
	if flags < 4 {
		bad = append(bad, fmt.Sprintf("only %d of the 4 reference checks end in an error return inside their loop", flags))
	}
	c.check(len(bad) == 0, "reference-checks", name, pos, fmt.Sprintf("%d paths: struct validation first; the four relations compare exactly (referrer field, referenced name) and return their error; each found-flag is per referrer", n), strings.Join(uniq(bad), " || "), n)
}

func ruleWriteValidates(c *Ctx) {
	fn := c.P.Func("config", "Write")
	if fn == nil {
		c.undecided("write-validates", "config.Write", "-", "not found")
		return
	}
	name, pos := funcName(fn), c.P.pos(fn.Pos())
	n, oks := 0, 0
	bad := []string{}
	c.P.Simulate(fn, SimConfig{}, func(pr *PathResult) {
		n++
		where := "path [" + condString(pr.Conds) + "]"
		if len(pr.Results) != 1 {
			return
		}
		var val, marshal, set *Event
		valAt, setAt := -1, -1
		for i, e := range pr.Events {
			if e.Kind == "call" && e.Callee != nil && e.Callee.Name() == "Validate" && inPkg(e.Callee, "config") {
				val, valAt = e, i
			}
			if e.Kind == "call" && e.Callee != nil && e.Callee.String() == "gopkg.in/yaml.v2.Marshal" {
				marshal = e
			}
			if e.Kind == "invoke" && e.Method != nil && e.Method.Name() == "Set" {
				set, setAt = e, i
			}
		}
		if set != nil {
			if val == nil || valAt > setAt {
				bad = append(bad, "the configuration is written without having been validated on "+where)
			} else if k, isNil := pr.Facts.Decide(eqTerm(val.Result, nilTerm(nil))); !(k && isNil) {
				bad = append(bad, "the configuration is written although validation may have failed on "+where)
			}
			if marshal == nil || set.Args[1].Key() != ext(marshal.Result, 0).Key() {
				bad = append(bad, "what is written is "+prettyTerm(set.Args[1])+", not the YAML of the validated configuration on "+where)
			} else if !(marshal.Args[0].strip().Op == "sym") {
				bad = append(bad, "what is marshalled is "+prettyTerm(marshal.Args[0])+" on "+where)
			}
			if pr.Results[0].Key() != set.Result.Key() {
				bad = append(bad, "the store's error is not returned on "+where)
			}
			// what was validated is what is written: between Validate and the write nothing edits the configuration
			// (its Version stamp aside) and no pike function that writes configuration fields is applied to it
			for i := valAt + 1; i < setAt && i < len(pr.Events); i++ {
				e := pr.Events[i]
				switch {
				case e.Kind == "store" && e.Addr != nil && (e.Addr.Op == "fa" || e.Addr.Op == "ia"):
					if e.Addr.Op == "fa" && e.Addr.Name == "Version" {
						continue
					}
					if e.Addr.contains(func(x *Term) bool { return x.Op == "sym" && strings.HasPrefix(x.Name, "p:") }) {
						bad = append(bad, "the configuration is edited ("+prettyTerm(e.Addr)+") after it was validated and before it is written: what is saved is not what was accepted on "+where)
					}
				case e.Kind == "call" && e.Callee != nil && !isPike(e.Callee) && (e.Callee.Name() == "Unmarshal" || e.Callee.Name() == "UnmarshalStrict" || e.Callee.Name() == "Decode"):
					for _, a := range e.Args {
						if a != nil && a.contains(func(x *Term) bool { return x.Op == "sym" && strings.HasPrefix(x.Name, "p:") }) && !a.IsConst() {
							if _, isPtr := a.strip().Type.(*types.Pointer); isPtr || strings.Contains(fmt.Sprint(a.strip().Type), "PikeConfig") {
								bad = append(bad, "after validation a document is decoded over the configuration ("+funcName(e.Callee)+"): what is saved was never validated on "+where)
							}
						}
					}
				case e.Kind == "call" && e.Callee != nil && inPkg(e.Callee, "config") && e.Callee.Name() != "Validate":
					if ms := c.P.mods(e.Callee); ms != nil && (ms.unknown || len(ms.fields) > 0) {
						for fv := range ms.fields {
							if fv.Pkg() != nil && fv.Pkg().Path() == pkgPath("config") && fv.Name() != "Version" {
								bad = append(bad, "after validation the configuration goes through "+funcName(e.Callee)+", which rewrites "+fv.Name()+": what is saved is not what was accepted (references that were closed can dangle) on "+where)
							}
						}
					}
				}
			}
			oks++
			return
		}
		// no write on this path: it must report an error
		if pr.Results[0].IsNil() {
			bad = append(bad, "Write reports success without writing anything (a later Read returns something else) on "+where)
		} else if k, isNil := pr.Facts.Decide(eqTerm(pr.Results[0], nilTerm(nil))); !(k && !isNil) && pr.Results[0].Op != "ext" && pr.Results[0].Op != "call" {
			bad = append(bad, "Write may report success without writing on "+where)
		}
	})
	if oks == 0 {
		c.undecided("write-validates", name, pos, "idiom not recognised")
		return
	}
	// who may call Client.Set
	for _, f := range c.P.allFuncs {
		if f == fn {
			continue
		}
		for _, b := range f.Blocks {
			for _, in := range b.Instrs {
				if ci, ok := in.(ssa.CallInstruction); ok && ci.Common().IsInvoke() && ci.Common().Method.Name() == "Set" && strings.HasSuffix(ci.Common().Method.FullName(), "config.Client).Set") {
					bad = append(bad, fmt.Sprintf("%s: Client.Set is also called from %s, bypassing validation", c.P.pos(in.Pos()), funcName(f)))
				}
			}
		}
	}
	c.check(len(bad) == 0, "write-validates", name, pos, fmt.Sprintf("%d paths: Set(yaml.Marshal(config)) only after Validate() returned nil; every path without a write returns an error; no other caller of Client.Set", n), strings.Join(uniq(bad), " || "), n)
}

var builtinValidatorTags = map[string]bool{"required": true, "omitempty": true, "dive": true, "min": true, "max": true, "gt": true, "gte": true, "lt": true, "lte": true,
	"url": true, "ascii": true, "hostname": true, "len": true, "eq": true, "ne": true, "oneof": true, "numeric": true, "keys": true, "endkeys": true}

func configStructs(p *Program) []*types.Named {
	tp := p.TypePkgs[pkgPath("config")]
	out := []*types.Named{}
	if tp == nil {
		return out
	}
	for _, nm := range tp.Scope().Names() {
		if tn, ok := tp.Scope().Lookup(nm).(*types.TypeName); ok && strings.HasSuffix(nm, "Config") {
			if n, ok := tn.Type().(*types.Named); ok {
				if _, ok := n.Underlying().(*types.Struct); ok {
					out = append(out, n)
				}
			}
		}
	}
	return out
}

// unknownSampleKeys: keys of a YAML document (block style, as config.Write
// produces) that are not the YAML key of a field of the struct they sit in.
func unknownSampleKeys(doc string, structs []*types.Named) ([]string, int) {
	root := (*types.Named)(nil)
	for _, s := range structs {
		if s.Obj().Name() == "PikeConfig" {
			root = s
		}
	}
	if root == nil {
		return nil, 0
	}
	yamlKey := func(st *types.Struct, i int) string {
		y := strings.Split(reflect.StructTag(st.Tag(i)).Get("yaml"), ",")[0]
		if y == "" {
			y = strings.ToLower(st.Field(i).Name())
		}
		return y
	}
	elemStruct := func(t types.Type) (*types.Struct, bool) { // struct, or skip (map / scalar)
		for {
			switch u := t.Underlying().(type) {
			case *types.Slice:
				t = u.Elem()
				continue
			case *types.Pointer:
				t = u.Elem()
				continue
			case *types.Struct:
				return u, true
			}
			return nil, false
		}
	}
	type frame struct {
		indent int
		st     *types.Struct // nil: children are not checked (map values, scalars)
	}
	stack := []frame{{-1, root.Underlying().(*types.Struct)}}
	unknown := []string{}
	n := 0
	for _, line := range strings.Split(doc, "\n") {
		trim := strings.TrimLeft(line, " ")
		if trim == "" || strings.HasPrefix(trim, "#") {
			continue
		}
		indent := len(line) - len(trim)
		for strings.HasPrefix(trim, "- ") {
			trim = strings.TrimLeft(trim[2:], " ")
			indent = len(line) - len(trim)
		}
		colon := strings.Index(trim, ":")
		if colon <= 0 || strings.ContainsAny(trim[:colon], " '\"{[") {
			continue // a scalar list item
		}
		if !(colon == len(trim)-1 || trim[colon+1] == ' ') {
			continue
		}
		key := trim[:colon]
		for len(stack) > 1 && stack[len(stack)-1].indent >= indent {
			stack = stack[:len(stack)-1]
		}
		cur := stack[len(stack)-1].st
		if cur == nil {
			stack = append(stack, frame{indent, nil})
			continue
		}
		n++
		var child *types.Struct
		found := false
		for i := 0; i < cur.NumFields(); i++ {
			if yamlKey(cur, i) == key {
				found = true
				child, _ = elemStruct(cur.Field(i).Type())
			}
		}
		if !found {
			unknown = append(unknown, key)
		}
		stack = append(stack, frame{indent, child})
	}
	return unknown, n
}

func ruleYAMLTable(c *Ctx) {
	structs := configStructs(c.P)
	if len(structs) < 7 {
		c.undecided("yaml-table", "config", "-", fmt.Sprintf("only %d configuration structs found", len(structs)))
		return
	}
	n := 0
	bad := []string{}
	var okType func(t types.Type, d int) bool
	okType = func(t types.Type, d int) bool {
		if d > 5 {
			return false
		}
		switch u := t.Underlying().(type) {
		case *types.Basic:
			return u.Info()&(types.IsString|types.IsBoolean|types.IsInteger) != 0
		case *types.Slice:
			return okType(u.Elem(), d+1)
		case *types.Map:
			return okType(u.Key(), d+1) && okType(u.Elem(), d+1)
		case *types.Struct:
			return true
		}
		return false
	}
	dashAllowed := map[string]bool{"PikeConfig.YAML": true, "UpstreamServerConfig.Healthy": true}
	for _, s := range structs {
		st := s.Underlying().(*types.Struct)
		yk, jk := map[string]string{}, map[string]string{}
		for i := 0; i < st.NumFields(); i++ {
			f := st.Field(i)
			if !f.Exported() {
				continue
			}
			n++
			tag := reflect.StructTag(st.Tag(i))
			full := s.Obj().Name() + "." + f.Name()
			y := strings.Split(tag.Get("yaml"), ",")[0]
			j := strings.Split(tag.Get("json"), ",")[0]
			if y == "-" {
				if !dashAllowed[full] {
					bad = append(bad, full+" is tagged yaml:\"-\": it is lost when the configuration is saved and read back")
				}
			} else {
				if y == "" {
					y = strings.ToLower(f.Name())
				}
				if prev, dup := yk[y]; dup {
					bad = append(bad, full+" and "+prev+" share the YAML key "+y)
				}
				yk[y] = full
				if strings.Contains(tag.Get("yaml"), "inline") || strings.Contains(tag.Get("yaml"), "flow") {
					bad = append(bad, full+" uses a YAML option that changes the saved shape")
				}
			}
			if j != "" && j != "-" && y != "-" && j != y {
				bad = append(bad, full+" is the YAML key "+y+" but the JSON key "+j+": the documented key (used by the admin API and the shipped pike.yml) is not the one a configuration file is read with, so the field is silently dropped")
			}
			if j != "" && j != "-" {
				if prev, dup := jk[j]; dup {
					bad = append(bad, full+" and "+prev+" share the JSON key "+j)
				}
				jk[j] = full
			}
			if !okType(f.Type(), 0) {
				bad = append(bad, full+" has type "+f.Type().String()+", which does not round-trip through YAML")
			}
		}
	}
	// the sample configuration shipped with the source is understood completely
	sampleKeys := 0
	if data, err := os.ReadFile(filepath.Join(c.P.Repo, "pike.yml")); err == nil {
		unknown, cnt := unknownSampleKeys(string(data), structs)
		sampleKeys = cnt
		for _, k := range unknown {
			bad = append(bad, "the shipped pike.yml uses the key "+k+", which no configuration field is read from")
		}
	}
	c.check(len(bad) == 0, "yaml-table", "config", "config/config.go", fmt.Sprintf("%d exported fields in %d structs: YAML/JSON keys unique and equal, only the two display-only fields are excluded, all types round-trip; %d keys of the shipped pike.yml are all known", n, len(structs), sampleKeys), strings.Join(uniq(bad), " || "), n)
}

// registeredValidators: tag -> library functions its validator calls.
// validatorTable: (tag, function) pairs written as elements of a struct table in package config
// (a string constant and a function stored into two fields of the same element).
func validatorTable(p *Program) map[string]*ssa.Function {
	out := map[string]*ssa.Function{}
	for _, f := range p.allFuncs {
		if !inPkg(f, "config") {
			continue
		}
		type pair struct {
			tag string
			fn  *ssa.Function
		}
		elems := map[ssa.Value]*pair{}
		for _, b := range f.Blocks {
			for _, in := range b.Instrs {
				st, ok := in.(*ssa.Store)
				if !ok {
					continue
				}
				fa, ok := st.Addr.(*ssa.FieldAddr)
				if !ok {
					continue
				}
				if _, isElem := fa.X.(*ssa.IndexAddr); !isElem {
					if _, isAlloc := fa.X.(*ssa.Alloc); !isAlloc {
						continue
					}
				}
				pr := elems[fa.X]
				if pr == nil {
					pr = &pair{}
					elems[fa.X] = pr
				}
				switch x := stripConv(st.Val).(type) {
				case *ssa.Const:
					if sv, ok := constTerm(x.Value, x.Type()).StrVal(); ok {
						pr.tag = sv
					}
				case *ssa.Function:
					pr.fn = x
				case *ssa.MakeClosure:
					pr.fn, _ = x.Fn.(*ssa.Function)
				}
			}
		}
		for _, pr := range elems {
			if pr.tag != "" && pr.fn != nil {
				out[pr.tag] = pr.fn
			}
		}
	}
	return out
}

func registeredValidators(p *Program) (map[string]map[string]bool, map[string]bool) {
	regs := map[string]map[string]bool{}
	aliases := map[string]bool{}
	// registrars: config functions through which a tag reaches the validator library
	reaches := func(f *ssa.Function, method string) bool {
		for g := range staticScope(f, "config", 3) {
			for _, b := range g.Blocks {
				for _, in := range b.Instrs {
					if ci, ok := in.(ssa.CallInstruction); ok {
						if sc := ci.Common().StaticCallee(); sc != nil && sc.Name() == method && sc.Pkg != nil && strings.Contains(sc.Pkg.Pkg.Path(), "go-playground/validator") {
							return true
						}
					}
				}
			}
		}
		return false
	}
	kind := map[*ssa.Function]string{}
	for _, f := range p.allFuncs {
		if !inPkg(f, "config") || f.Parent() != nil || len(f.Params) == 0 {
			continue
		}
		if b, ok := f.Params[0].Type().Underlying().(*types.Basic); !ok || b.Kind() != types.String {
			continue
		}
		switch {
		case reaches(f, "RegisterValidation"):
			kind[f] = "validate"
		case reaches(f, "RegisterAlias"):
			kind[f] = "alias"
		}
	}
	for _, f := range p.allFuncs {
		if !inPkg(f, "config") {
			continue
		}
		for _, b := range f.Blocks {
			for _, in := range b.Instrs {
				call, ok := in.(*ssa.Call)
				if !ok || call.Call.StaticCallee() == nil {
					continue
				}
				k := kind[call.Call.StaticCallee()]
				if k == "" {
					continue
				}
				cst, ok := call.Call.Args[0].(*ssa.Const)
				if !ok {
					// a registrar forwarding its own parameter, or a loop over a (tag, function) table
					if _, isParam := call.Call.Args[0].(*ssa.Parameter); !isParam && k == "validate" {
						for tag, fnv := range validatorTable(p) {
							calls := map[string]bool{}
							for g := range staticScope(fnv, "config", 2) {
								for _, bb := range g.Blocks {
									for _, i2 := range bb.Instrs {
										if ci, ok := i2.(ssa.CallInstruction); ok {
											if sc := ci.Common().StaticCallee(); sc != nil {
												calls[sc.String()] = true
											}
										}
									}
								}
							}
							regs[tag] = calls
						}
					}
					continue
				}
				tag, _ := constTerm(cst.Value, cst.Type()).StrVal()
				if k == "alias" {
					aliases[tag] = true
					continue
				}
				calls := map[string]bool{}
				for _, a := range call.Call.Args[1:] {
					var fnv *ssa.Function
					switch x := stripConv(a).(type) {
					case *ssa.MakeClosure:
						fnv, _ = x.Fn.(*ssa.Function)
					case *ssa.Function:
						fnv = x
					}
					if fnv == nil {
						continue
					}
					for g := range staticScope(fnv, "config", 2) {
						for _, bb := range g.Blocks {
							for _, i2 := range bb.Instrs {
								if ci, ok := i2.(ssa.CallInstruction); ok {
									if sc := ci.Common().StaticCallee(); sc != nil {
										calls[sc.String()] = true
									}
								}
							}
						}
					}
				}
				regs[tag] = calls
			}
		}
	}
	return regs, aliases
}

// libraryConsumers: configuration values that a dependency parses on pike's
// behalf (confirmed by reading the dependency), so the validator must use the
// dependency's parser.
var libraryConsumers = []struct{ typ, field, call, parser, reason string }{
	{"UpstreamServerConfig", "Addr", "(*github.com/vicanso/upstream.HTTP).Add", "net/url.Parse", "upstream.HTTP.Add calls url.Parse on the address and NewUpstreamServer does not report its error"},
}

func ruleValidatorsAgree(c *Ctx) {
	regs, aliases := registeredValidators(c.P)
	if len(regs) < 5 {
		c.undecided("validator-consumer-parser", "config", "-", fmt.Sprintf("only %d registered validators found", len(regs)))
		return
	}
	bad := []string{}
	n := 0
	// field -> custom tags
	fieldTags := map[*types.Var][]string{}
	for _, s := range configStructs(c.P) {
		st := s.Underlying().(*types.Struct)
		for i := 0; i < st.NumFields(); i++ {
			v := reflect.StructTag(st.Tag(i)).Get("validate")
			for _, part := range strings.Split(v, ",") {
				tag := strings.SplitN(strings.TrimSpace(part), "=", 2)[0]
				if tag == "" {
					continue
				}
				n++
				if builtinValidatorTags[tag] {
					continue
				}
				if _, ok := regs[tag]; !ok && !aliases[tag] {
					bad = append(bad, fmt.Sprintf("%s.%s uses validate tag %q which is never registered (validator panics on first use)", s.Obj().Name(), st.Field(i).Name(), tag))
				}
				fieldTags[st.Field(i)] = append(fieldTags[st.Field(i)], tag)
			}
		}
	}
	// consumers: pike code outside package config that parses a config field leniently
	parsers := map[string]bool{"time.ParseDuration": true, "github.com/dustin/go-humanize.ParseBytes": true, "regexp.Compile": true, "regexp.MustCompile": true, "regexp.CompilePOSIX": true, "regexp.MustCompilePOSIX": true, "strings.Split": true, "strings.SplitN": true, "strings.Cut": true, "net/url.Parse": true, "strconv.Atoi": true}
	consumers := 0
	for _, f := range c.P.allFuncs {
		if inPkg(f, "config") {
			continue
		}
		for _, b := range f.Blocks {
			for _, in := range b.Instrs {
				ci, ok := in.(ssa.CallInstruction)
				if !ok || ci.Common().StaticCallee() == nil || !parsers[ci.Common().StaticCallee().String()] {
					continue
				}
				arg := ci.Common().Args[0]
				fv := configFieldOf(arg, 0)
				if fv == nil {
					continue
				}
				consumers++
				p := ci.Common().StaticCallee().String()
				okV := false
				// a separator check can be written with any of the strings functions that find it
				// (Split and Count see every separator; SplitN(…, 2), Cut, Index only the first, so a
				// validator built on those accepts "a:b:c" while a consumer that splits fully drops it)
				same := []string{p}
				if p == "strings.Split" {
					same = []string{"strings.Split", "strings.Count"}
				}
				if p == "regexp.Compile" || p == "regexp.MustCompile" {
					same = []string{"regexp.Compile", "regexp.MustCompile"}
				}
				if p == "regexp.CompilePOSIX" || p == "regexp.MustCompilePOSIX" {
					// the POSIX syntax is a strict subset with different semantics: only a POSIX validator agrees
					same = []string{"regexp.CompilePOSIX", "regexp.MustCompilePOSIX"}
				}
				if p == "strings.SplitN" || p == "strings.Cut" || p == "strings.Index" {
					same = []string{"strings.Split", "strings.SplitN", "strings.Count", "strings.Cut", "strings.Index", "strings.IndexByte", "strings.Contains"}
				}
				for _, tag := range fieldTags[fv] {
					for _, q := range same {
						if regs[tag][q] {
							okV = true
						}
					}
				}
				if !okV {
					bad = append(bad, fmt.Sprintf("%s: %s parses config field %s with %s, but no validator of that field uses the same parser (tags %v): an accepted configuration can still fail to apply", c.P.pos(in.Pos()), funcName(f), fv.Name(), p, fieldTags[fv]))
				}
				// a validator that also accepts through another parser is wider than the consumer
				if okV && (p == "time.ParseDuration" || p == "github.com/dustin/go-humanize.ParseBytes") {
					for _, tag := range fieldTags[fv] {
						for q := range regs[tag] {
							if parsers[q] && !containsStr(same, q) && !strings.HasPrefix(q, "strings.") {
								bad = append(bad, fmt.Sprintf("%s: %s parses config field %s with %s only, but the validator of tag %q also runs %s: a value only the second parser accepts is saved and then silently dropped when applied", c.P.pos(in.Pos()), funcName(f), fv.Name(), p, tag, q))
							}
						}
					}
				}
			}
		}
	}
	// consumers behind a library boundary: the dependency parses the value and pike drops its error
	for _, lc := range libraryConsumers {
		called := false
		for _, f := range c.P.allFuncs {
			for _, b := range f.Blocks {
				for _, in := range b.Instrs {
					if ci, ok := in.(ssa.CallInstruction); ok {
						if sc := ci.Common().StaticCallee(); sc != nil && sc.String() == lc.call {
							called = true
						}
					}
				}
			}
		}
		if !called {
			continue // pike no longer hands the value to that library function
		}
		var fv *types.Var
		for _, s := range configStructs(c.P) {
			if s.Obj().Name() != lc.typ {
				continue
			}
			st := s.Underlying().(*types.Struct)
			for i := 0; i < st.NumFields(); i++ {
				if st.Field(i).Name() == lc.field {
					fv = st.Field(i)
				}
			}
		}
		if fv == nil {
			continue
		}
		consumers++
		okV := false
		for _, tag := range fieldTags[fv] {
			if regs[tag][lc.parser] {
				okV = true
			}
		}
		if !okV {
			bad = append(bad, fmt.Sprintf("config field %s.%s is parsed by %s with %s (%s), but no validator of that field uses the same parser (tags %v): an accepted configuration can still fail to apply", lc.typ, lc.field, lc.call, lc.parser, lc.reason, fieldTags[fv]))
		}
	}
	if consumers < 5 {
		c.undecided("validator-consumer-parser", "config", "-", fmt.Sprintf("only %d consumer parse sites found", consumers))
		return
	}
	c.check(len(bad) == 0, "validator-consumer-parser", "config", "config/validate.go", fmt.Sprintf("%d validate tags all registered; %d places that parse a configuration field use the parser its validator uses", n, consumers), strings.Join(uniq(bad), " || "), n+consumers)
}

// configFieldOf: v is (derived from) a field of a config struct, possibly an
// element of a []string field.
func configFieldOf(v ssa.Value, d int) *types.Var {
	if d > 5 {
		return nil
	}
	isCfg := func(t types.Type) bool {
		if p, ok := t.Underlying().(*types.Pointer); ok {
			t = p.Elem()
		}
		n, ok := t.(*types.Named)
		return ok && n.Obj().Pkg() != nil && n.Obj().Pkg().Path() == pkgPath("config")
	}
	switch x := v.(type) {
	case *ssa.Field:
		if isCfg(x.X.Type()) {
			return fieldOf(x.X.Type(), x.Field)
		}
	case *ssa.UnOp:
		switch y := x.X.(type) {
		case *ssa.FieldAddr:
			if isCfg(y.X.Type()) {
				return fieldOf(y.X.Type(), y.Field)
			}
		case *ssa.IndexAddr:
			return configFieldOf(y.X, d+1)
		}
	case *ssa.Index:
		return configFieldOf(x.X, d+1)
	case *ssa.Extract:
		if nx, ok := x.Tuple.(*ssa.Next); ok {
			if r, ok := nx.Iter.(*ssa.Range); ok {
				return configFieldOf(r.X, d+1)
			}
		}
	case *ssa.Phi:
		for _, e := range x.Edges {
			if f := configFieldOf(e, d+1); f != nil {
				return f
			}
		}
	case *ssa.Parameter:
		// helper closures such as fn(arr []string): look at the call sites
		fn := x.Parent()
		idx := -1
		for i, p := range fn.Params {
			if p == x {
				idx = i
			}
		}
		if fn.Parent() == nil && idx >= 0 && fn.Pkg != nil {
			// a package-level helper: look at its static call sites in the package
			var hosts []*ssa.Function
			var addFn func(f *ssa.Function)
			addFn = func(f *ssa.Function) {
				hosts = append(hosts, f)
				for _, an := range f.AnonFuncs {
					addFn(an)
				}
			}
			for _, m := range fn.Pkg.Members {
				if f, ok := m.(*ssa.Function); ok {
					addFn(f)
				}
			}
			for _, h := range hosts {
				for _, b := range h.Blocks {
					for _, in := range b.Instrs {
						if ci, ok := in.(ssa.CallInstruction); ok && ci.Common().StaticCallee() == fn && idx < len(ci.Common().Args) {
							if f := configFieldOf(ci.Common().Args[idx], d+1); f != nil {
								return f
							}
						}
					}
				}
			}
		}
		if fn.Parent() != nil && idx >= 0 {
			for _, b := range fn.Parent().Blocks {
				for _, in := range b.Instrs {
					if ci, ok := in.(ssa.CallInstruction); ok && !ci.Common().IsInvoke() {
						if mc, ok := ci.Common().Value.(*ssa.MakeClosure); ok && mc.Fn == fn && idx < len(ci.Common().Args) {
							if f := configFieldOf(ci.Common().Args[idx], d+1); f != nil {
								return f
							}
						}
						if ci.Common().Value == ssa.Value(fn) && idx < len(ci.Common().Args) {
							if f := configFieldOf(ci.Common().Args[idx], d+1); f != nil {
								return f
							}
						}
						// closure stored in a local variable
						if ld, ok := ci.Common().Value.(*ssa.UnOp); ok {
							_ = ld
						}
					}
				}
			}
			// any call in the parent whose callee value derives from this closure
			for _, b := range fn.Parent().Blocks {
				for _, in := range b.Instrs {
					if ci, ok := in.(ssa.CallInstruction); ok && ci.Common().StaticCallee() == fn && idx < len(ci.Common().Args) {
						if f := configFieldOf(ci.Common().Args[idx], d+1); f != nil {
							return f
						}
					}
				}
			}
		}
	}
	return nil
}

var _ = sort.Strings
