package main

// Sibling rules over the three Store back ends, the dispatcher's handling of a
// store that cannot be opened, and the configuration-to-option converters that
// carry the reference keys.

import (
	"fmt"
	"strings"

	"golang.org/x/tools/go/ssa"
)

// ruleStoreSiblings: every Get translates its back end's "no such key" sentinel
// to store.ErrNotFound; the network back ends bound every call by a context with
// the store's timeout and cancel it.
func ruleStoreSiblings(c *Ctx) {
	iface := c.P.NamedType("store", "Store")
	if iface == nil {
		c.undecided("store-siblings", "store.Store", "-", "interface not found")
		return
	}
	sentinels := map[string]string{"badgerStore": "ErrKeyNotFound", "redisStore": "Nil", "mongoStore": "ErrNoDocuments"}
	n := 0
	for _, typ := range []string{"badgerStore", "redisStore", "mongoStore"} {
		get := c.P.Method("store", typ, "Get")
		if get == nil {
			c.undecided("store-siblings", typ, "-", "Get not found")
			continue
		}
		n++
		name, pos := funcName(get), c.P.pos(get.Pos())
		translated := false
		scope := []*ssa.Function{get}
		scope = append(scope, get.AnonFuncs...)
		for _, an := range get.AnonFuncs {
			scope = append(scope, an.AnonFuncs...)
		}
		for _, f := range scope {
			c.P.Simulate(f, SimConfig{}, func(pr *PathResult) {
				isSentinel := false
				for _, l := range pr.Conds {
					if l.Atom.Op == "eq" && l.Pol && strings.HasSuffix(globalName(l.Atom.Args[1]), "."+sentinels[typ]) {
						isSentinel = true
					}
					// redis.Nil is a typed string constant boxed into the error interface
					if l.Atom.Op == "eq" && l.Pol && typ == "redisStore" {
						if sv, ok := l.Atom.Args[1].strip().StrVal(); ok && sv == "redis: nil" {
							isSentinel = true
						}
					}
				}
				if !isSentinel || len(pr.Results) == 0 {
					return
				}
				last := pr.Results[len(pr.Results)-1]
				if strings.HasSuffix(globalName(last), "store.ErrNotFound") {
					translated = true
				}
			})
		}
		c.check(translated, "store-siblings", name, pos, "the back end's 'no such key' ("+sentinels[typ]+") is returned as store.ErrNotFound (a plain miss, not a logged failure)",
			"the back end's 'no such key' sentinel "+sentinels[typ]+" is not translated to store.ErrNotFound: every first lookup of a key logs an error / is treated as a store failure", 1)
	}
	// deadlines of the network back ends
	for _, typ := range []string{"redisStore", "mongoStore"} {
		for _, m := range []string{"Get", "Set", "Delete"} {
			fn := c.P.Method("store", typ, m)
			if fn == nil {
				continue
			}
			n++
			name, pos := funcName(fn), c.P.pos(fn.Pos())
			bad := []string{}
			np := 0
			c.P.Simulate(fn, SimConfig{}, func(pr *PathResult) {
				np++
				var wt *Event
				cancelled := false
				used := false
				for _, e := range pr.Events {
					if e.Kind == "call" && e.Callee != nil && e.Callee.String() == "context.WithTimeout" {
						wt = e
						if !(e.Args[1].Op == "init" && e.Args[1].Args[0].Op == "fa" && e.Args[1].Args[0].Name == "timeout") {
							bad = append(bad, "the deadline is "+prettyTerm(e.Args[1])+", not the store's configured timeout")
						}
					}
					if wt != nil && e.Kind == "defer" && e.CalleeT != nil && e.CalleeT.Key() == ext(wt.Result, 1).Key() {
						cancelled = true
					}
					if wt != nil && (e.Kind == "invoke" || e.Kind == "call") && e != wt {
						for _, a := range e.Args {
							if a.strip().Key() == ext(wt.Result, 0).Key() {
								used = true
							}
						}
					}
				}
				if wt == nil || !used {
					bad = append(bad, "the back-end call is not bounded by a context with the store's timeout (a hung store stalls the fetcher while it holds the entry lock)")
				}
				_ = cancelled // releasing the context early is hygiene, not part of any property
			})
			c.check(len(bad) == 0 && np > 0, "remote-store-deadline", name, pos, "context.WithTimeout(…, s.timeout) is passed to the back end", strings.Join(uniq(bad), " || "), np)
		}
	}
	// defaults of the timeout
	for ctor, typ := range map[string]string{"newRedisStore": "redisStore", "fillMongoStoreOptions": "mongoStore"} {
		fn := c.P.Func("store", ctor)
		if fn == nil {
			continue
		}
		n++
		bad := []string{}
		okDefault := false
		c.P.Simulate(fn, SimConfig{}, func(pr *PathResult) {
			for _, e := range pr.Events {
				if e.Kind == "store" && e.Addr.Op == "fa" && e.Addr.Name == "timeout" {
					if v, ok := e.Val.IntVal(); ok {
						if v > 0 {
							okDefault = true
						} else {
							bad = append(bad, "timeout defaulted to a non-positive constant")
						}
					}
				}
			}
		})
		c.check(okDefault && len(bad) == 0, "remote-store-deadline", "store."+ctor, c.P.pos(fn.Pos()), typ+".timeout defaults to a positive constant", "no positive default for "+typ+".timeout: "+strings.Join(uniq(bad), " || "), 1)
	}
	if n < 9 {
		c.undecided("store-siblings", "store", "-", fmt.Sprintf("only %d back-end functions found", n))
	}
}

func globalName(t *Term) string {
	if t != nil && t.Op == "init" && len(t.Args) == 1 && t.Args[0].Op == "global" {
		return t.Args[0].Name
	}
	return ""
}

// ruleStoreOpenNonFatal: a store that cannot be opened leaves a working,
// memory-only dispatcher.
func ruleStoreOpenNonFatal(c *Ctx) {
	fn := c.P.Func("cache", "NewDispatcher")
	if fn == nil {
		c.undecided("store-open-failure-nonfatal", "NewDispatcher", "-", "not found")
		return
	}
	name, pos := funcName(fn), c.P.pos(fn.Pos())
	n, opens := 0, 0
	bad := []string{}
	c.P.Simulate(fn, SimConfig{}, func(pr *PathResult) {
		n++
		var ns *Event
		for _, e := range pr.Events {
			if e.Kind == "call" && e.Callee != nil && e.Callee.String() == pikeMod+"/store.NewStore" {
				ns = e
			}
			if e.Kind == "panic" {
				bad = append(bad, "a path panics")
			}
			if e.Kind == "call" && e.Callee != nil {
				cn := e.Callee.String()
				if cn == "os.Exit" || strings.Contains(cn, ".Fatal") || strings.Contains(cn, ".Panic") {
					bad = append(bad, "calls "+cn)
				}
			}
		}
		if ns == nil {
			return
		}
		opens++
		if pr.Exit != "return" || len(pr.Results) != 1 || pr.Results[0].Op != "alloc" {
			bad = append(bad, "does not return a dispatcher when a store is configured")
			return
		}
		// the store field is only set from a non-nil store
		for _, e := range pr.Events {
			if e.Kind == "store" && e.Addr.Op == "fa" && e.Addr.Name == "store" && e.Addr.Args[0].Key() == pr.Results[0].Key() {
				// what NewStore returned (nil when it failed: the field then stays nil, as if never set) or a
				// value known to be non-nil; anything else could be a typed nil the entries' nil test lets through
				v := stripConvTerm(e.Val.strip())
				fromOpen := v.IsNil() || (v.Op == "ext" && v.Name == "0" && ns.Result != nil && v.Args[0].Key() == ns.Result.Key())
				if k, isNil := pr.Facts.Decide(eqTerm(e.Val, nilTerm(nil))); !(k && !isNil) && !fromOpen {
					bad = append(bad, "a possibly nil store is installed (the entry would call methods on a nil interface)")
				}
			}
		}
	})
	if opens == 0 {
		c.undecided("store-open-failure-nonfatal", name, pos, "no path opens a store")
		return
	}
	c.check(len(bad) == 0, "store-open-failure-nonfatal", name, pos, fmt.Sprintf("%d paths: a failing store.NewStore is only logged; the dispatcher is still returned and only a non-nil store is installed", n), strings.Join(uniq(bad), " || "), n)
}

// ruleConverters: the configuration-to-option converters copy each
// reference-carrying field from the field of the same name.
func ruleConverters(c *Ctx) {
	refFields := map[string]bool{"Name": true, "Cache": true, "Upstream": true, "Locations": true, "Compress": true, "Addr": true, "Store": true, "Size": true,
		"Prefixes": true, "Hosts": true, "Rewrites": true, "Policy": true, "AcceptEncoding": true, "EnableH2C": true, "Backup": true, "LogFormat": true, "HealthCheck": true}
	// names and selectors that must arrive unedited: the value stored is the configuration field itself
	verbatim := map[string]bool{"Name": true, "Cache": true, "Upstream": true, "Compress": true, "Policy": true, "AcceptEncoding": true, "HealthCheck": true, "Addr": true, "Store": true}
	convs := []struct{ pkg, fn string }{{"cache", "convertConfigs"}, {"server", "convertConfig"}, {"location", "convertConfigs"}, {"upstream", "convertConfigs"}, {"compress", "convertConfigs"}}
	for _, cv := range convs {
		fn := c.P.Func(cv.pkg, cv.fn)
		if fn == nil {
			c.undecided("converter-field-map", cv.pkg+"."+cv.fn, "-", "converter not found")
			continue
		}
		name, pos := funcName(fn), c.P.pos(fn.Pos())
		seen := map[string]string{}
		bad := []string{}
		sim := c.P.Simulate(fn, SimConfig{MaxVisits: 2}, func(pr *PathResult) {
			for _, e := range pr.Events {
				if e.Kind != "store" || e.Addr.Op != "fa" || !refFields[e.Addr.Name] {
					continue
				}
				// value: a field of a configuration item (possibly HealthCheck->Ping style renames are not in refFields)
				src := ""
				e.Val.walk(func(x *Term) bool {
					if src == "" && (x.Op == "fld" || x.Op == "fa") && x.Obj != nil && x.Obj.Pkg() != nil && x.Obj.Pkg().Path() == pkgPath("config") {
						src = x.Name
					}
					return true
				})
				if src == "" {
					continue
				}
				seen[e.Addr.Name] = src
				if v := stripConvTerm(e.Val); verbatim[e.Addr.Name] && src == e.Addr.Name && v.Op != "fld" && !(v.Op == "init" && v.Args[0].Op == "fa") {
					bad = append(bad, fmt.Sprintf("option field %s is not the configured value itself but %s", e.Addr.Name, prettyTerm(v)))
				}
				if src != e.Addr.Name {
					bad = append(bad, fmt.Sprintf("option field %s is filled from configuration field %s", e.Addr.Name, src))
				}
			}
		})
		if sim.Overflow {
			c.undecided("converter-field-map", name, pos, "path enumeration overflow")
			continue
		}
		if len(seen) == 0 {
			c.undecided("converter-field-map", name, pos, "no field copies recognised")
			continue
		}
		c.check(len(bad) == 0, "converter-field-map", name, pos, fmt.Sprintf("%d reference-carrying fields copied from the configuration field of the same name: %v", len(seen), sortedKeys(seen)), strings.Join(uniq(bad), " || "), len(seen))
	}
	// the server's getters return the fields the constructor/update fill
	for g, f := range map[string]string{"GetCache": "cache", "GetLocations": "locations"} {
		fn := c.P.Method("server", "server", g)
		if fn == nil {
			c.undecided("converter-field-map", "server."+g, "-", "getter not found")
			continue
		}
		ok := false
		c.P.Simulate(fn, SimConfig{}, func(pr *PathResult) {
			if len(pr.Results) == 1 && isRespField(pr.Results[0], f) {
				ok = true
			}
		})
		c.check(ok, "converter-field-map", funcName(fn), c.P.pos(fn.Pos()), g+" returns server."+f, g+" does not return server."+f, 1)
	}
}

// ruleStoreWriteOrdered: writes and deletes on the persistent store issued by
// package cache happen synchronously in the calling function (never in a
// goroutine), so a purge that completes after a fetch cannot be undone by a late
// write and a record is complete before the entry is reported stored.
func ruleStoreWriteOrdered(c *Ctx) {
	n := 0
	bad := []string{}
	for _, f := range c.P.allFuncs {
		if !inPkg(f, "cache") {
			continue
		}
		for _, b := range f.Blocks {
			for _, in := range b.Instrs {
				ci, ok := in.(ssa.CallInstruction)
				if !ok || !ci.Common().IsInvoke() {
					continue
				}
				m := ci.Common().Method
				if !strings.HasSuffix(m.FullName(), "store.Store).Set") && !strings.HasSuffix(m.FullName(), "store.Store).Delete") {
					continue
				}
				n++
				if _, isGo := in.(*ssa.Go); isGo {
					bad = append(bad, fmt.Sprintf("%s: %s issues store.%s in a goroutine", c.P.pos(in.Pos()), funcName(f), m.Name()))
				}
				// the enclosing function must not itself be launched with `go`
				for g := f; g != nil; g = g.Parent() {
					if launchedAsync(c.P, g) {
						bad = append(bad, fmt.Sprintf("%s: store.%s runs in %s, which is started with `go`: the write is no longer ordered before a later purge / the completion's return", c.P.pos(in.Pos()), m.Name(), funcName(g)))
					}
				}
			}
		}
	}
	if n < 2 {
		c.undecided("store-write-ordered", "cache", "-", fmt.Sprintf("only %d store write/delete sites found in package cache", n))
		return
	}
	c.check(len(bad) == 0, "store-write-ordered", "cache", "cache/http_cache.go", fmt.Sprintf("%d store.Set / store.Delete sites in package cache, all synchronous", n), strings.Join(uniq(bad), " || "), n)
}

// launchedAsync: some `go` statement in pike starts f (directly or as a closure).
func launchedAsync(p *Program, f *ssa.Function) bool {
	for _, g := range p.allFuncs {
		for _, b := range g.Blocks {
			for _, in := range b.Instrs {
				gi, ok := in.(*ssa.Go)
				if !ok {
					continue
				}
				if gi.Call.StaticCallee() == f {
					return true
				}
				if mc, ok := gi.Call.Value.(*ssa.MakeClosure); ok && mc.Fn == f {
					return true
				}
			}
		}
	}
	return false
}
