package main

// Field-level modification summaries ("which struct fields may this function
// store to, transitively") for every pike function. They let the path engine
// forget exactly the cells a non-inlined callee may write instead of the whole
// heap. Unexported fields can only be written by code of their own package, so
// calls into libraries never invalidate them (reflection and unsafe aside; the
// only unsafe uses in pike are the two zero-copy string conversions checked by
// C06/unsafe-confined).

import (
	"fmt"
	"go/token"
	"go/types"
	"sort"
	"strings"

	"golang.org/x/tools/go/ssa"
)

const otherBase = uint64(1) << 63

// modSummary.fields maps a field to the bases through which it may be written:
// bit i = the object parameter i points to, otherBase = anything else.
type modSummary struct {
	fields  map[*types.Var]uint64
	globals map[*ssa.Global]bool
	unknown bool // calls code we cannot see into (dynamic call), or stores through an unresolved pointer
}

func (p *Program) implsOf(m *types.Func) []*ssa.Function {
	// pike methods that may be the target of an interface call to m
	recv := m.Type().(*types.Signature).Recv()
	if recv == nil {
		return nil
	}
	iface, ok := recv.Type().Underlying().(*types.Interface)
	if !ok {
		return nil
	}
	out := []*ssa.Function{}
	seen := map[*ssa.Function]bool{}
	for _, f := range p.allFuncs {
		if f.Signature.Recv() == nil || f.Name() != m.Name() || seen[f] {
			continue
		}
		rt := f.Signature.Recv().Type()
		if types.Implements(rt, iface) || types.Implements(types.NewPointer(rt), iface) {
			seen[f] = true
			out = append(out, f)
		}
	}
	return out
}

var modCache map[*ssa.Function]*modSummary

var modCacheFor *Program

func (p *Program) computeMods() {
	if modCache != nil && modCacheFor == p {
		return
	}
	modCacheFor = p
	modCache = map[*ssa.Function]*modSummary{}
	local := map[*ssa.Function]*modSummary{}
	calls := map[*ssa.Function][]callEdge{}
	for _, f := range p.allFuncs {
		ms := &modSummary{fields: map[*types.Var]uint64{}, globals: map[*ssa.Global]bool{}}
		local[f] = ms
		for _, b := range f.Blocks {
			for _, in := range b.Instrs {
				switch x := in.(type) {
				case *ssa.Store:
					p.modTarget(ms, x.Addr)
				case *ssa.MapUpdate:
					p.modContainer(ms, x.Map)
				case ssa.CallInstruction:
					c := x.Common()
					if c.IsInvoke() {
						for _, impl := range p.implsOf(c.Method) {
							calls[f] = append(calls[f], callEdge{impl, append([]ssa.Value{c.Value}, c.Args...)})
						}
						continue
					}
					if _, ok := c.Value.(*ssa.Builtin); ok {
						if bi := c.Value.(*ssa.Builtin); bi.Name() == "copy" || bi.Name() == "delete" || bi.Name() == "clear" {
							p.modContainer(ms, c.Args[0])
						}
						continue
					}
					if callee := c.StaticCallee(); callee != nil {
						if callee.Blocks != nil && isPikeFunc(callee) {
							calls[f] = append(calls[f], callEdge{callee, c.Args})
						} else {
							// library call: explicit addresses passed to it may be written
							for _, a := range c.Args {
								if fa, ok := a.(*ssa.FieldAddr); ok {
									if bit := baseBit(fa.X); bit != 0 {
										ms.fields[fieldOf(fa.X.Type(), fa.Field)] |= bit
									}
								}
								if g, ok := a.(*ssa.Global); ok {
									ms.globals[g] = true
								}
							}
						}
						continue
					}
					if fromLibrary(c.Value, 0) {
						continue // e.g. the cancel function returned by context.WithTimeout: library code cannot name pike's fields
					}
					ms.unknown = true
				}
			}
		}
	}
	// transitive closure
	changed := true
	for f, ms := range local {
		c := &modSummary{fields: map[*types.Var]uint64{}, globals: map[*ssa.Global]bool{}, unknown: ms.unknown}
		for k, v := range ms.fields {
			c.fields[k] = v
		}
		for k := range ms.globals {
			c.globals[k] = true
		}
		modCache[f] = c
	}
	for changed {
		changed = false
		for f, edges := range calls {
			ms := modCache[f]
			for _, e := range edges {
				cs := modCache[e.callee]
				if cs == nil {
					continue
				}
				if cs.unknown && !ms.unknown {
					ms.unknown = true
					changed = true
				}
				for k, mask := range cs.fields {
					var m uint64
					if mask&otherBase != 0 {
						m |= otherBase
					}
					for j := 0; j < 63 && j < len(e.args); j++ {
						if mask&(1<<uint(j)) != 0 {
							m |= baseBit(e.args[j])
						}
					}
					if m&^ms.fields[k] != 0 {
						ms.fields[k] |= m
						changed = true
					}
				}
				for k := range cs.globals {
					if !ms.globals[k] {
						ms.globals[k] = true
						changed = true
					}
				}
			}
		}
	}
}

// fromLibrary: the function value called is the result of a library call (and so
// is library code), possibly through a local variable.
func fromLibrary(v ssa.Value, d int) bool {
	if d > 4 {
		return false
	}
	switch x := v.(type) {
	case *ssa.Extract:
		return fromLibrary(x.Tuple, d+1)
	case *ssa.Call:
		if sc := x.Call.StaticCallee(); sc != nil && !isPikeFunc(sc) {
			return true
		}
	case *ssa.UnOp:
		if al, ok := x.X.(*ssa.Alloc); ok {
			all, any := true, false
			for _, r := range *al.Referrers() {
				if st, ok := r.(*ssa.Store); ok && st.Addr == al {
					any = true
					if !fromLibrary(st.Val, d+1) {
						all = false
					}
				}
			}
			return any && all
		}
	case *ssa.Phi:
		for _, e := range x.Edges {
			if !fromLibrary(e, d+1) {
				return false
			}
		}
		return len(x.Edges) > 0
	}
	return false
}

type callEdge struct {
	callee *ssa.Function
	args   []ssa.Value
}

// baseBit: which object does pointer value v denote, seen from the enclosing
// function's callers: parameter i (bit i), a fresh local object (0: invisible
// outside), or something else (otherBase).
func baseBit(v ssa.Value) uint64 {
	switch x := stripConv(v).(type) {
	case *ssa.Parameter:
		for i, prm := range x.Parent().Params {
			if prm == x && i < 63 {
				return 1 << uint(i)
			}
		}
	case *ssa.Alloc:
		return 0
	}
	return otherBase
}

// modTarget classifies the cell written by a store to addr.
func (p *Program) modTarget(ms *modSummary, addr ssa.Value) {
	switch a := addr.(type) {
	case *ssa.FieldAddr:
		if bit := baseBit(a.X); bit != 0 {
			ms.fields[fieldOf(a.X.Type(), a.Field)] |= bit
		}
	case *ssa.IndexAddr:
		p.modContainer(ms, a.X)
	case *ssa.Global:
		ms.globals[a] = true
	case *ssa.Alloc, *ssa.FreeVar:
		// local variable (possibly captured from the enclosing function) or fresh object
	case *ssa.UnOp:
		// *ptrs[i] = …: a pointer taken out of a local array (or variable) of pointers; the targets are what
		// the function put into it
		var cell *ssa.Alloc
		if a.Op == token.MUL {
			switch y := a.X.(type) {
			case *ssa.IndexAddr:
				cell, _ = y.X.(*ssa.Alloc)
			case *ssa.Alloc:
				cell = y
			}
		}
		if cell == nil || cell.Referrers() == nil {
			ms.unknown = true
			return
		}
		found := 0
		for _, r := range *cell.Referrers() {
			var stores []*ssa.Store
			switch y := r.(type) {
			case *ssa.IndexAddr:
				for _, rr := range *y.Referrers() {
					if st, ok := rr.(*ssa.Store); ok && st.Addr == ssa.Value(y) {
						stores = append(stores, st)
					}
				}
			case *ssa.Store:
				if y.Addr == ssa.Value(cell) {
					stores = append(stores, y)
				}
			}
			for _, st := range stores {
				switch st.Val.(type) {
				case *ssa.FieldAddr, *ssa.IndexAddr, *ssa.Global, *ssa.Alloc:
					found++
					p.modTarget(ms, st.Val)
				default:
					ms.unknown = true
				}
			}
		}
		if found == 0 {
			ms.unknown = true
		}
	default:
		ms.unknown = true
	}
}

func (p *Program) dumpMods() {
	p.computeMods()
	for _, f := range p.allFuncs {
		ms := modCache[f]
		fs := []string{}
		for v, m := range ms.fields {
			fs = append(fs, fmt.Sprintf("%s:%x", v.Name(), m))
		}
		sort.Strings(fs)
		fmt.Printf("%-60s unknown=%v fields=%v globals=%d\n", funcName(f), ms.unknown, fs, len(ms.globals))
	}
}

// modContainer: an element of the slice/map/array value v is written.
func (p *Program) modContainer(ms *modSummary, v ssa.Value) {
	switch x := v.(type) {
	case *ssa.UnOp: // load
		switch a := x.X.(type) {
		case *ssa.FieldAddr:
			if bit := baseBit(a.X); bit != 0 {
				ms.fields[fieldOf(a.X.Type(), a.Field)] |= bit
			}
			return
		case *ssa.Global:
			ms.globals[a] = true
			return
		case *ssa.Alloc:
			return
		}
	case *ssa.MakeSlice, *ssa.MakeMap, *ssa.Alloc:
		return
	case *ssa.Slice:
		p.modContainer(ms, x.X)
		return
	case *ssa.Phi:
		for _, e := range x.Edges {
			if e != v {
				if _, again := e.(*ssa.Phi); again {
					ms.unknown = true
					return
				}
				p.modContainer(ms, e)
			}
		}
		return
	case *ssa.Call:
		// result of a call (e.g. append, make helper): treat as local
		return
	case *ssa.Field:
		ms.fields[fieldOf(x.X.Type(), x.Field)] |= otherBase
		return
	case *ssa.FieldAddr:
		if bit := baseBit(x.X); bit != 0 {
			ms.fields[fieldOf(x.X.Type(), x.Field)] |= bit
		}
		return
	}
	ms.unknown = true
}

var neverNilMemo map[types.Object]bool
var neverNilFor *Program

// neverNilGlobal: a package-level variable of pike that is assigned exactly once,
// in its package initialiser, from an expression that cannot be nil (an error
// constructor, a compiled regexp, a composite literal).
func (p *Program) neverNilGlobal(obj types.Object) bool {
	if obj == nil {
		return false
	}
	// exported error sentinels of libraries (io.EOF, io.ErrUnexpectedEOF, lz4.ErrInvalidSourceShortBuffer, …)
	if v, ok := obj.(*types.Var); ok && v.Pkg() != nil && !strings.HasPrefix(v.Pkg().Path(), pikeMod) && v.Exported() && v.Parent() == v.Pkg().Scope() {
		if types.Identical(v.Type(), types.Universe.Lookup("error").Type()) && (strings.HasPrefix(v.Name(), "Err") || v.Name() == "EOF") {
			return true
		}
	}
	if neverNilMemo == nil || neverNilFor != p {
		neverNilFor = p
		neverNilMemo = map[types.Object]bool{}
		stores := map[*ssa.Global][]*ssa.Store{}
		for _, f := range p.allFuncs {
			for _, b := range f.Blocks {
				for _, in := range b.Instrs {
					if st, ok := in.(*ssa.Store); ok {
						if g, ok := st.Addr.(*ssa.Global); ok {
							stores[g] = append(stores[g], st)
						}
					}
				}
			}
		}
		for g, sts := range stores {
			if len(sts) != 1 || sts[0].Parent().Name() != "init" {
				continue
			}
			v := stripConv(sts[0].Val)
			ok := false
			switch x := v.(type) {
			case *ssa.Alloc:
				ok = true
			case *ssa.Call:
				if sc := x.Call.StaticCallee(); sc != nil {
					switch sc.String() {
					case "errors.New", "fmt.Errorf", "regexp.MustCompile", pikeMod + "/util.NewError":
						ok = true
					}
				}
			}
			if ok {
				neverNilMemo[g.Object()] = true
			}
		}
	}
	return neverNilMemo[obj]
}

func (p *Program) mods(f *ssa.Function) *modSummary {
	p.computeMods()
	return modCache[f]
}

// ---------------------------------------------------------------- constant tables

// constAggregate: g is a package-level slice or array of pike that is filled
// once, in its package initialiser, from a composite literal of constants and
// other package-level variables, and that no pike function writes to, reslices,
// appends to or hands to a callee afterwards. Its elements are then known.
type constAgg struct {
	elems []ssa.Value // constants or loads of globals, by index
	array bool        // the global is the array itself (not a slice of a hidden array)
	isMap bool        // a map literal: keys[i] -> elems[i]
	keys  []*ssa.Const
}

var constAggMemo map[*ssa.Global]*constAgg
var constAggFor *Program

func (p *Program) constAggregate(obj types.Object) *constAgg {
	if constAggMemo == nil || constAggFor != p {
		constAggFor = p
		constAggMemo = map[*ssa.Global]*constAgg{}
		p.computeConstAggs()
	}
	if obj == nil {
		return nil
	}
	for g, ca := range constAggMemo {
		if g.Object() == obj {
			return ca
		}
	}
	return nil
}

func (p *Program) computeConstAggs() {
	elemOK := func(v ssa.Value) bool {
		switch x := v.(type) {
		case *ssa.Const:
			return true
		case *ssa.Function:
			return x.Parent() == nil
		case *ssa.UnOp:
			_, isG := x.X.(*ssa.Global)
			return x.Op == token.MUL && isG
		}
		return false
	}
	for _, sp := range p.SSAPkgs {
		if !strings.HasPrefix(sp.Pkg.Path(), pikeMod) {
			continue
		}
		initFn := sp.Func("init")
		if initFn == nil {
			continue
		}
		for _, m := range sp.Members {
			g, ok := m.(*ssa.Global)
			if !ok {
				continue
			}
			elemT := types.Type(nil)
			n := int64(-1)
			isArray := false
			switch u := g.Type().(*types.Pointer).Elem().Underlying().(type) {
			case *types.Slice:
				elemT = u.Elem()
			case *types.Array:
				elemT, n, isArray = u.Elem(), u.Len(), true
			case *types.Map:
				if ca := p.constMap(initFn, g, elemOK); ca != nil {
					constAggMemo[g] = ca
				}
				continue
			default:
				continue
			}
			_ = elemT
			elems := map[int64]ssa.Value{}
			good := true
			if isArray {
				// init stores into &g[i]
				for _, r := range usersOf(initFn, g) {
					ia, ok := r.(*ssa.IndexAddr)
					if !ok {
						good = false
						continue
					}
					idx, ok := ia.Index.(*ssa.Const)
					if !ok {
						good = false
						continue
					}
					for _, r2 := range *ia.Referrers() {
						if st, ok := r2.(*ssa.Store); ok && st.Addr == ia {
							if !elemOK(st.Val) {
								good = false
							}
							elems[idx.Int64()] = st.Val
						}
					}
				}
			} else {
				var lit *ssa.Alloc
				stores := 0
				for _, r := range usersOf(initFn, g) {
					st, ok := r.(*ssa.Store)
					if !ok || st.Addr != g {
						continue
					}
					stores++
					sl, ok := st.Val.(*ssa.Slice)
					if !ok || sl.Low != nil || sl.High != nil {
						good = false
						continue
					}
					lit, _ = sl.X.(*ssa.Alloc)
				}
				if stores != 1 || lit == nil {
					continue
				}
				n = lit.Type().(*types.Pointer).Elem().Underlying().(*types.Array).Len()
				for _, r := range *lit.Referrers() {
					switch x := r.(type) {
					case *ssa.IndexAddr:
						idx, ok := x.Index.(*ssa.Const)
						if !ok {
							good = false
							continue
						}
						for _, r2 := range *x.Referrers() {
							st, ok := r2.(*ssa.Store)
							if !ok || st.Addr != x || !elemOK(st.Val) {
								good = false
								continue
							}
							elems[idx.Int64()] = st.Val
						}
					case *ssa.Slice, *ssa.DebugRef:
					default:
						good = false
					}
				}
			}
			if !good || n < 0 || n > 64 || int64(len(elems)) != n {
				continue
			}
			// read-only everywhere else in pike
			for _, f := range p.allFuncs {
				if f == initFn || !good {
					continue
				}
				for _, b := range f.Blocks {
					for _, in := range b.Instrs {
						for _, op := range in.Operands(nil) {
							if *op != ssa.Value(g) {
								continue
							}
							switch x := in.(type) {
							case *ssa.UnOp:
								if !readOnlyUses(x, 0) {
									good = false
								}
							case *ssa.IndexAddr:
								if !onlyLoaded(x) {
									good = false
								}
							case *ssa.DebugRef:
							default:
								good = false // address taken, stored to, passed on
							}
						}
					}
				}
			}
			if !good {
				continue
			}
			ca := &constAgg{array: isArray}
			for i := int64(0); i < n; i++ {
				ca.elems = append(ca.elems, elems[i])
			}
			constAggMemo[g] = ca
		}
	}
}

// onlyLoaded: the element address is only ever read through.
func onlyLoaded(ia *ssa.IndexAddr) bool {
	if ia.Referrers() == nil {
		return false
	}
	for _, r := range *ia.Referrers() {
		switch x := r.(type) {
		case *ssa.UnOp:
			if x.Op != token.MUL {
				return false
			}
		case *ssa.DebugRef:
		default:
			return false
		}
	}
	return true
}

// readOnlyUses: a loaded slice/array value is only measured, indexed for reading
// or ranged over.
func readOnlyUses(v ssa.Value, d int) bool {
	if v.Referrers() == nil || d > 3 {
		return false
	}
	for _, r := range *v.Referrers() {
		switch x := r.(type) {
		case *ssa.IndexAddr:
			if !onlyLoaded(x) {
				return false
			}
		case *ssa.Index, *ssa.DebugRef, *ssa.Range:
		case *ssa.Call:
			if b, ok := x.Call.Value.(*ssa.Builtin); ok {
				if b.Name() != "len" && b.Name() != "cap" {
					return false
				}
				break
			}
			// handed to a pike function that itself only reads it
			sc := x.Call.StaticCallee()
			if sc == nil || sc.Blocks == nil || !isPikeFunc(sc) {
				return false
			}
			for i, a := range x.Call.Args {
				if a == v && (i >= len(sc.Params) || !readOnlyUses(sc.Params[i], d+1)) {
					return false
				}
			}
		case *ssa.Phi:
			if !readOnlyUses(x, d+1) {
				return false
			}
		default:
			return false
		}
	}
	return true
}

// usersOf: the instructions of fn that have g as an operand (globals keep no
// referrer lists).
func usersOf(fn *ssa.Function, g *ssa.Global) []ssa.Instruction {
	var out []ssa.Instruction
	for _, b := range fn.Blocks {
		for _, in := range b.Instrs {
			for _, op := range in.Operands(nil) {
				if *op == ssa.Value(g) {
					out = append(out, in)
				}
			}
		}
	}
	return out
}

// constMap: g is a map filled once in init from a literal with constant keys and
// constant / global / function values, and only looked up, measured or ranged
// over by pike afterwards.
func (p *Program) constMap(initFn *ssa.Function, g *ssa.Global, elemOK func(ssa.Value) bool) *constAgg {
	var mk *ssa.MakeMap
	stores := 0
	for _, r := range usersOf(initFn, g) {
		st, ok := r.(*ssa.Store)
		if !ok || st.Addr != g {
			return nil
		}
		stores++
		mk, _ = st.Val.(*ssa.MakeMap)
	}
	if stores != 1 || mk == nil || mk.Referrers() == nil {
		return nil
	}
	ca := &constAgg{isMap: true}
	for _, r := range *mk.Referrers() {
		switch x := r.(type) {
		case *ssa.MapUpdate:
			k, ok := x.Key.(*ssa.Const)
			v := x.Value
			if mi, isMI := v.(*ssa.MakeInterface); isMI {
				v = mi.X
			}
			if cf, isCT := v.(*ssa.ChangeType); isCT {
				v = cf.X
			}
			if !ok || !elemOK(v) {
				return nil
			}
			ca.keys = append(ca.keys, k)
			ca.elems = append(ca.elems, v)
		case *ssa.Store, *ssa.DebugRef:
		default:
			return nil
		}
	}
	if len(ca.keys) == 0 || len(ca.keys) > 32 {
		return nil
	}
	for _, f := range p.allFuncs {
		if f == initFn {
			continue
		}
		for _, b := range f.Blocks {
			for _, in := range b.Instrs {
				for _, op := range in.Operands(nil) {
					if *op != ssa.Value(g) {
						continue
					}
					ld, ok := in.(*ssa.UnOp)
					if !ok || ld.Referrers() == nil {
						if _, isDbg := in.(*ssa.DebugRef); isDbg {
							continue
						}
						return nil
					}
					for _, r := range *ld.Referrers() {
						switch x := r.(type) {
						case *ssa.Lookup, *ssa.Range, *ssa.DebugRef:
						case *ssa.Call:
							if bi, ok := x.Call.Value.(*ssa.Builtin); !ok || bi.Name() != "len" {
								return nil
							}
						default:
							return nil
						}
					}
				}
			}
		}
	}
	return ca
}
