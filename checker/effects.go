package main

// Field-level modification summaries ("which struct fields may this function
// store to, transitively") for every pike function. They let the path engine
// forget exactly the cells a non-inlined callee may write instead of the whole
// heap. Unexported fields can only be written by code of their own package, so
// calls into libraries never invalidate them (reflection and unsafe aside; the
// only unsafe uses in pike are the two zero-copy string conversions checked by
// C06/unsafe-confined).

import (
	"fmt"
	"go/types"
	"sort"

	"golang.org/x/tools/go/ssa"
)

const otherBase = uint64(1) << 63

// modSummary.fields maps a field to the bases through which it may be written:
// bit i = the object parameter i points to, otherBase = anything else.
type modSummary struct {
	fields  map[*types.Var]uint64
	globals map[*ssa.Global]bool
	unknown bool // calls code we cannot see into (dynamic call), or stores through an unresolved pointer
}

func (p *Program) implsOf(m *types.Func) []*ssa.Function {
	// pike methods that may be the target of an interface call to m
	recv := m.Type().(*types.Signature).Recv()
	if recv == nil {
		return nil
	}
	iface, ok := recv.Type().Underlying().(*types.Interface)
	if !ok {
		return nil
	}
	out := []*ssa.Function{}
	seen := map[*ssa.Function]bool{}
	for _, f := range p.allFuncs {
		if f.Signature.Recv() == nil || f.Name() != m.Name() || seen[f] {
			continue
		}
		rt := f.Signature.Recv().Type()
		if types.Implements(rt, iface) || types.Implements(types.NewPointer(rt), iface) {
			seen[f] = true
			out = append(out, f)
		}
	}
	return out
}

var modCache map[*ssa.Function]*modSummary

var modCacheFor *Program

func (p *Program) computeMods() {
	if modCache != nil && modCacheFor == p {
		return
	}
	modCacheFor = p
	modCache = map[*ssa.Function]*modSummary{}
	local := map[*ssa.Function]*modSummary{}
	calls := map[*ssa.Function][]callEdge{}
	for _, f := range p.allFuncs {
		ms := &modSummary{fields: map[*types.Var]uint64{}, globals: map[*ssa.Global]bool{}}
		local[f] = ms
		for _, b := range f.Blocks {
			for _, in := range b.Instrs {
				switch x := in.(type) {
				case *ssa.Store:
					p.modTarget(ms, x.Addr)
				case *ssa.MapUpdate:
					p.modContainer(ms, x.Map)
				case ssa.CallInstruction:
					c := x.Common()
					if c.IsInvoke() {
						for _, impl := range p.implsOf(c.Method) {
							calls[f] = append(calls[f], callEdge{impl, append([]ssa.Value{c.Value}, c.Args...)})
						}
						continue
					}
					if _, ok := c.Value.(*ssa.Builtin); ok {
						if bi := c.Value.(*ssa.Builtin); bi.Name() == "copy" || bi.Name() == "delete" || bi.Name() == "clear" {
							p.modContainer(ms, c.Args[0])
						}
						continue
					}
					if callee := c.StaticCallee(); callee != nil {
						if callee.Blocks != nil && isPikeFunc(callee) {
							calls[f] = append(calls[f], callEdge{callee, c.Args})
						} else {
							// library call: explicit addresses passed to it may be written
							for _, a := range c.Args {
								if fa, ok := a.(*ssa.FieldAddr); ok {
									if bit := baseBit(fa.X); bit != 0 {
										ms.fields[fieldOf(fa.X.Type(), fa.Field)] |= bit
									}
								}
								if g, ok := a.(*ssa.Global); ok {
									ms.globals[g] = true
								}
							}
						}
						continue
					}
					if fromLibrary(c.Value, 0) {
						continue // e.g. the cancel function returned by context.WithTimeout: library code cannot name pike's fields
					}
					ms.unknown = true
				}
			}
		}
	}
	// transitive closure
	changed := true
	for f, ms := range local {
		c := &modSummary{fields: map[*types.Var]uint64{}, globals: map[*ssa.Global]bool{}, unknown: ms.unknown}
		for k, v := range ms.fields {
			c.fields[k] = v
		}
		for k := range ms.globals {
			c.globals[k] = true
		}
		modCache[f] = c
	}
	for changed {
		changed = false
		for f, edges := range calls {
			ms := modCache[f]
			for _, e := range edges {
				cs := modCache[e.callee]
				if cs == nil {
					continue
				}
				if cs.unknown && !ms.unknown {
					ms.unknown = true
					changed = true
				}
				for k, mask := range cs.fields {
					var m uint64
					if mask&otherBase != 0 {
						m |= otherBase
					}
					for j := 0; j < 63 && j < len(e.args); j++ {
						if mask&(1<<uint(j)) != 0 {
							m |= baseBit(e.args[j])
						}
					}
					if m&^ms.fields[k] != 0 {
						ms.fields[k] |= m
						changed = true
					}
				}
				for k := range cs.globals {
					if !ms.globals[k] {
						ms.globals[k] = true
						changed = true
					}
				}
			}
		}
	}
}

// fromLibrary: the function value called is the result of a library call (and so
// is library code), possibly through a local variable.
func fromLibrary(v ssa.Value, d int) bool {
	if d > 4 {
		return false
	}
	switch x := v.(type) {
	case *ssa.Extract:
		return fromLibrary(x.Tuple, d+1)
	case *ssa.Call:
		if sc := x.Call.StaticCallee(); sc != nil && !isPikeFunc(sc) {
			return true
		}
	case *ssa.UnOp:
		if al, ok := x.X.(*ssa.Alloc); ok {
			all, any := true, false
			for _, r := range *al.Referrers() {
				if st, ok := r.(*ssa.Store); ok && st.Addr == al {
					any = true
					if !fromLibrary(st.Val, d+1) {
						all = false
					}
				}
			}
			return any && all
		}
	case *ssa.Phi:
		for _, e := range x.Edges {
			if !fromLibrary(e, d+1) {
				return false
			}
		}
		return len(x.Edges) > 0
	}
	return false
}

type callEdge struct {
	callee *ssa.Function
	args   []ssa.Value
}

// baseBit: which object does pointer value v denote, seen from the enclosing
// function's callers: parameter i (bit i), a fresh local object (0: invisible
// outside), or something else (otherBase).
func baseBit(v ssa.Value) uint64 {
	switch x := stripConv(v).(type) {
	case *ssa.Parameter:
		for i, prm := range x.Parent().Params {
			if prm == x && i < 63 {
				return 1 << uint(i)
			}
		}
	case *ssa.Alloc:
		return 0
	}
	return otherBase
}

// modTarget classifies the cell written by a store to addr.
func (p *Program) modTarget(ms *modSummary, addr ssa.Value) {
	switch a := addr.(type) {
	case *ssa.FieldAddr:
		if bit := baseBit(a.X); bit != 0 {
			ms.fields[fieldOf(a.X.Type(), a.Field)] |= bit
		}
	case *ssa.IndexAddr:
		p.modContainer(ms, a.X)
	case *ssa.Global:
		ms.globals[a] = true
	case *ssa.Alloc, *ssa.FreeVar:
		// local variable (possibly captured from the enclosing function) or fresh object
	default:
		ms.unknown = true
	}
}

func (p *Program) dumpMods() {
	p.computeMods()
	for _, f := range p.allFuncs {
		ms := modCache[f]
		fs := []string{}
		for v, m := range ms.fields {
			fs = append(fs, fmt.Sprintf("%s:%x", v.Name(), m))
		}
		sort.Strings(fs)
		fmt.Printf("%-60s unknown=%v fields=%v globals=%d\n", funcName(f), ms.unknown, fs, len(ms.globals))
	}
}

// modContainer: an element of the slice/map/array value v is written.
func (p *Program) modContainer(ms *modSummary, v ssa.Value) {
	switch x := v.(type) {
	case *ssa.UnOp: // load
		switch a := x.X.(type) {
		case *ssa.FieldAddr:
			if bit := baseBit(a.X); bit != 0 {
				ms.fields[fieldOf(a.X.Type(), a.Field)] |= bit
			}
			return
		case *ssa.Global:
			ms.globals[a] = true
			return
		case *ssa.Alloc:
			return
		}
	case *ssa.MakeSlice, *ssa.MakeMap, *ssa.Alloc:
		return
	case *ssa.Slice:
		p.modContainer(ms, x.X)
		return
	case *ssa.Phi:
		for _, e := range x.Edges {
			if e != v {
				if _, again := e.(*ssa.Phi); again {
					ms.unknown = true
					return
				}
				p.modContainer(ms, e)
			}
		}
		return
	case *ssa.Call:
		// result of a call (e.g. append, make helper): treat as local
		return
	case *ssa.Field:
		ms.fields[fieldOf(x.X.Type(), x.Field)] |= otherBase
		return
	case *ssa.FieldAddr:
		if bit := baseBit(x.X); bit != 0 {
			ms.fields[fieldOf(x.X.Type(), x.Field)] |= bit
		}
		return
	}
	ms.unknown = true
}

var neverNilMemo map[types.Object]bool
var neverNilFor *Program

// neverNilGlobal: a package-level variable of pike that is assigned exactly once,
// in its package initialiser, from an expression that cannot be nil (an error
// constructor, a compiled regexp, a composite literal).
func (p *Program) neverNilGlobal(obj types.Object) bool {
	if obj == nil {
		return false
	}
	if neverNilMemo == nil || neverNilFor != p {
		neverNilFor = p
		neverNilMemo = map[types.Object]bool{}
		stores := map[*ssa.Global][]*ssa.Store{}
		for _, f := range p.allFuncs {
			for _, b := range f.Blocks {
				for _, in := range b.Instrs {
					if st, ok := in.(*ssa.Store); ok {
						if g, ok := st.Addr.(*ssa.Global); ok {
							stores[g] = append(stores[g], st)
						}
					}
				}
			}
		}
		for g, sts := range stores {
			if len(sts) != 1 || sts[0].Parent().Name() != "init" {
				continue
			}
			v := stripConv(sts[0].Val)
			ok := false
			switch x := v.(type) {
			case *ssa.Alloc:
				ok = true
			case *ssa.Call:
				if sc := x.Call.StaticCallee(); sc != nil {
					switch sc.String() {
					case "errors.New", "fmt.Errorf", "regexp.MustCompile", pikeMod + "/util.NewError":
						ok = true
					}
				}
			}
			if ok {
				neverNilMemo[g.Object()] = true
			}
		}
	}
	return neverNilMemo[obj]
}

func (p *Program) mods(f *ssa.Function) *modSummary {
	p.computeMods()
	return modCache[f]
}
