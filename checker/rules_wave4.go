package main

// Rules added in answer to the second held-out round of seeded changes. Each is a
// structural necessary condition of the property it is registered under; the
// explain text of the property says which.

import (
	"fmt"
	"go/token"
	"go/types"
	"reflect"
	"sort"
	"strings"

	"golang.org/x/tools/go/ssa"
)

// ruleQueryEdits: AddQuery adds the location's configured query values next to
// the client's (url.Values.Add); it never assigns, sets or deletes a key of the
// request's query, and it writes the result back into the request.
func ruleQueryEdits(c *Ctx) {
	fn := c.P.Method("location", "Location", "AddQuery")
	if fn == nil {
		c.undecided("query-edits", "location.Location.AddQuery", "-", "not found")
		return
	}
	name, pos := funcName(fn), c.P.pos(fn.Pos())
	bad := []string{}
	adds, n := 0, 0
	wroteBack := false
	for f := range staticScope(fn, "location", 2) {
		for _, b := range f.Blocks {
			for _, in := range b.Instrs {
				switch x := in.(type) {
				case *ssa.MapUpdate:
					if isURLValues(x.Map.Type()) {
						n++
						// q[k] = append(q[k], vs...) is what Values.Add does
						if call, ok := x.Value.(*ssa.Call); ok {
							if bi, ok := call.Call.Value.(*ssa.Builtin); ok && bi.Name() == "append" && len(call.Call.Args) > 0 {
								if lk, ok := call.Call.Args[0].(*ssa.Lookup); ok && lk.X == x.Map && lk.Index == x.Key {
									adds++
									continue
								}
							}
						}
						bad = append(bad, c.P.pos(x.Pos())+": a key of the request's query is assigned (the client's own values of that parameter are replaced)")
					}
				case *ssa.Store:
					if fa, ok := x.Addr.(*ssa.FieldAddr); ok && faField(fa).Name() == "RawQuery" {
						wroteBack = true
					}
				case ssa.CallInstruction:
					cc := x.Common()
					sc := cc.StaticCallee()
					if sc == nil || !strings.HasPrefix(sc.String(), "(net/url.Values).") {
						if b, ok := cc.Value.(*ssa.Builtin); ok && b.Name() == "delete" && len(cc.Args) > 0 && isURLValues(cc.Args[0].Type()) {
							n++
							bad = append(bad, c.P.pos(in.Pos())+": a key of the request's query is deleted")
						}
						continue
					}
					n++
					switch sc.Name() {
					case "Add":
						adds++
					case "Set", "Del":
						bad = append(bad, c.P.pos(in.Pos())+": url.Values."+sc.Name()+" drops the client's own values of that parameter")
					}
				}
			}
		}
	}
	if !wroteBack {
		bad = append(bad, "the edited query is not written back to the request (RawQuery)")
	}
	// the values added are the location's configured ones
	src := false
	c.P.Simulate(fn, SimConfig{MaxVisits: 2}, func(pr *PathResult) {
		// every way through writes the query back, and what it writes is the client's query plus the additions
		if pr.Exit == "return" {
			var wb *Event
			for _, e := range pr.Events {
				if e.Kind == "store" && e.Addr != nil && e.Addr.Op == "fa" && e.Addr.Name == "RawQuery" {
					wb = e
				}
			}
			if wb == nil {
				bad = append(bad, "returns without writing the query back: the configured parameters are not added for this request (path ["+condString(pr.Conds)+"])")
			} else {
				fromClient := wb.Val.contains(func(x *Term) bool {
					if x.Op != "call" || x.Fn == nil {
						return false
					}
					fn := x.Fn.String()
					return fn == "(*net/url.URL).Query" || fn == "net/url.ParseQuery"
				})
				if !fromClient {
					bad = append(bad, "the query written back ("+prettyTerm(wb.Val)+") is not built on the client's own query: its parameters are dropped (path ["+condString(pr.Conds)+"])")
				}
			}
		}
		for _, e := range pr.Events {
			// calls made through a method value (query.Add handed to a helper) show up here only
			if e.Kind == "call" && e.Callee != nil && strings.HasPrefix(e.Callee.String(), "(net/url.Values).") {
				if _, direct := e.Instr.(ssa.CallInstruction); !direct || e.Instr.(ssa.CallInstruction).Common().StaticCallee() != e.Callee {
					switch e.Callee.Name() {
					case "Add":
						adds++
					case "Set", "Del":
						bad = append(bad, "url.Values."+e.Callee.Name()+" (through a method value) drops the client's own values of that parameter")
					}
				}
			}
			if e.Kind == "mapupdate" && e.Val != nil && e.Val.contains(func(x *Term) bool { return (x.Op == "fa" || x.Op == "fld") && x.Name == "Query" }) {
				src = true
			}
			if e.Kind == "call" && e.Callee != nil && e.Callee.String() == "(net/url.Values).Add" {
				for _, a := range e.Args[1:] {
					if a.contains(func(x *Term) bool { return (x.Op == "fa" || x.Op == "fld") && x.Name == "Query" }) {
						src = true
					}
				}
			}
		}
	})
	if adds == 0 {
		bad = append(bad, "no url.Values.Add: configured parameters are not added")
	}
	if adds > 0 && !src {
		bad = append(bad, "the values added do not come from the location's configured Query")
	}
	c.check(len(bad) == 0, "query-edits", name, pos, fmt.Sprintf("%d query operations: configured values are Add-ed to the client's query and written back; no key is assigned, set or deleted", n), strings.Join(uniq(bad), " || "), n)
}

func isURLValues(t types.Type) bool {
	m, ok := t.Underlying().(*types.Map)
	if !ok {
		return false
	}
	sl, ok := m.Elem().Underlying().(*types.Slice)
	if !ok {
		return false
	}
	kb, ok1 := m.Key().Underlying().(*types.Basic)
	eb, ok2 := sl.Elem().Underlying().(*types.Basic)
	return ok1 && ok2 && kb.Kind() == types.String && eb.Kind() == types.String
}

func faField(fa *ssa.FieldAddr) *types.Var { return fieldOf(fa.X.Type(), fa.Field) }

// ruleErrorsImmutable: a value of a struct type that implements error is written
// (a field stored, or a map held in one of its fields updated) only while it is
// still private to the function that built it. Error values travel between
// goroutines through package-level sentinels, so a write to one that was received
// rather than built is an unsynchronised write to shared memory.
func ruleErrorsImmutable(c *Ctx) {
	n, bad := errorsImmutableCore(c.P)
	if fx := c.fixture(); fx == nil {
		c.undecided("errors-immutable", "pike", "-", "positive-control fixture could not be loaded")
		return
	} else if _, fb := errorsImmutableCore(fx); len(fb) == 0 {
		c.undecided("errors-immutable", "pike", "-", "the rule does not fire on its positive control (checker/fixture/fixturebad.Annotate)")
		return
	}
	if n < 2 {
		c.undecided("errors-immutable", "pike", "-", fmt.Sprintf("only %d writes to error structs found (the constructors alone have more)", n))
		return
	}
	c.check(len(bad) == 0, "errors-immutable", "pike", "-", fmt.Sprintf("%d writes into error-typed structs, all on values built in the writing function (positive control fires)", n), strings.Join(uniq(bad), " || "), n+1)
}

func errorsImmutableCore(p *Program) (int, []string) {
	errIface := types.Universe.Lookup("error").Type().Underlying().(*types.Interface)
	isErrStruct := func(t types.Type) bool {
		pt, ok := t.Underlying().(*types.Pointer)
		if !ok {
			return false
		}
		if _, ok := pt.Elem().Underlying().(*types.Struct); !ok {
			return false
		}
		return types.Implements(pt, errIface) || types.Implements(pt.Elem(), errIface)
	}
	fresh := func(v ssa.Value) bool {
		if isFreshBase(v, p, 0) {
			return true
		}
		if call, ok := v.(*ssa.Call); ok {
			if sc := call.Call.StaticCallee(); sc != nil && !isPikeFunc(sc) && strings.HasPrefix(sc.Name(), "New") {
				return true
			}
		}
		return false
	}
	n := 0
	bad := []string{}
	for _, f := range p.allFuncs {
		for _, b := range f.Blocks {
			for _, in := range b.Instrs {
				var base ssa.Value
				what := ""
				switch x := in.(type) {
				case *ssa.Store:
					if fa, ok := x.Addr.(*ssa.FieldAddr); ok && isErrStruct(fa.X.Type()) {
						base, what = fa.X, "field "+faField(fa).Name()
					}
				case *ssa.MapUpdate:
					if ld, ok := x.Map.(*ssa.UnOp); ok && ld.Op == token.MUL {
						if fa, ok := ld.X.(*ssa.FieldAddr); ok && isErrStruct(fa.X.Type()) {
							base, what = fa.X, "map "+faField(fa).Name()
						}
					}
				}
				if base == nil {
					continue
				}
				n++
				if !fresh(base) {
					bad = append(bad, fmt.Sprintf("%s: %s writes %s of an error value it did not build (%s): the value may be a shared sentinel in use by other requests", p.pos(in.Pos()), funcName(f), what, base.Type()))
				}
			}
		}
	}
	return n, bad
}

// ruleListenFlag: the server's listening flag is set only after net.Listen has
// succeeded, so a failed start is retried by the next configuration update.
func ruleListenFlag(c *Ctx) {
	fld := c.P.StructField("server", "server", "listening")
	fn := c.P.Method("server", "server", "Start")
	if fld == nil || fn == nil {
		c.undecided("listen-flag", "server.Start", "-", "server.listening / (*server).Start not found")
		return
	}
	name, pos := funcName(fn), c.P.pos(fn.Pos())
	bad := []string{}
	n := 0
	for f := range staticScope(fn, "server", 2) {
		if f.Parent() != nil {
			continue
		}
		// success regions: blocks dominated by the err == nil side of a test of net.Listen's error
		var okBlocks []*ssa.BasicBlock
		listens := 0
		for _, b := range f.Blocks {
			for _, in := range b.Instrs {
				call, ok := in.(*ssa.Call)
				if !ok {
					continue
				}
				sc := call.Call.StaticCallee()
				if sc == nil || !(sc.String() == "net.Listen" || strings.HasSuffix(sc.String(), "net.ListenConfig).Listen")) {
					continue
				}
				listens++
				for _, r := range *call.Referrers() {
					ex, ok := r.(*ssa.Extract)
					if !ok || ex.Index != 1 {
						continue
					}
					// the error itself, or its reloads when it is a named result spilled to memory
					errVals := []ssa.Value{ex}
					for _, r2 := range *ex.Referrers() {
						st, ok := r2.(*ssa.Store)
						if !ok || st.Val != ex {
							continue
						}
						after := false
						for _, in2 := range st.Block().Instrs {
							if in2 == st {
								after = true
								continue
							}
							if !after {
								continue
							}
							if st2, ok := in2.(*ssa.Store); ok && st2.Addr == st.Addr {
								break
							}
							if ld, ok := in2.(*ssa.UnOp); ok && ld.Op == token.MUL && ld.X == st.Addr {
								errVals = append(errVals, ld)
							}
						}
					}
					var users []ssa.Instruction
					for _, ev := range errVals {
						users = append(users, *ev.Referrers()...)
					}
					for _, r2 := range users {
						bo, ok := r2.(*ssa.BinOp)
						if !ok || (bo.Op != token.NEQ && bo.Op != token.EQL) {
							continue
						}
						for _, r3 := range *bo.Referrers() {
							if iff, ok := r3.(*ssa.If); ok {
								if bo.Op == token.NEQ {
									okBlocks = append(okBlocks, iff.Block().Succs[1])
								} else {
									okBlocks = append(okBlocks, iff.Block().Succs[0])
								}
							}
						}
					}
				}
			}
		}
		for _, b := range f.Blocks {
			for _, in := range b.Instrs {
				st, ok := in.(*ssa.Store)
				if !ok {
					continue
				}
				fa, ok := st.Addr.(*ssa.FieldAddr)
				if !ok || faField(fa) != fld {
					continue
				}
				cst, ok := st.Val.(*ssa.Const)
				if ok && cst.Value != nil && cst.Value.ExactString() == "false" {
					continue
				}
				n++
				dominated := false
				for _, ob := range okBlocks {
					if ob.Dominates(b) {
						dominated = true
					}
				}
				if !dominated {
					bad = append(bad, fmt.Sprintf("%s: %s marks the server as listening on a path where net.Listen has not succeeded (%d Listen calls in this function): after a failed Listen every later Start returns early and the server never listens", c.P.pos(st.Pos()), funcName(f), listens))
				}
			}
		}
	}
	if n == 0 {
		c.undecided("listen-flag", name, pos, "no store of the listening flag found in Start")
		return
	}
	c.check(len(bad) == 0, "listen-flag", name, pos, fmt.Sprintf("%d stores setting the listening flag, each dominated by the success branch of net.Listen", n), strings.Join(uniq(bad), " || "), n)
}

// ruleRequiredRefs: a reference that the request path resolves through a lookup
// that can come back empty-handed must be mandatory in the configuration whenever
// Validate lets the empty string through.
func ruleRequiredRefs(c *Ctx) {
	validate := c.P.Method("config", "PikeConfig", "Validate")
	if validate == nil {
		c.undecided("required-references", "config", "-", "PikeConfig.Validate not found")
		return
	}
	refs := []struct {
		st, field  string
		rpkg, rfn  string
		consumedBy string
	}{
		{"ServerConfig", "Cache", "cache", "GetDispatcher", "server.NewCache"},
		{"ServerConfig", "Compress", "compress", "Get", "cache.HTTPResponse"},
		{"LocationConfig", "Upstream", "upstream", "Get", "server.NewProxy"},
	}
	// does Validate special-case the empty value of the field?
	emptyAllowed := map[string]bool{}
	for f := range staticScope(validate, "config", 3) {
		for _, b := range f.Blocks {
			for _, in := range b.Instrs {
				bo, ok := in.(*ssa.BinOp)
				if !ok || (bo.Op != token.EQL && bo.Op != token.NEQ) {
					continue
				}
				for i, op := range []ssa.Value{bo.X, bo.Y} {
					other := []ssa.Value{bo.Y, bo.X}[i]
					cst, ok := other.(*ssa.Const)
					if !ok || cst.Value == nil || cst.Value.ExactString() != `""` {
						continue
					}
					if fv := loadedField(op); fv != nil {
						emptyAllowed[fv.Name()] = true
					}
				}
			}
		}
	}
	for _, r := range refs {
		fv := c.P.StructField("config", r.st, r.field)
		res := c.P.Func(r.rpkg, r.rfn)
		full := r.st + "." + r.field
		if fv == nil || res == nil {
			c.undecided("required-references", full, "-", "field or resolver "+r.rpkg+"."+r.rfn+" not found")
			continue
		}
		mayNil, paths := false, 0
		c.P.Simulate(res, SimConfig{Inline: func(callee *ssa.Function, d int) bool { return inPkg(callee, r.rpkg) && d < 3 }}, func(pr *PathResult) {
			paths++
			if len(pr.Results) >= 1 && pr.Results[0].IsNil() {
				mayNil = true
			}
		})
		if paths == 0 {
			c.undecided("required-references", full, c.P.pos(res.Pos()), "resolver has no path")
			continue
		}
		st := c.P.NamedType("config", r.st).Underlying().(*types.Struct)
		tag := ""
		for i := 0; i < st.NumFields(); i++ {
			if st.Field(i) == fv {
				tag = reflect.StructTag(st.Tag(i)).Get("validate")
			}
		}
		required := false
		for _, p := range strings.Split(tag, ",") {
			if strings.TrimSpace(p) == "required" {
				required = true
			}
		}
		ok := !mayNil || required || !emptyAllowed[r.field]
		c.check(ok, "required-references", full, c.P.pos(fv.Pos()),
			fmt.Sprintf("resolver %s.%s may return nil: %v; validate tag %q; Validate lets an empty %s through: %v", r.rpkg, r.rfn, mayNil, tag, r.field, emptyAllowed[r.field]),
			fmt.Sprintf("%s may be left empty (validate:%q, and Validate treats an empty value as found) but %s.%s(\"\") returns nil: an accepted configuration makes every request through %s fail", full, tag, r.rpkg, r.rfn, r.consumedBy), paths)
	}
}

// loadedField: v is (a load of) a struct field; returns the field.
func loadedField(v ssa.Value) *types.Var {
	switch x := v.(type) {
	case *ssa.UnOp:
		if fa, ok := x.X.(*ssa.FieldAddr); ok {
			return faField(fa)
		}
	case *ssa.Field:
		st, ok := x.X.Type().Underlying().(*types.Struct)
		if ok {
			return st.Field(x.Field)
		}
	}
	return nil
}

// ruleDecodersNoPanic: the functions that decode bytes coming from the store or
// from an upstream never call a panicking-by-contract library function (Must*),
// never panic explicitly, and size no allocation by a number taken from the data
// unless that number was compared against a bound first.
func ruleDecodersNoPanic(c *Ctx, pkgs map[string]bool) {
	roots := []*ssa.Function{}
	for _, f := range c.P.allFuncs {
		if f.Parent() != nil {
			continue
		}
		nm := f.Name()
		switch {
		case pkgs["cache"] && inPkg(f, "cache") && (nm == "FromBytes" || nm == "initFromStore" || nm == "readBytes" || nm == "readUint32ToInt" || nm == "readUint64ToInt64"):
			roots = append(roots, f)
		case pkgs["compress"] && inPkg(f, "compress") && (strings.HasSuffix(nm, "Decode") || nm == "Gunzip" || nm == "doGunzip" || nm == "Decompress"):
			roots = append(roots, f)
		}
	}
	sort.Slice(roots, func(i, j int) bool { return roots[i].Pos() < roots[j].Pos() })
	want := 0
	if pkgs["cache"] {
		want += 5
	}
	if pkgs["compress"] {
		want += 5
	}
	if len(roots) < want {
		c.undecided("decoders-no-panic", "decoders", "-", fmt.Sprintf("only %d decoder functions found, expected at least %d", len(roots), want))
		return
	}
	scope := map[*ssa.Function]bool{}
	for _, r := range roots {
		for f := range staticScope(r, strings.TrimPrefix(fnPkg(r).Path(), pikeMod+"/"), 3) {
			scope[f] = true
		}
	}
	fs := []*ssa.Function{}
	for f := range scope {
		fs = append(fs, f)
	}
	sort.Slice(fs, func(i, j int) bool { return fs[i].Pos() < fs[j].Pos() })
	n := 0
	bad := []string{}
	for _, f := range fs {
		for _, b := range f.Blocks {
			for _, in := range b.Instrs {
				switch x := in.(type) {
				case *ssa.Panic:
					n++
					bad = append(bad, fmt.Sprintf("%s: %s panics explicitly while decoding", c.P.pos(x.Pos()), funcName(f)))
				case ssa.CallInstruction:
					sc := x.Common().StaticCallee()
					if sc == nil {
						continue
					}
					n++
					if strings.HasPrefix(sc.Name(), "Must") && !isPikeFunc(sc) {
						bad = append(bad, fmt.Sprintf("%s: %s calls %s on decoded data: it panics instead of returning an error when the bytes are damaged", c.P.pos(in.Pos()), funcName(f), sc.String()))
					}
				case *ssa.TypeAssert:
					n++
					if !x.CommaOk {
						bad = append(bad, fmt.Sprintf("%s: %s asserts a type without the comma-ok form (%s): when the value is of another type - an error of another kind, say, as for a truncated or trailer-damaged stream - the decoder panics instead of returning an error", c.P.pos(x.Pos()), funcName(f), x.AssertedType.String()))
					}
				case *ssa.MakeSlice:
					n++
					for _, sz := range []ssa.Value{x.Len, x.Cap} {
						for _, leaf := range dataLeaves(sz, map[ssa.Value]bool{}) {
							if !comparedBefore(leaf, b) {
								bad = append(bad, fmt.Sprintf("%s: %s sizes an allocation by %s (%s), a number that is not derived from the input's length and is not compared with any bound first: damaged input can make it panic (makeslice: out of range) or exhaust memory", c.P.pos(x.Pos()), funcName(f), leaf.Name(), leaf.String()))
							}
						}
					}
				}
			}
		}
	}
	c.check(len(bad) == 0, "decoders-no-panic", "decoders", "-", fmt.Sprintf("%d decoder functions (with helpers %d), %d calls/allocations: no Must* call, no explicit panic, every allocation size is derived from an input length or compared with a bound first", len(roots), len(fs), n), strings.Join(uniq(bad), " || "), n)
}

// dataLeaves returns the leaves of a size expression that are neither constants
// nor lengths (len/cap of something) combined by arithmetic.
func dataLeaves(v ssa.Value, seen map[ssa.Value]bool) []ssa.Value {
	if v == nil || seen[v] {
		return nil
	}
	seen[v] = true
	switch x := v.(type) {
	case *ssa.Const:
		return nil
	case *ssa.Call:
		if b, ok := x.Call.Value.(*ssa.Builtin); ok && (b.Name() == "len" || b.Name() == "cap" || b.Name() == "min") {
			if b.Name() == "min" {
				// min(a, b) is bounded when any operand is
				for _, a := range x.Call.Args {
					if len(dataLeaves(a, seen)) == 0 {
						return nil
					}
				}
			} else {
				return nil
			}
		}
		return []ssa.Value{v}
	case *ssa.BinOp:
		switch x.Op {
		case token.ADD, token.SUB, token.MUL, token.QUO, token.SHL, token.SHR, token.REM, token.AND:
			return append(dataLeaves(x.X, seen), dataLeaves(x.Y, seen)...)
		}
		return []ssa.Value{v}
	case *ssa.Phi:
		out := []ssa.Value{}
		for _, e := range x.Edges {
			out = append(out, dataLeaves(e, seen)...)
		}
		return out
	case *ssa.Convert:
		return dataLeaves(x.X, seen)
	case *ssa.ChangeType:
		return dataLeaves(x.X, seen)
	}
	return []ssa.Value{v}
}

// comparedBefore: some ordering comparison involving v (or a conversion of it)
// decides a branch that dominates block b.
func comparedBefore(v ssa.Value, b *ssa.BasicBlock) bool {
	vals := map[ssa.Value]bool{v: true}
	if v.Referrers() != nil {
		for _, r := range *v.Referrers() {
			switch x := r.(type) {
			case *ssa.Convert:
				vals[x] = true
			case *ssa.ChangeType:
				vals[x] = true
			}
		}
	}
	for _, g := range b.Parent().Blocks {
		iff, ok := g.Instrs[len(g.Instrs)-1].(*ssa.If)
		if !ok {
			continue
		}
		var conds []ssa.Value
		var collect func(cv ssa.Value, d int)
		collect = func(cv ssa.Value, d int) {
			if d > 4 {
				return
			}
			conds = append(conds, cv)
			if ph, ok := cv.(*ssa.Phi); ok { // a || b, a && b
				for _, e := range ph.Edges {
					collect(e, d+1)
				}
			}
			if u, ok := cv.(*ssa.UnOp); ok && u.Op == token.NOT {
				collect(u.X, d+1)
			}
		}
		collect(iff.Cond, 0)
		hit := false
		for _, cv := range conds {
			bo, ok := cv.(*ssa.BinOp)
			if !ok {
				continue
			}
			switch bo.Op {
			case token.LSS, token.LEQ, token.GTR, token.GEQ:
				if vals[bo.X] || vals[bo.Y] {
					hit = true
				}
			}
		}
		if !hit {
			// short-circuit conditions: the comparison sits in a predecessor block
			continue
		}
		for _, s := range g.Succs {
			if s.Dominates(b) {
				return true
			}
		}
	}
	// short-circuit form: `if x < 0 || x > n { return }` compiles to two If blocks;
	// the comparison block's successors need not dominate b individually, but the
	// block itself does and one of its successors leaves the function
	for _, g := range b.Parent().Blocks {
		iff, ok := g.Instrs[len(g.Instrs)-1].(*ssa.If)
		if !ok || !g.Dominates(b) {
			continue
		}
		bo, ok := iff.Cond.(*ssa.BinOp)
		if !ok {
			continue
		}
		switch bo.Op {
		case token.LSS, token.LEQ, token.GTR, token.GEQ:
			if vals[bo.X] || vals[bo.Y] {
				return true
			}
		}
	}
	return false
}

// forwardSpec: an exported entry point that only hands its arguments to a method
// of its package's default instance (or to an unexported worker).
type forwardSpec struct {
	pkg, recv, fn string // recv == "" for package-level functions
	target        string // name of the method / function called
	conv          string // if set: argument 0 goes through this converter first
}

var forwarders = []forwardSpec{
	{"cache", "", "GetDispatcher", "Get", ""},
	{"cache", "", "RemoveHTTPCache", "RemoveHTTPCache", ""},
	{"cache", "", "ResetDispatchers", "Reset", "convertConfigs"},
	{"location", "", "Get", "Get", ""},
	{"location", "", "Reset", "Set", "convertConfigs"},
	{"server", "", "Get", "Get", ""},
	{"server", "", "Reset", "Reset", "convertConfig"},
	{"server", "", "Start", "Start", ""},
	{"server", "", "Close", "Close", ""},
	{"compress", "", "Get", "Get", ""},
	{"compress", "", "Reset", "Reset", "convertConfigs"},
	{"upstream", "", "Get", "Get", ""},
	{"compress", "compressSrv", "Gunzip", "doGunzip", ""},
	{"compress", "compressSrv", "BrotliDecode", "doBrotliDecode", ""},
	{"compress", "compressSrv", "LZ4Decode", "doLZ4Decode", ""},
	{"compress", "compressSrv", "SnappyDecode", "doSnappyDecode", ""},
	{"compress", "compressSrv", "ZSTDDecode", "doZSTDDecode", ""},
}

// ruleForwarders: each listed entry point makes exactly one call, to the target of
// the same role, on the package's one default instance, with its own parameters
// in order (the first through the package's converter where listed), and returns
// that call's results unchanged. pkgs selects the packages relevant to the
// property.
func ruleForwarders(c *Ctx, pkgs ...string) {
	sel := map[string]bool{}
	for _, p := range pkgs {
		sel[p] = true
	}
	defaults := map[string]map[string]bool{} // pkg -> globals used as default instance
	for _, fs := range forwarders {
		if !sel[fs.pkg] {
			continue
		}
		var fn *ssa.Function
		if fs.recv == "" {
			fn = c.P.Func(fs.pkg, fs.fn)
		} else {
			fn = c.P.Method(fs.pkg, fs.recv, fs.fn)
		}
		label := fs.pkg + "." + fs.fn
		if fs.recv != "" {
			label = fs.pkg + "." + fs.recv + "." + fs.fn
		}
		if fn == nil {
			c.undecided("forwarder", label, "-", "entry point not found")
			continue
		}
		pos := c.P.pos(fn.Pos())
		bad := []string{}
		paths := 0
		c.P.Simulate(fn, SimConfig{Inline: func(*ssa.Function, int) bool { return false }}, func(pr *PathResult) {
			paths++
			var calls []*Event
			for _, e := range pr.Events {
				if (e.Kind == "call" || e.Kind == "invoke") && e.Callee != nil && isPikeFunc(e.Callee) && e.Callee.Name() != fs.conv && !inPkg(e.Callee, "log") {
					calls = append(calls, e)
				}
				if e.Kind == "store" && e.Addr != nil && sliceBase(e.Addr).contains(func(x *Term) bool { return x.Op == "alloc" }) && !e.Addr.contains(func(x *Term) bool { return x.Op == "sym" || x.Op == "global" }) {
					continue // filling a local (the argument list of a log call)
				}
				if e.Kind == "go" || e.Kind == "defer" || e.Kind == "store" {
					bad = append(bad, "does more than forward ("+e.Kind+")")
				}
			}
			if len(calls) != 1 {
				bad = append(bad, fmt.Sprintf("%d pike calls instead of one", len(calls)))
				return
			}
			e := calls[0]
			if e.Callee.Name() != fs.target {
				bad = append(bad, "forwards to "+funcName(e.Callee)+", expected "+fs.target)
				return
			}
			args := e.Args
			params := fn.Params
			if fs.recv != "" {
				params = params[1:] // the receiver is not forwarded to the worker
			} else {
				// receiver of the target: the package's default instance
				if len(args) == 0 || !(args[0].Op == "init" && args[0].Args[0].Op == "global") {
					bad = append(bad, "the target's receiver is "+prettyTerm(firstOr(args))+", not a package-level default instance")
					return
				}
				if defaults[fs.pkg] == nil {
					defaults[fs.pkg] = map[string]bool{}
				}
				defaults[fs.pkg][args[0].Args[0].Name] = true
				args = args[1:]
			}
			if len(args) != len(params) {
				bad = append(bad, fmt.Sprintf("%d arguments forwarded for %d parameters", len(args), len(params)))
				return
			}
			for i, prm := range params {
				want := "p:" + prm.Name()
				a := args[i]
				if i == 0 && fs.conv != "" {
					if !(a.Op == "call" && a.Fn != nil && a.Fn.Name() == fs.conv && len(a.Args) == 1) {
						bad = append(bad, "argument 0 is "+prettyTerm(a)+", expected "+fs.conv+"(…)")
						continue
					}
					a = a.Args[0]
				}
				if !(a.Op == "sym" && a.Name == want) {
					bad = append(bad, fmt.Sprintf("argument %d is %s, expected the parameter %s", i, prettyTerm(a), prm.Name()))
				}
			}
			// results unchanged
			nres := fn.Signature.Results().Len()
			for i := 0; i < nres && i < len(pr.Results); i++ {
				r := pr.Results[i]
				okRes := r.Key() == e.Result.Key() || (r.Op == "ext" && r.Args[0].Key() == e.Result.Key() && r.Name == fmt.Sprint(i))
				if !okRes {
					bad = append(bad, fmt.Sprintf("result %d is %s, not the target's result", i, prettyTerm(r)))
				}
			}
		})
		if paths != 1 {
			bad = append(bad, fmt.Sprintf("%d paths: not a plain forwarder", paths))
		}
		c.check(len(bad) == 0, "forwarder", label, pos, "one call to "+fs.target+" with the parameters in order, results returned unchanged", strings.Join(uniq(bad), " || "), 1)
	}
	for pkg, gs := range defaults {
		if len(gs) > 1 {
			c.bad("forwarder", pkg+".default-instance", "-", fmt.Sprintf("the entry points of package %s use %d different default instances: %v", pkg, len(gs), sortedKeysB(gs)), len(gs))
		}
	}
}

func firstOr(ts []*Term) *Term {
	if len(ts) == 0 {
		return nilTerm(nil)
	}
	return ts[0]
}

func sortedKeysB(m map[string]bool) []string {
	out := []string{}
	for k := range m {
		out = append(out, k)
	}
	sort.Strings(out)
	return out
}

// ruleServerClose: closing a listening server clears the listening flag (so that
// a later Start listens again) and closes its HTTP server and its listener under
// the server's lock; a server that is not listening is left alone.
func ruleServerClose(c *Ctx) {
	fn := c.P.Method("server", "server", "Close")
	fld := c.P.StructField("server", "server", "listening")
	if fn == nil || fld == nil {
		c.undecided("server-close", "server.Close", "-", "(*server).Close or server.listening not found")
		return
	}
	name, pos := funcName(fn), c.P.pos(fn.Pos())
	n, closing := 0, 0
	bad := []string{}
	var recv *Term
	c.P.Simulate(fn, SimConfig{Init: func(s *Sim, st *State, params []*Term) { recv = params[0] }}, func(pr *PathResult) {
		n++
		where := "path [" + condString(pr.Conds) + "]"
		s := &Sim{P: c.P, Cfg: SimConfig{NoHavoc: true}}
		wasListening, known := false, false
		for _, l := range pr.Conds {
			if l.Atom.Op == "init" && len(l.Atom.Args) == 1 && isFieldAddr(l.Atom.Args[0], fld) {
				known, wasListening = true, l.Pol
			}
		}
		closes, stops := 0, 0
		lnClosed := false
		locked := false
		for _, e := range pr.Events {
			if (e.Kind == "invoke" || e.Kind == "call") && len(e.Args) > 0 {
				nm := ""
				if e.Callee != nil {
					nm = e.Callee.Name()
				} else if e.Method != nil {
					nm = e.Method.Name()
				}
				if nm == "Close" && e.Args[0].contains(func(x *Term) bool { return x.Op == "fa" && x.Name == "ln" }) {
					lnClosed = true
				}
			}
			switch {
			case e.calleeIs("(*sync.Mutex).Lock", "(*sync.RWMutex).Lock"):
				locked = true
			case e.calleeIs("(*sync.Mutex).Unlock", "(*sync.RWMutex).Unlock"):
				locked = false
			case (e.Kind == "call" || e.Kind == "invoke") && (e.Callee != nil || e.Method != nil):
				nm := ""
				if e.Callee != nil {
					nm = e.Callee.Name()
				} else {
					nm = e.Method.Name()
				}
				if nm == "GracefulClose" || nm == "Close" || nm == "Shutdown" {
					closes++
					if !locked {
						bad = append(bad, "closes without holding the server's lock on "+where)
					}
					// what actually serves is pike's own http.Server with the elton instance as handler: the handler
					// stops (503 on connections that are still open) only through GracefulClose, or by shutting
					// that http.Server down; elton's Close / Shutdown act on elton's own, unused, server
					if nm == "GracefulClose" {
						stops++
					} else if e.Callee != nil && e.Callee.Signature.Recv() != nil && strings.HasSuffix(e.Callee.Signature.Recv().Type().String(), "net/http.Server") {
						stops++
					}
				}
			}
		}
		final := s.finalCell(pr.State, recv, fld)
		if !known {
			if closes > 0 {
				bad = append(bad, "closes without testing whether the server is listening on "+where)
			}
			return
		}
		if !wasListening {
			if closes > 0 {
				bad = append(bad, "closes a server that is not listening on "+where)
			}
			return
		}
		closing++
		if !final.IsFalse() {
			bad = append(bad, "leaves the listening flag "+prettyTerm(final)+" after closing (a later Start would return early and the server would never listen again) on "+where)
		}
		if closes > 0 && stops == 0 {
			bad = append(bad, "the removed server's handler keeps serving: neither GracefulClose on the elton instance nor a shutdown of the http.Server that serves it (clients holding a keep-alive connection are still proxied and cached after the update) on "+where)
		}
		if closes == 0 {
			bad = append(bad, "a listening server is not closed on "+where)
		}
		// when Close reports success the listener itself has been closed (the port is free again)
		if len(pr.Results) == 1 && !lnClosed {
			if k, isNil := pr.Facts.Decide(eqTerm(pr.Results[0], nilTerm(nil))); pr.Results[0].IsNil() || (k && isNil) || !k {
				bad = append(bad, "Close can return success without having closed the server's listener (the removed server keeps its port and keeps accepting) on "+where)
			}
		}
	})
	if closing == 0 {
		c.undecided("server-close", name, pos, "no path closes a listening server: idiom not recognised")
		return
	}
	c.check(len(bad) == 0, "server-close", name, pos, fmt.Sprintf("%d paths (%d close a listening server): flag cleared, HTTP server / listener closed under the lock; idle servers untouched", n, closing), strings.Join(uniq(bad), " || "), n)
}

// ruleConfigClients: every configuration back end reads, writes and watches one
// and the same location (a string field of the client), writes exactly the bytes
// it was given and returns the back end's error; config.Read decodes the bytes it
// read into the configuration it returns and reports both errors.
func ruleConfigClients(c *Ctx) {
	iface := c.P.NamedType("config", "Client")
	if iface == nil {
		c.undecided("config-clients", "config.Client", "-", "interface not found")
		return
	}
	it, ok := iface.Underlying().(*types.Interface)
	if !ok {
		c.undecided("config-clients", "config.Client", "-", "not an interface")
		return
	}
	impls := 0
	type use struct{ field, callee string }
	perImpl := map[string]map[string][]use{}
	for i := 0; i < it.NumMethods(); i++ {
		m := it.Method(i)
		if m.Name() == "Close" {
			continue
		}
		for _, impl := range c.P.implsOf(m) {
			recvName := impl.Params[0].Type().String()
			if perImpl[recvName] == nil {
				perImpl[recvName] = map[string][]use{}
			}
			name, pos := funcName(impl), c.P.pos(impl.Pos())
			bad := []string{}
			n := 0
			c.P.Simulate(impl, SimConfig{MaxVisits: 2}, func(pr *PathResult) {
				n++
				where := "path [" + condString(pr.Conds) + "]"
				var addrCall *Event
				for _, e := range pr.Events {
					if e.Kind != "call" && e.Kind != "invoke" {
						continue
					}
					for _, a := range e.Args {
						if a.Op == "init" && a.Args[0].Op == "fa" && a.Args[0].Args[0].Op == "sym" && strings.HasPrefix(a.Args[0].Args[0].Name, "p:") {
							if b, ok := a.Type.Underlying().(*types.Basic); ok && b.Kind() == types.String {
								cn := ""
								if e.Callee != nil {
									cn = e.Callee.String()
								} else if e.Method != nil {
									cn = e.Method.FullName()
								}
								if strings.Contains(cn, "zap.") || strings.Contains(cn, "/log.") {
									continue
								}
								if strings.HasPrefix(cn, "path/filepath.") || strings.HasPrefix(cn, "path.") || strings.HasPrefix(cn, "strings.") {
									bad = append(bad, "the client's location is rewritten by "+cn+" before it is used: this method no longer addresses the location the others read and write (a watch on the directory, a cleaned path compared with the raw one, …) on "+where)
									continue
								}
								perImpl[recvName][m.Name()] = append(perImpl[recvName][m.Name()], use{a.Args[0].Name, cn})
								addrCall = e
							}
						}
					}
				}
				if addrCall == nil {
					return
				}
				switch m.Name() {
				case "Set":
					dataOK := false
					for _, a := range addrCall.Args {
						if stripConvTerm(a).Op == "sym" && stripConvTerm(a).Name == "p:data" {
							dataOK = true
						}
					}
					if !dataOK {
						bad = append(bad, "the value written is not the data it was given on "+where)
					}
					if len(pr.Results) == 1 && !pr.Results[0].contains(func(x *Term) bool { return x.Key() == addrCall.Result.Key() }) {
						bad = append(bad, "the back end's error is not what Set returns ("+prettyTerm(pr.Results[0])+") on "+where)
					}
				case "Get":
					if len(pr.Results) == 2 {
						d, e := pr.Results[0], pr.Results[1]
						fromCall := func(t *Term) bool {
							return t.contains(func(x *Term) bool { return x.Key() == addrCall.Result.Key() })
						}
						if !e.IsNil() && !fromCall(e) {
							bad = append(bad, "returns error "+prettyTerm(e)+", not the back end's, on "+where)
						}
						if !d.IsNil() && !fromCall(d) {
							bad = append(bad, "returns data "+prettyTerm(d)+" that was not read from the back end on "+where)
						}
						// … and exactly those bytes: selecting a part of the answer is fine, passing it through a function is not
						if !d.IsNil() && fromCall(d) {
							t := d
							for t != nil && t.Key() != addrCall.Result.Key() {
								switch {
								case (t.Op == "ext" || t.Op == "fld" || t.Op == "idx" || t.Op == "init" || t.Op == "fa" || t.Op == "ia" || t.Op == "conv") && len(t.Args) > 0:
									t = t.Args[0]
								default:
									bad = append(bad, "returns "+prettyTerm(d)+": the bytes read are altered before they are handed back (save-then-read no longer returns what was saved) on "+where)
									t = nil
								}
							}
						}
					}
				}
			})
			impls++
			c.check(len(bad) == 0, "config-clients", name, pos, fmt.Sprintf("%d paths: addresses the client's own location, passes the data / error through", n), strings.Join(uniq(bad), " || "), n)
		}
	}
	for recv, ms := range perImpl {
		fields := map[string]bool{}
		for _, m := range []string{"Get", "Set", "Watch"} {
			if len(ms[m]) == 0 {
				c.bad("config-clients", recv+".location", "-", m+" of "+recv+" does not address any location field of the client", 1)
			}
			for _, u := range ms[m] {
				fields[u.field] = true
			}
		}
		c.check(len(fields) == 1, "config-clients", recv+".location", "-", fmt.Sprintf("Get, Set and Watch all address field %v", sortedKeysB(fields)), fmt.Sprintf("Get, Set and Watch of %s address different locations %v: what is saved is not what is read back / watched", recv, sortedKeysB(fields)), 3)
	}
	if impls < 6 {
		c.undecided("config-clients", "config.Client", "-", fmt.Sprintf("only %d Get/Set/Watch implementations found (expected 2 back ends x 3)", impls))
	}
	// config.Read
	rd := c.P.Func("config", "Read")
	if rd == nil {
		c.undecided("config-read", "config.Read", "-", "not found")
		return
	}
	bad := []string{}
	n, oks := 0, 0
	c.P.Simulate(rd, SimConfig{}, func(pr *PathResult) {
		n++
		where := "path [" + condString(pr.Conds) + "]"
		if len(pr.Results) != 2 {
			return
		}
		var get, unm *Event
		for _, e := range pr.Events {
			if e.Kind == "invoke" && e.Method != nil && e.Method.Name() == "Get" {
				get = e
			}
			if e.Kind == "call" && e.Callee != nil && strings.HasSuffix(e.Callee.String(), "yaml.v2.Unmarshal") {
				unm = e
			}
		}
		if get == nil {
			bad = append(bad, "does not read from the client on "+where)
			return
		}
		errT := pr.Results[1]
		if k, isNil := pr.Facts.Decide(eqTerm(ext(get.Result, 1), nilTerm(nil))); k && !isNil {
			if errT.Key() != ext(get.Result, 1).Key() {
				bad = append(bad, "the client's read error is not returned on "+where)
			}
			return
		}
		if unm == nil {
			bad = append(bad, "the bytes read are not decoded on "+where)
			return
		}
		if unm.Args[0].Key() != ext(get.Result, 0).Key() {
			bad = append(bad, "decodes "+prettyTerm(unm.Args[0])+", not the bytes read, on "+where)
		}
		if k, isNil := pr.Facts.Decide(eqTerm(unm.Result, nilTerm(nil))); !(k && isNil) {
			if errT.Key() != unm.Result.Key() {
				bad = append(bad, "the decode error is not returned (a configuration that failed to decode is reported as read) on "+where)
			}
			if k {
				return
			}
		}
		oks++
		if !unm.Args[1].contains(func(x *Term) bool { return x.Key() == pr.Results[0].Key() }) {
			bad = append(bad, "returns "+prettyTerm(pr.Results[0])+", not the configuration that was decoded into ("+prettyTerm(unm.Args[1])+"), on "+where)
		}
	})
	if oks == 0 {
		c.undecided("config-read", funcName(rd), c.P.pos(rd.Pos()), "no successful path recognised")
		return
	}
	c.check(len(bad) == 0, "config-read", funcName(rd), c.P.pos(rd.Pos()), fmt.Sprintf("%d paths: client error and decode error returned, the bytes read are decoded into the returned configuration", n), strings.Join(uniq(bad), " || "), n)
}

// ruleServersStartAll: starting the server list visits every registered server
// (the Range callback never stops the iteration) and starts each one.
func ruleServersStartAll(c *Ctx) {
	fn := c.P.Method("server", "servers", "Start")
	one := c.P.Method("server", "server", "Start")
	if fn == nil || one == nil {
		c.undecided("start-all", "server.servers.Start", "-", "not found")
		return
	}
	name, pos := funcName(fn), c.P.pos(fn.Pos())
	var cb *ssa.Function
	ranges := 0
	for _, b := range fn.Blocks {
		for _, in := range b.Instrs {
			call, ok := in.(*ssa.Call)
			if !ok {
				continue
			}
			if sc := call.Call.StaticCallee(); sc != nil && sc.String() == "(*sync.Map).Range" && len(call.Call.Args) == 2 {
				ranges++
				if mc, ok := call.Call.Args[1].(*ssa.MakeClosure); ok {
					cb, _ = mc.Fn.(*ssa.Function)
				} else if f, ok := call.Call.Args[1].(*ssa.Function); ok {
					cb = f
				}
			}
		}
	}
	if ranges != 1 || cb == nil {
		c.undecided("start-all", name, pos, fmt.Sprintf("%d sync.Map.Range calls with a function literal found", ranges))
		return
	}
	n, started := 0, 0
	bad := []string{}
	c.P.Simulate(cb, SimConfig{Inline: inlineHelpersOf(fn)}, func(pr *PathResult) {
		n++
		where := "path [" + condString(pr.Conds) + "]"
		if pr.Exit != "return" || len(pr.Results) != 1 || !pr.Results[0].IsTrue() {
			bad = append(bad, "the iteration over the servers can stop early on "+where)
		}
		isServer, known := false, false
		for _, l := range pr.Conds {
			l.Atom.walk(func(x *Term) bool {
				if x.Op == "taok" {
					known, isServer = true, l.Pol
				}
				return true
			})
			if l.Atom.Op == "eq" && l.Atom.Args[1].IsNil() && l.Atom.Args[0].Op == "ta" {
				known, isServer = true, !l.Pol
			}
		}
		calls := 0
		for _, e := range pr.Events {
			if e.Kind == "call" && e.Callee == one && !e.Deferred {
				calls++
				if !(e.Args[0].Op == "ta" || (e.Args[0].Op == "ext" && e.Args[0].Args[0].Op == "tuple")) && !e.Args[0].contains(func(x *Term) bool { return x.Op == "ta" }) {
					bad = append(bad, "starts "+prettyTerm(e.Args[0])+", not the visited server, on "+where)
				}
			}
		}
		if known && isServer {
			started++
			if calls != 1 {
				bad = append(bad, fmt.Sprintf("a registered server is started %d times on %s", calls, where))
			}
		}
	})
	if started == 0 {
		c.undecided("start-all", name, pos, "no path starts a server: idiom not recognised")
		return
	}
	c.check(len(bad) == 0, "start-all", name, pos, fmt.Sprintf("%d paths of the Range callback: every registered server is started once and the iteration never stops early", n), strings.Join(uniq(bad), " || "), n)
}
