package main

import (
	"flag"
	"fmt"
	"os"
	"path/filepath"
	"runtime/debug"
	"sort"
	"strings"
	"time"

	"golang.org/x/tools/go/ssa"
)

var properties = map[string]*propertyInfo{}

func register(id, explain string, assume []string, run func(*Ctx)) {
	properties[id] = &propertyInfo{explain: explain, assume: assume, run: run}
}

var commonAssumptions = []string{
	"Go memory model and the documented semantics of sync.Mutex/RWMutex, channels and defer",
	"the type-checked source of /repo's working tree is what gets built (no build tags or generated files in pike; go/packages ./... with the module's own go.mod)",
	"library code (net/http, elton, groupcache/lru, badger, redis, mongo, codecs) behaves as documented; it is not analysed in the quick tier",
	"exported error sentinels of libraries (io.EOF, Err*) are non-nil",
	"no reflection/unsafe writes to pike's struct fields from other packages (the two unsafe conversions in pike are checked by C06)",
}

func main() {
	repo := flag.String("repo", "/repo", "path of the vicanso/pike working tree")
	verif := flag.String("verif", "", "directory for evidence/ replay/ known_findings.json (default: parent of the executable's dir or cwd)")
	prop := flag.String("property", "", "property id (C01..C20) or 'all'")
	tier := flag.String("tier", "quick", "quick | thorough")
	dump := flag.String("dump", "", "debug: dump the paths of a function, e.g. cache.httpCache.get")
	depth := flag.Int("depth", 0, "debug: inline depth for -dump")
	list := flag.Bool("list", false, "list pike functions")
	noEvidence := flag.Bool("no-evidence", false, "do not write evidence/replay files (self-test runs on scratch copies)")
	coverage := flag.Bool("coverage", false, "debug: after the run, list the pike functions whose paths no rule enumerated")
	describe := flag.Bool("describe", false, "print the registered properties and what each check decides (JSON)")
	flag.Parse()
	if *describe {
		out := map[string]string{}
		for id, pi := range properties {
			out[id] = pi.explain
		}
		writeJSON("/dev/stdout", out)
		return
	}

	defer func() {
		if r := recover(); r != nil {
			fmt.Fprintf(os.Stderr, "pikelint: internal error: %v\n%s", r, debug.Stack())
			os.Exit(2)
		}
	}()

	// watchdog: a run that does not finish is a failed run (no verdict), never a pass
	go func() {
		time.Sleep(15 * time.Minute)
		fmt.Fprintln(os.Stderr, "pikelint: watchdog: analysis did not finish within 15 minutes")
		os.Exit(2)
	}()
	vdir := *verif
	if vdir == "" {
		vdir, _ = os.Getwd()
	}
	vdir, _ = filepath.Abs(vdir)
	t0 := time.Now()
	rp, err := filepath.Abs(*repo)
	if err != nil {
		fmt.Fprintln(os.Stderr, "pikelint:", err)
		os.Exit(2)
	}
	whole := *tier == "thorough"
	p, err := loadProgram(rp, whole, "")
	if err != nil {
		fmt.Fprintln(os.Stderr, "pikelint:", err)
		os.Exit(2)
	}
	fmt.Fprintf(os.Stderr, "pikelint: loaded %d packages, %d pike functions (whole=%v) in %.1fs\n", len(p.Pkgs), len(p.PikeFuncs()), whole, time.Since(t0).Seconds())
	if os.Getenv("PIKELINT_MODS") != "" {
		p.dumpMods()
		return
	}
	if *list {
		for _, f := range p.allFuncs {
			fmt.Println(funcName(f), p.pos(f.Pos()))
		}
		return
	}
	if *dump != "" {
		fn := p.lookupByName(*dump)
		if fn == nil {
			fmt.Fprintln(os.Stderr, "not found:", *dump)
			os.Exit(2)
		}
		p.dumpPaths(fn, *depth)
		return
	}
	ids := []string{}
	if *prop == "all" {
		for id := range properties {
			ids = append(ids, id)
		}
		sort.Strings(ids)
	} else {
		for _, id := range strings.Split(*prop, ",") {
			if properties[id] == nil {
				fmt.Fprintf(os.Stderr, "pikelint: no check for property %q\n", id)
				os.Exit(2)
			}
			ids = append(ids, id)
		}
	}
	known, err := loadKnown(filepath.Join(vdir, "known_findings.json"))
	if err != nil {
		fmt.Fprintln(os.Stderr, "pikelint: known_findings.json:", err)
		os.Exit(2)
	}
	if *tier == "thorough" {
		defaultMaxVisits = 5 // loop bodies followed for four iterations instead of two
	}
	if v := os.Getenv("PIKELINT_MAXVISITS"); v != "" {
		fmt.Sscan(v, &defaultMaxVisits)
	}
	rc := 0
	var p386 *Program
	needs386 := map[string]bool{"C04": true, "C07": true, "C09": true, "C11": true, "C12": true}
	for _, id := range ids {
		t1 := time.Now()
		pi := properties[id]
		c := &Ctx{P: p, Prop: id, Tier: *tier, FixDir: filepath.Join(vdir, "checker", "fixture"), Explain: pi.explain, Assume: append(append([]string{}, commonAssumptions...), pi.assume...)}
		simBefore := map[*ssa.Function]bool{}
		for f := range simulated {
			simBefore[f] = true
		}
		if !*coverage {
			simulated = map[*ssa.Function]bool{}
		}
		pi.run(c)
		enumerated := len(simulated)
		for f := range simBefore {
			simulated[f] = true
		}
		goarch := "host"
		if *tier == "thorough" && needs386[id] {
			// repeat the property's rules with 32-bit int (goreleaser's default matrix builds 386)
			if p386 == nil {
				p386, err = loadProgram(rp, false, "386")
				if err != nil {
					fmt.Fprintln(os.Stderr, "pikelint: GOARCH=386 load:", err)
					os.Exit(2)
				}
			}
			modCache = nil
			c.P, c.Suffix = p386, "@386"
			pi.run(c)
			modCache = nil
			c.P, c.Suffix = p, ""
			goarch = "host+386"
		}
		if len(c.Obls) == 0 {
			fmt.Fprintf(os.Stderr, "pikelint: %s produced no obligations\n", id)
			os.Exit(2)
		}
		analysed := map[string]interface{}{
			"repo":                                  p.Repo,
			"packages":                              len(p.Pkgs),
			"pike_functions":                        len(p.PikeFuncs()),
			"whole_program":                         p.Whole,
			"functions_whose_paths_were_enumerated": enumerated,
			"goarch":                                goarch,
			"load_s":                                t1.Sub(t0).Seconds(),
		}
		if *noEvidence {
			r := finishNoFiles(c, known)
			if r > rc {
				rc = r
			}
			continue
		}
		if r := finish(c, vdir, known, t1, analysed); r > rc {
			rc = r
		}
	}
	if *coverage {
		miss := []string{}
		tot := 0
		for _, f := range p.PikeFuncs() {
			tot++
			if !simulated[f] {
				miss = append(miss, fmt.Sprintf("%s  %s", p.pos(f.Pos()), funcName(f)))
			}
		}
		sort.Strings(miss)
		fmt.Printf("path rules enumerated %d of %d pike functions; not enumerated:\n", tot-len(miss), tot)
		for _, m := range miss {
			fmt.Println("  " + m)
		}
	}
	os.Exit(rc)
}

// finishNoFiles prints verdicts without touching evidence/replay (used by the
// self-test harness on scratch copies).
func finishNoFiles(c *Ctx, known *KnownFile) int {
	knownKeys := map[string]bool{}
	for _, k := range known.Findings {
		if k.Property == c.Prop {
			knownKeys[k.Key] = true
		}
	}
	rc := 0
	sort.SliceStable(c.Obls, func(i, j int) bool { return c.Obls[i].Key < c.Obls[j].Key })
	for _, o := range c.Obls {
		if o.Status != "discharged" && !(knownKeys[o.Key] && o.Status == "violated") {
			fmt.Printf("  %s %s at %s: %s\n", strings.ToUpper(o.Status), o.Key, o.Pos, o.Detail)
			rc = 1
		}
	}
	if rc != 0 {
		fmt.Printf("VIOLATION property=%s replay=-\n", c.Prop)
	} else {
		fmt.Printf("%s: held (%d obligations)\n", c.Prop, len(c.Obls))
	}
	return rc
}

// lookupByName: "cache.httpCache.get", "server.getCacheMaxAge", "server.NewCache$1"
func (p *Program) lookupByName(s string) *ssa.Function {
	for _, f := range p.allFuncs {
		n := funcName(f)
		n = strings.NewReplacer("(", "", ")", "", "*", "").Replace(n)
		if n == s {
			return f
		}
	}
	return nil
}
