package main

// Smaller plumbing rules: context accessor pairs, the responder, Age(), codec
// level selection, the location's header/query edits, the admin purge route.

import (
	"fmt"
	"go/types"
	"strings"

	"golang.org/x/tools/go/ssa"
)

// ruleContextKeys: each setter/getter pair of the request context agrees on its
// key, the four keys are distinct, and values are passed through unchanged.
func ruleContextKeys(c *Ctx, a *serverAnchors) {
	pairs := []struct {
		name     string
		set, get *ssa.Function
	}{{"status", a.setStat, a.getStat}, {"response", a.setResp, a.getResp}, {"age", a.setAge, c.P.Func("server", "getHTTPRespAge")}, {"lifetime", a.setMax, a.getMax}}
	keys := map[string]string{}
	bad := []string{}
	n := 0
	for _, p := range pairs {
		if p.set == nil || p.get == nil {
			bad = append(bad, "accessor pair "+p.name+" not found")
			continue
		}
		setK, getK := "", ""
		c.P.Simulate(p.set, SimConfig{}, func(pr *PathResult) {
			n++
			for _, e := range pr.Events {
				if e.Kind == "call" && e.Callee != nil && e.Callee.String() == "(*github.com/vicanso/elton.Context).Set" {
					if k, ok := e.Args[1].strip().StrVal(); ok {
						setK = k
					}
					v := stripConvTerm(e.Args[2].strip())
					if !(v.Op == "sym" && strings.HasPrefix(v.Name, "p:")) {
						bad = append(bad, funcName(p.set)+" stores "+prettyTerm(v)+" instead of its argument")
					}
				}
			}
		})
		c.P.Simulate(p.get, SimConfig{}, func(pr *PathResult) {
			n++
			for _, e := range pr.Events {
				if e.Kind == "call" && e.Callee != nil && strings.HasPrefix(e.Callee.String(), "(*github.com/vicanso/elton.Context).Get") {
					if k, ok := e.Args[1].strip().StrVal(); ok {
						getK = k
					}
				}
			}
		})
		if setK == "" || getK == "" {
			bad = append(bad, "accessor pair "+p.name+": context key is not a constant")
			continue
		}
		if setK != getK {
			bad = append(bad, fmt.Sprintf("accessor pair %s: written under %q but read under %q", p.name, setK, getK))
		}
		if other, dup := keys[setK]; dup {
			bad = append(bad, fmt.Sprintf("accessor pairs %s and %s share the context key %q", p.name, other, setK))
		}
		keys[setK] = p.name
	}
	c.check(len(bad) == 0, "context-keys", "server", c.P.pos(a.setStat.Pos()), fmt.Sprintf("four setter/getter pairs, each on its own constant key: %v", sortedKeys(keys)), strings.Join(uniq(bad), " || "), n)
}

// ruleResponder: the responder fills the response the cache/proxy recorded,
// emits Age only when positive and from the recorded age, and labels with the
// recorded status.
func ruleResponder(c *Ctx, a *serverAnchors) {
	fn := a.respMW
	name, pos := "server.NewResponder$handler", c.P.pos(fn.Pos())
	fill := respMethod(c.P, "Fill")
	getAge := c.P.Func("server", "getHTTPRespAge")
	n, oks := 0, 0
	bad := []string{}
	c.P.Simulate(fn, SimConfig{}, func(pr *PathResult) {
		n++
		where := "path [" + condString(pr.Conds) + "]"
		if pr.Exit != "return" || len(pr.Results) != 1 {
			return
		}
		resNil := pr.Results[0].IsNil()
		if k, v := pr.Facts.Decide(eqTerm(pr.Results[0], nilTerm(nil))); k && v {
			resNil = true
		}
		nextAt, fillAt := -1, -1
		var respT *Term
		var ageEv, statEv *Event
		ageSet, labelSet := false, false
		for i, e := range pr.Events {
			switch {
			case isFieldCall(e, "Next"):
				nextAt = i
			case e.Kind == "call" && e.Callee == a.getResp:
				respT = e.Result
			case e.Kind == "call" && e.Callee == fill:
				fillAt = i
				if respT == nil || e.Args[0].Key() != respT.Key() {
					bad = append(bad, "Fill is applied to "+prettyTerm(e.Args[0])+", not the response recorded for this request on "+where)
				}
			case e.Kind == "call" && e.Callee == getAge:
				ageEv = e
			case e.Kind == "call" && e.Callee == a.getStat:
				statEv = e
			case e.Kind == "call" && e.Callee != nil && e.Callee.Name() == "SetHeader" && len(e.Args) == 3:
				h, _ := e.Args[1].StrVal()
				switch strings.ToLower(h) {
				case "age":
					ageSet = true
					v := e.Args[2]
					if ageEv == nil || !v.contains(func(x *Term) bool { return x.Key() == ageEv.Result.Key() }) {
						bad = append(bad, "the Age header is "+prettyTerm(v)+", not the recorded age on "+where)
					}
					if ageEv != nil {
						if iv := pr.Facts.Interval(ageEv.Result); iv.Lo == nil || iv.Lo.Sign() < 1 {
							bad = append(bad, "an Age header is emitted for a non-positive age (only hits carry an age) on "+where)
						}
					}
				case "x-status":
					labelSet = true
					v := e.Args[2]
					if statEv == nil || !v.contains(func(x *Term) bool { return x.Key() == statEv.Result.Key() }) {
						bad = append(bad, "the status label is "+prettyTerm(v)+", not the recorded cache status on "+where)
					}
				}
			}
		}
		if nextAt < 0 {
			bad = append(bad, "the downstream handlers are not run on "+where)
			return
		}
		if k, isNil := pr.Facts.Decide(eqTerm(pr.Events[nextAt].Result, nilTerm(nil))); k && !isNil {
			if resNil {
				bad = append(bad, "a downstream error is swallowed on "+where)
			}
			return
		}
		if respT != nil {
			if k, isNil := pr.Facts.Decide(eqTerm(respT, nilTerm(nil))); k && isNil {
				if resNil {
					bad = append(bad, "no response was recorded but no error is returned on "+where)
				}
				return
			}
		}
		if fillAt < 0 {
			if resNil {
				bad = append(bad, "success without filling the response on "+where)
			}
			return
		}
		if !resNil {
			return // Fill failed
		}
		oks++
		if !labelSet {
			bad = append(bad, "a successful response carries no cache-status label on "+where)
		}
		if ageEv != nil {
			if iv := pr.Facts.Interval(ageEv.Result); iv.Lo != nil && iv.Lo.Sign() >= 1 && !ageSet {
				bad = append(bad, "a positive recorded age is not emitted on "+where)
			}
		}
	})
	if oks == 0 {
		c.undecided("responder", name, pos, "idiom not recognised")
		return
	}
	c.check(len(bad) == 0, "responder", name, pos, fmt.Sprintf("%d paths: Fill on the recorded response after c.Next() succeeded; Age only when the recorded age is positive; X-Status from the recorded status; errors propagate", n), strings.Join(uniq(bad), " || "), n)
}

// ruleAge: Age() = clock - createdAt under the read lock.
func ruleAge(c *Ctx, a *cacheAnchors) {
	fn := a.Age
	if fn == nil {
		c.undecided("age", "httpCache.Age", "-", "not found")
		return
	}
	name, pos := funcName(fn), c.P.pos(fn.Pos())
	n := 0
	bad := []string{}
	c.P.Simulate(fn, SimConfig{Inline: inlineCache}, func(pr *PathResult) {
		n++
		if len(pr.Results) != 1 {
			return
		}
		r := stripConvTerm(pr.Results[0])
		if !(r.Op == "bin" && r.Name == "-" && isClock(r.Args[0]) && r.Args[1].Op == "init" && r.Args[1].Args[0].Op == "fa" && r.Args[1].Args[0].Obj == a.fCreatedAt) {
			bad = append(bad, "Age() returns "+prettyTerm(r)+", not now - createdAt")
		}
	})
	c.check(len(bad) == 0 && n > 0, "age", name, pos, "Age() = clock - createdAt (locking is checked by the lockset rule)", strings.Join(uniq(bad), " || "), n)
}

// ruleCodecLevels: Gzip uses the gzip level and Brotli the br level of the
// service it is called on.
func ruleCodecLevels(c *Ctx) {
	bad := []string{}
	n := 0
	for m, want := range map[string][2]string{"Gzip": {"doGzip", "gzip"}, "Brotli": {"doBrotli", "br"}} {
		fn := c.P.Method("compress", "compressSrv", m)
		if fn == nil {
			bad = append(bad, "method "+m+" not found")
			continue
		}
		c.P.Simulate(fn, SimConfig{}, func(pr *PathResult) {
			n++
			okCall := false
			for _, e := range pr.Events {
				if e.Kind == "call" && e.Callee != nil && e.Callee.Name() == want[0] {
					lvl := e.Args[1]
					if lvl.Op == "call" && lvl.Fn != nil && lvl.Fn.Name() == "GetLevel" && lvl.Args[0].Op == "sym" {
						if s, ok := lvl.Args[1].StrVal(); ok && s == want[1] {
							okCall = true
						} else {
							bad = append(bad, m+" compresses with the level configured for "+prettyTerm(lvl.Args[1]))
						}
					} else {
						bad = append(bad, m+" compresses with level "+prettyTerm(lvl)+", not the service's configured level")
					}
					if !(e.Args[0].Op == "sym") {
						bad = append(bad, m+" compresses "+prettyTerm(e.Args[0])+" instead of its input")
					}
				}
			}
			if !okCall && len(bad) == 0 {
				bad = append(bad, m+" does not call "+want[0]+" with its own level")
			}
		})
	}
	// GetLevel reads the entry of the requested encoding; SetLevels stores each configured value under its own name
	if fn := c.P.Method("compress", "compressSrv", "GetLevel"); fn != nil {
		c.P.Simulate(fn, SimConfig{}, func(pr *PathResult) {
			n++
			if len(pr.Results) != 1 {
				return
			}
			r := stripConvTerm(pr.Results[0])
			if v, ok := r.IntVal(); ok && v == 0 {
				return
			}
			if !(r.Op == "call" && strings.Contains(r.Name, "Int32).Load") && r.Args[0].contains(func(x *Term) bool { return x.Op == "sym" && x.Name == "p:encoding" })) {
				bad = append(bad, "GetLevel returns "+prettyTerm(r)+", not the level stored for the requested encoding")
			}
		})
	}
	c.check(len(bad) == 0, "codec-levels", "compress.compressSrv", "compress/compress.go", "Gzip uses GetLevel(\"gzip\"), Brotli uses GetLevel(\"br\") of its own service; GetLevel loads the requested encoding's level", strings.Join(uniq(bad), " || "), n)
}

// ruleLocationEdits: AddRequestHeader / AddResponseHeader add every configured
// value of their own header set to the header they are given; AddQuery adds every
// configured value to the request's query.
func ruleLocationEdits(c *Ctx) {
	bad := []string{}
	n := 0
	for m, field := range map[string]string{"AddRequestHeader": "RequestHeader", "AddResponseHeader": "ResponseHeader"} {
		fn := c.P.Method("location", "Location", m)
		if fn == nil {
			bad = append(bad, m+" not found")
			continue
		}
		adds := 0
		c.P.Simulate(fn, SimConfig{Inline: func(callee *ssa.Function, d int) bool { return inPkg(callee, "location") && d < 2 }}, func(pr *PathResult) {
			n++
			for _, e := range pr.Events {
				if e.Kind == "call" && e.Callee != nil && strings.HasPrefix(e.Callee.String(), "(net/http.Header).") {
					switch e.Callee.Name() {
					case "Add":
						adds++
						if !(e.Args[0].Op == "sym" && e.Args[0].Name == "p:header") {
							bad = append(bad, m+" writes into "+prettyTerm(e.Args[0])+", not the header it was given")
						}
						src := false
						for _, arg := range e.Args[1:] {
							if arg.contains(func(x *Term) bool {
								return x.Op == "init" && x.Args[0].Op == "fa" && x.Args[0].Name == field
							}) {
								src = true
							}
							if arg.contains(func(x *Term) bool {
								return x.Op == "init" && x.Args[0].Op == "fa" && (x.Args[0].Name == "RequestHeader" || x.Args[0].Name == "ResponseHeader") && x.Args[0].Name != field
							}) {
								bad = append(bad, m+" adds the location's other header set")
							}
						}
						if !src {
							bad = append(bad, m+" adds values that do not come from the location's "+field)
						}
					case "Set", "Del":
						bad = append(bad, m+" uses Header."+e.Callee.Name()+" (drops the client's / upstream's own values of that header)")
					}
				}
			}
		})
		if adds == 0 {
			bad = append(bad, m+" adds nothing")
		}
	}
	c.check(len(bad) == 0, "location-edits", "location.Location", "location/location.go", "AddRequestHeader / AddResponseHeader Add every value of their own configured set to the given header", strings.Join(uniq(bad), " || "), n)
}

// ruleAdminPurge: DELETE /cache purges exactly (query cache, query key) and
// rejects an empty key.
func ruleAdminPurge(c *Ctx) {
	fn := c.P.Func("server", "removeCache")
	if fn == nil {
		c.undecided("admin-route", "server.removeCache", "-", "not found")
		return
	}
	name, pos := funcName(fn), c.P.pos(fn.Pos())
	n, purges := 0, 0
	bad := []string{}
	c.P.Simulate(fn, SimConfig{}, func(pr *PathResult) {
		n++
		var keyQ *Term
		for _, e := range pr.Events {
			if e.Kind == "call" && e.Callee != nil && e.Callee.Name() == "QueryParam" {
				if s, _ := e.Args[1].StrVal(); s == "key" {
					keyQ = e.Result
				}
			}
		}
		// a request that carries a key is purged: no path answers success without the call
		if keyQ != nil && pr.Exit == "return" && len(pr.Results) == 1 && pr.Results[0].IsNil() {
			called := false
			for _, e := range pr.Events {
				if e.Kind == "call" && e.Callee != nil && e.Callee.String() == pikeMod+"/cache.RemoveHTTPCache" {
					called = true
				}
			}
			if kk, isEmpty := pr.Facts.Decide(eqTerm(keyQ, strTerm(""))); !called && kk && !isEmpty {
				bad = append(bad, "answers success for a non-empty key without calling the purge (a repeated purge after a refetch is dropped; the entry and its persisted copy survive) on path ["+condString(pr.Conds)+"]")
			}
		}
		for _, e := range pr.Events {
			if e.Kind == "call" && e.Callee != nil && e.Callee.String() == pikeMod+"/cache.RemoveHTTPCache" {
				purges++
				nm, k := e.Args[0], e.Args[1]
				if !(nm.Op == "call" && nm.Fn != nil && nm.Fn.Name() == "QueryParam") {
					bad = append(bad, "the cache name is "+prettyTerm(nm))
				} else if s, _ := nm.Args[1].StrVal(); s != "cache" {
					bad = append(bad, "the cache name is read from query parameter "+s)
				}
				if keyQ == nil || !(k.Op == "conv" && k.Args[0].Key() == keyQ.Key()) {
					bad = append(bad, "the key purged is "+prettyTerm(k)+", not a fresh []byte copy of the 'key' query parameter")
				}
				if keyQ != nil {
					if kk, isEmpty := pr.Facts.Decide(eqTerm(keyQ, strTerm(""))); !(kk && !isEmpty) {
						bad = append(bad, "an empty key reaches the purge")
					}
				}
			}
		}
	})
	// the route
	routed := false
	if sa := c.P.Func("server", "StartAdminServer"); sa != nil {
		for _, b := range sa.Blocks {
			for _, in := range b.Instrs {
				if ci, ok := in.(ssa.CallInstruction); ok {
					if sc := ci.Common().StaticCallee(); sc != nil && sc.Name() == "DELETE" {
						routed = true
					}
				}
			}
		}
	}
	if !routed {
		bad = append(bad, "no DELETE route is registered on the admin server")
	}
	if purges == 0 {
		c.undecided("admin-route", name, pos, "idiom not recognised")
		return
	}
	c.check(len(bad) == 0, "admin-route", name, pos, fmt.Sprintf("%d paths: RemoveHTTPCache(query 'cache', []byte(query 'key')) with a non-empty key; DELETE route registered", n), strings.Join(uniq(bad), " || "), n)
}

// ruleWatchEveryWrite: the file configuration watcher calls onChange for every
// write event it receives (no event of a save is dropped), and only stops when
// the watcher's channels are closed.
func ruleWatchEveryWrite(c *Ctx) {
	fn := c.P.Method("config", "fileClient", "Watch")
	if fn == nil {
		c.undecided("watch-every-write", "fileClient.Watch", "-", "not found")
		return
	}
	name, pos := funcName(fn), c.P.pos(fn.Pos())
	n, writes, waits := 0, 0, 0
	bad := []string{}
	sim := c.P.Simulate(fn, SimConfig{MaxVisits: 3}, func(pr *PathResult) {
		n++
		w, calls := 0, 0
		for _, l := range pr.Conds {
			isZero := len(l.Atom.Args) == 2 && (isZeroInt(l.Atom.Args[0]) || isZeroInt(l.Atom.Args[1]))
			if l.Atom.Op == "eq" && l.Pol != isZero && l.Atom.contains(func(x *Term) bool { return (x.Op == "fld" || x.Op == "fa") && x.Name == "Op" }) {
				w++
				// Op is a bit set (kqueue reports a rewrite as Write|Chmod): the test must mask the Write bit
				if !l.Atom.contains(func(x *Term) bool { return x.Op == "bin" && x.Name == "&" }) {
					bad = append(bad, "a write event is recognised by comparing the whole Op bit set ("+l.Atom.String()+"): an event that carries Write together with another bit is not applied")
				}
			}
		}
		for _, e := range pr.Events {
			if e.Kind == "dyncall" && e.CalleeT != nil && e.CalleeT.Op == "sym" && e.CalleeT.Name == "p:onChange" {
				calls++
			}
		}
		writes += w
		// the loop ends only when the watcher is closed (a channel reports !ok): an
		// error value delivered by the watcher is not the end of watching
		var last *Event
		for _, e := range pr.Events {
			if e.Kind == "select" || e.Kind == "recv" {
				last = e
			}
		}
		if pr.Exit == "return" && last != nil {
			waits++
			closed := false
			if last.Ok != nil {
				if k, v := pr.Facts.Decide(last.Ok); k && !v {
					closed = true
				}
			}
			if !closed {
				bad = append(bad, fmt.Sprintf("%s: Watch returns although the watcher is still open (nothing restarts it: every later change of the file is ignored) on path [%s]", c.P.pos(last.Instr.Pos()), condString(pr.Conds)))
			}
		}
		if calls < w {
			bad = append(bad, fmt.Sprintf("%d write event(s) received but onChange called %d time(s): a saved configuration is not applied until some later save, on path [%s]", w, calls, condString(pr.Conds)))
		}
	})
	if sim.Overflow || writes == 0 || waits == 0 {
		c.undecided("watch-every-write", name, pos, "idiom not recognised")
		return
	}
	c.check(len(bad) == 0, "watch-every-write", name, pos, fmt.Sprintf("%d paths: every write event is followed by onChange()", n), strings.Join(uniq(bad), " || "), n)
}

// rulePoolFields: pike configures only the policy and the ping path of the
// dependency's health-checked pool; every other parameter keeps the dependency's
// default (on which "servers whose health checks currently pass" relies).
func rulePoolFields(c *Ctx) {
	n := 0
	bad := []string{}
	for _, f := range c.P.allFuncs {
		for _, b := range f.Blocks {
			for _, in := range b.Instrs {
				st, ok := in.(*ssa.Store)
				if !ok {
					continue
				}
				fa, ok := st.Addr.(*ssa.FieldAddr)
				if !ok {
					continue
				}
				fv := fieldOf(fa.X.Type(), fa.Field)
				if fv.Pkg() == nil || fv.Pkg().Path() != "github.com/vicanso/upstream" {
					continue
				}
				n++
				if fv.Name() != "Policy" && fv.Name() != "Ping" {
					bad = append(bad, fmt.Sprintf("%s: %s sets %s of the upstream pool (health-check parameters must keep the dependency's defaults: e.g. one probe can never reach its fail threshold of two)", c.P.pos(st.Pos()), funcName(f), fv.Name()))
				}
			}
		}
	}
	if n < 2 {
		c.undecided("pool-fields", "upstream", "-", "Policy/Ping wiring not found")
		return
	}
	c.check(len(bad) == 0, "pool-fields", "upstream", "upstream/upstream.go", fmt.Sprintf("%d stores to fields of the dependency's pool: Policy and Ping only", n), strings.Join(uniq(bad), " || "), n)
}

// ruleProxyHandlerDirect: the handler stored as an upstream's Proxy is the
// library's reverse-proxy handler itself; a pike wrapper around it must call it
// at most once per request.
func ruleProxyHandlerDirect(c *Ctx) {
	fn := c.P.Func("upstream", "NewUpstreamServer")
	if fn == nil {
		c.undecided("proxy-handler-direct", "NewUpstreamServer", "-", "not found")
		return
	}
	name, pos := funcName(fn), c.P.pos(fn.Pos())
	n := 0
	bad := []string{}
	seen := false
	c.P.Simulate(fn, SimConfig{Inline: func(callee *ssa.Function, d int) bool {
		return inPkg(callee, "upstream") && callee.Name() == "newProxyMid"
	}}, func(pr *PathResult) {
		n++
		for _, e := range pr.Events {
			if e.Kind != "store" || e.Addr.Op != "fa" || e.Addr.Name != "Proxy" {
				continue
			}
			seen = true
			v := e.Val.strip()
			if v.Op == "call" && v.Fn != nil && v.Fn.String() == "github.com/vicanso/elton/middleware.NewProxy" {
				continue
			}
			if (v.Op == "closure" || v.Op == "func") && v.Fn != nil && isPikeFunc(v.Fn) {
				// a wrapper: it may call the wrapped handler at most once per path
				c.P.Simulate(v.Fn, SimConfig{}, func(p2 *PathResult) {
					calls := 0
					for _, e2 := range p2.Events {
						if e2.Kind == "dyncall" {
							calls++
						}
					}
					if calls == 0 && p2.Exit == "return" {
						bad = append(bad, fmt.Sprintf("the upstream's Proxy handler is a wrapper (%s) that can answer without invoking the reverse proxy (and so without asking the pool): a state of its own decides instead of the servers' health", funcName(v.Fn)))
					}
					if calls > 1 {
						bad = append(bad, fmt.Sprintf("the upstream's Proxy handler is a wrapper (%s) that invokes the reverse proxy %d times on one path: one client request can reach the origin twice", funcName(v.Fn), calls))
					}
				})
				continue
			}
			bad = append(bad, "the upstream's Proxy handler is "+prettyTerm(v)+", not the reverse-proxy handler built by middleware.NewProxy")
		}
	})
	if !seen {
		c.undecided("proxy-handler-direct", name, pos, "no store to the Proxy field found")
		return
	}
	c.check(len(bad) == 0, "proxy-handler-direct", name, pos, "upstreamServer.Proxy is middleware.NewProxy(...) itself (or a wrapper calling it at most once)", strings.Join(uniq(bad), " || "), n)
}

// mayReturnNil: v is the (first) result of a pike function one of whose returns
// yields a nil constant in that position.
func mayReturnNil(v ssa.Value) bool {
	var call *ssa.Call
	idx := 0
	switch x := v.(type) {
	case *ssa.Extract:
		call, _ = x.Tuple.(*ssa.Call)
		idx = x.Index
	case *ssa.Call:
		call = x
	}
	if call == nil {
		return false
	}
	sc := call.Call.StaticCallee()
	if sc == nil || sc.Blocks == nil {
		return false
	}
	for _, b := range sc.Blocks {
		for _, in := range b.Instrs {
			if r, ok := in.(*ssa.Return); ok && idx < len(r.Results) {
				if cst, ok := r.Results[idx].(*ssa.Const); ok && cst.Value == nil {
					return true
				}
			}
		}
	}
	return false
}

// ruleTypedNilStore: store.NewStore never boxes a possibly-nil concrete pointer
// into the Store interface (a typed nil passes the dispatcher's `store != nil`
// test and panics on first use).
func ruleTypedNilStore(c *Ctx) {
	iface := c.P.NamedType("store", "Store")
	fn := c.P.Func("store", "NewStore")
	if iface == nil || fn == nil {
		c.undecided("typed-nil-store", "store.NewStore", "-", "not found")
		return
	}
	n := 0
	bad := []string{}
	for _, f := range c.P.allFuncs {
		if !inPkg(f, "store") && !inPkg(f, "cache") {
			continue
		}
		for _, b := range f.Blocks {
			for _, in := range b.Instrs {
				mi, ok := in.(*ssa.MakeInterface)
				if !ok || !types.Identical(mi.Type(), iface) {
					continue
				}
				n++
				switch x := mi.X.(type) {
				case *ssa.Alloc:
				case *ssa.Extract, *ssa.Call, *ssa.Phi, *ssa.UnOp:
					if !isFreshBase(x.(ssa.Value), c.P, 0) || mayReturnNil(x.(ssa.Value)) {
						bad = append(bad, fmt.Sprintf("%s: %s converts a %s that may be nil into the Store interface: the result is a non-nil interface holding a nil pointer", c.P.pos(mi.Pos()), funcName(f), mi.X.Type()))
					}
				}
			}
		}
	}
	c.check(len(bad) == 0, "typed-nil-store", "store.NewStore", c.P.pos(fn.Pos()), fmt.Sprintf("%d conversions to store.Store, all of freshly allocated back ends", n), strings.Join(uniq(bad), " || "), n+1)
}
