package main

// Rules about state shared without a lock: immutability after construction,
// immutability of published responses, ownership of byte slices that cross
// function boundaries, typed use of sync.Map values.

import (
	"fmt"
	"go/types"
	"strings"

	"golang.org/x/tools/go/ssa"
)

// ruleImmutableAfterConstruction: fields that are read without a lock on the
// request path are stored to only while their object is still private to its
// constructor.
func ruleImmutableAfterConstruction(c *Ctx) {
	// every struct type of the request-path packages that carries no lock of its own is
	// written only while the object is still private to the function that built it;
	// types with a lock are the lockset's business, the response type has its own rule
	hasLock := func(st *types.Struct) bool {
		for i := 0; i < st.NumFields(); i++ {
			t := st.Field(i).Type()
			if p, ok := t.Underlying().(*types.Pointer); ok {
				t = p.Elem()
			}
			if n, ok := t.(*types.Named); ok && n.Obj().Pkg() != nil && n.Obj().Pkg().Path() == "sync" && (n.Obj().Name() == "Mutex" || n.Obj().Name() == "RWMutex") {
				return true
			}
		}
		return false
	}
	inScope := func(fv *types.Var) (string, bool) {
		if fv.Pkg() == nil {
			return "", false
		}
		switch strings.TrimPrefix(fv.Pkg().Path(), pikeMod+"/") {
		case "cache", "upstream", "compress", "server", "location", "store":
			return strings.TrimPrefix(fv.Pkg().Path(), pikeMod+"/"), true
		}
		return "", false
	}
	// unpublished: the object is an element of a slice that is a parameter or was made here
	unpublished := func(v ssa.Value) bool {
		for d := 0; d < 4; d++ {
			switch x := v.(type) {
			case *ssa.IndexAddr:
				switch y := x.X.(type) {
				case *ssa.Parameter, *ssa.MakeSlice, *ssa.Slice, *ssa.Alloc:
					return true
				case *ssa.Phi, *ssa.Call:
					_ = y
					return true
				}
				return false
			case *ssa.FieldAddr:
				v = x.X
			default:
				return false
			}
		}
		return false
	}
	n := 0
	bad := []string{}
	for _, f := range c.P.allFuncs {
		for _, b := range f.Blocks {
			for _, in := range b.Instrs {
				st, ok := in.(*ssa.Store)
				if !ok {
					continue
				}
				fa, ok := st.Addr.(*ssa.FieldAddr)
				if !ok {
					continue
				}
				fv := fieldOf(fa.X.Type(), fa.Field)
				pkg, ok := inScope(fv)
				if !ok {
					continue
				}
				pt, _ := fa.X.Type().Underlying().(*types.Pointer)
				if pt == nil {
					continue
				}
				named, _ := pt.Elem().(*types.Named)
				stt, _ := pt.Elem().Underlying().(*types.Struct)
				if named == nil || stt == nil || hasLock(stt) {
					continue
				}
				if pkg == "cache" && named.Obj().Name() == "HTTPResponse" {
					continue // published-response-immutable
				}
				n++
				if isFreshBase(fa.X, c.P, 0) || unpublished(fa.X) || paramAlwaysFresh(c.P, fa.X, 0) {
					continue
				}
				bad = append(bad, fmt.Sprintf("%s: %s writes %s.%s on an object that may already be shared (the type has no lock: it is read without synchronisation)", c.P.pos(st.Pos()), funcName(f), named.Obj().Name(), fv.Name()))
			}
		}
	}
	// the levels map of a compress service is never written after construction (its values are atomics)
	if lv := c.P.StructField("compress", "compressSrv", "levels"); lv != nil {
		for _, f := range c.P.allFuncs {
			for _, b := range f.Blocks {
				for _, in := range b.Instrs {
					if mu, ok := in.(*ssa.MapUpdate); ok {
						if ld, ok := mu.Map.(*ssa.UnOp); ok {
							if fa, ok := ld.X.(*ssa.FieldAddr); ok && fieldOf(fa.X.Type(), fa.Field) == lv {
								bad = append(bad, fmt.Sprintf("%s: %s inserts into compressSrv.levels, which is read concurrently without a lock", c.P.pos(mu.Pos()), funcName(f)))
							}
						}
					}
				}
			}
		}
	}
	if n < 15 {
		c.undecided("immutable-after-construction", "pike", "-", fmt.Sprintf("only %d constructor stores found", n))
		return
	}
	c.check(len(bad) == 0, "immutable-after-construction", "pike", "-", fmt.Sprintf("%d stores to lock-free shared fields, all on objects still private to their constructor", n), strings.Join(uniq(bad), " || "), n)
}

// rulePublishedResponse: the fields of a cache.HTTPResponse are written only by
// the functions that act on a response nobody else can see yet.
func rulePublishedResponse(c *Ctx, a *serverAnchors) {
	resp := c.P.NamedType("cache", "HTTPResponse")
	if resp == nil {
		c.undecided("published-response-immutable", "HTTPResponse", "-", "type not found")
		return
	}
	allowed := map[*ssa.Function]string{}
	if f := c.P.Func("cache", "NewHTTPResponse"); f != nil {
		allowed[f] = "constructor"
	}
	for _, m := range []string{"FromBytes", "Compress"} {
		if f := respMethod(c.P, m); f != nil {
			allowed[f] = "acts on an unpublished response (decoder on a scratch object; Compress only from the Hit completion before publication)"
		}
	}
	allowed[a.proxyMW] = "fills the response it just built"
	allowed[a.cacheable] = "sets the profile before publication"
	// helpers of those: every call site lies in an allowed function and passes on that function's own response
	// (its receiver / parameter) or a fresh one, so the helper's writes are that function's writes
	for changed := true; changed; {
		changed = false
		for _, f := range c.P.allFuncs {
			if _, ok := allowed[f]; ok || !isHelper(f) || len(f.Params) == 0 {
				continue
			}
			sites, okAll := 0, true
			for _, g := range c.P.allFuncs {
				for _, b := range g.Blocks {
					for _, in := range b.Instrs {
						ci, isCall := in.(ssa.CallInstruction)
						if !isCall || ci.Common().StaticCallee() != f {
							continue
						}
						sites++
						if _, isGo := in.(*ssa.Go); isGo {
							okAll = false
						}
						if _, ok := allowed[g]; !ok {
							okAll = false
							continue
						}
						for i, arg := range ci.Common().Args {
							if i >= len(f.Params) || !touchesResponse(f.Params[i], resp, 3) {
								continue
							}
							if _, isParam := arg.(*ssa.Parameter); isParam {
								continue
							}
							if isFreshBase(arg, c.P, 0) {
								continue
							}
							okAll = false
						}
					}
				}
			}
			if sites > 0 && okAll {
				allowed[f] = "helper called only from an allowed function on that function's own response"
				changed = true
			}
		}
	}
	n := 0
	bad := []string{}
	for _, f := range c.P.allFuncs {
		for _, b := range f.Blocks {
			for _, in := range b.Instrs {
				var target ssa.Value
				switch x := in.(type) {
				case *ssa.Store:
					target = x.Addr
				case *ssa.MapUpdate:
					target = x.Map
				default:
					continue
				}
				if !touchesResponse(target, resp, 0) {
					continue
				}
				n++
				if _, ok := allowed[f]; ok {
					continue
				}
				if fa, ok := target.(*ssa.FieldAddr); ok && isFreshBase(fa.X, c.P, 0) {
					continue
				}
				bad = append(bad, fmt.Sprintf("%s: %s writes into a cache.HTTPResponse (or a slice/map it holds) that may already be published to other requests", c.P.pos(in.Pos()), funcName(f)))
			}
		}
	}
	if n < 10 {
		c.undecided("published-response-immutable", "HTTPResponse", "-", fmt.Sprintf("only %d response writes found", n))
		return
	}
	c.check(len(bad) == 0, "published-response-immutable", "HTTPResponse", "cache/http_response.go", fmt.Sprintf("%d writes to response fields, all in NewHTTPResponse / FromBytes / Compress / the proxy middleware on its fresh response / the Hit completion before publication", n), strings.Join(uniq(bad), " || "), n)
}

func touchesResponse(v ssa.Value, resp *types.Named, d int) bool {
	if d > 4 {
		return false
	}
	isResp := func(t types.Type) bool {
		if p, ok := t.Underlying().(*types.Pointer); ok {
			t = p.Elem()
		}
		return types.Identical(t, resp)
	}
	switch x := v.(type) {
	case *ssa.FieldAddr:
		return isResp(x.X.Type())
	case *ssa.IndexAddr:
		return touchesResponse(x.X, resp, d+1)
	case *ssa.UnOp:
		if fa, ok := x.X.(*ssa.FieldAddr); ok {
			return isResp(fa.X.Type())
		}
	case *ssa.Slice:
		return touchesResponse(x.X, resp, d+1)
	}
	return false
}

// rulePooledBytes: memory obtained from a sync.Pool never leaves the function
// as a []byte / string / *bytes.Buffer result in the cache data path, and is
// never stored into a struct field.
func rulePooledBytes(c *Ctx) {
	n, bad := pooledBytesCore(c.P)
	// positive control: the rule must fire on the fixture
	if fx := c.fixture(); fx == nil {
		c.undecided("pooled-memory-confined", "pike", "-", "positive-control fixture could not be loaded")
		return
	} else if _, fb := pooledBytesCore(fx); len(fb) == 0 {
		c.undecided("pooled-memory-confined", "pike", "-", "the rule does not fire on its positive control (checker/fixture/fixturebad.PooledBytes)")
		return
	}
	c.check(len(bad) == 0, "pooled-memory-confined", "pike", "-", fmt.Sprintf("%d sync.Pool.Get sites: pooled memory never escapes through a return value or a field (positive control fires)", n), strings.Join(uniq(bad), " || "), n+1)
}

func pooledBytesCore(p *Program) (int, []string) {
	c := &Ctx{P: p}
	n := 0
	bad := []string{}
	for _, f := range c.P.allFuncs {
		tainted := map[ssa.Value]bool{}
		work := []ssa.Value{}
		for _, b := range f.Blocks {
			for _, in := range b.Instrs {
				if call, ok := in.(*ssa.Call); ok {
					if sc := call.Call.StaticCallee(); sc != nil && sc.String() == "(*sync.Pool).Get" {
						tainted[call] = true
						work = append(work, call)
						n++
					}
				}
			}
		}
		for len(work) > 0 {
			v := work[len(work)-1]
			work = work[:len(work)-1]
			if v.Referrers() == nil {
				continue
			}
			for _, r := range *v.Referrers() {
				switch x := r.(type) {
				case *ssa.TypeAssert, *ssa.ChangeType, *ssa.Slice, *ssa.Phi, *ssa.Extract, *ssa.MakeInterface, *ssa.FieldAddr, *ssa.IndexAddr, *ssa.Convert:
					val := x.(ssa.Value)
					if !tainted[val] {
						tainted[val] = true
						work = append(work, val)
					}
				case *ssa.UnOp:
					if !tainted[x] {
						tainted[x] = true
						work = append(work, x)
					}
				case *ssa.Call:
					// a library function given pooled memory may hand back a view of it (snappy.Decode(dst, src), append-style APIs)
					if sc := x.Call.StaticCallee(); sc != nil && !isPikeFunc(sc) && sc.Signature.Recv() == nil {
						res := sc.Signature.Results()
						if res.Len() >= 1 {
							if _, isSlice := res.At(0).Type().Underlying().(*types.Slice); isSlice {
								if res.Len() == 1 && !tainted[x] {
									tainted[x] = true
									work = append(work, x)
								} else if res.Len() > 1 {
									for _, rr := range *x.Referrers() {
										if ex, ok := rr.(*ssa.Extract); ok && ex.Index == 0 && !tainted[ex] {
											tainted[ex] = true
											work = append(work, ex)
										}
									}
								}
							}
						}
					}
					// methods on the pooled object returning views of its memory
					if sc := x.Call.StaticCallee(); sc != nil && len(x.Call.Args) > 0 && x.Call.Args[0] == v {
						switch sc.String() {
						case "(*bytes.Buffer).Bytes", "(*bytes.Buffer).Next", "(*bytes.Buffer).String":
							if sc.Name() != "String" && !tainted[x] {
								tainted[x] = true
								work = append(work, x)
							}
						}
					}
				case *ssa.Return:
					bad = append(bad, fmt.Sprintf("%s: %s returns memory obtained from a sync.Pool; the caller keeps it (as a cache key, body or record) while the pool hands it to the next user", c.P.pos(x.Pos()), funcName(f)))
				case *ssa.Store:
					if x.Val == v {
						if _, local := x.Addr.(*ssa.Alloc); !local {
							bad = append(bad, fmt.Sprintf("%s: %s stores pooled memory into a longer-lived object", c.P.pos(x.Pos()), funcName(f)))
						} else if al, ok := x.Addr.(*ssa.Alloc); ok {
							for _, rr := range *al.Referrers() {
								if ld, ok := rr.(*ssa.UnOp); ok && !tainted[ld] {
									tainted[ld] = true
									work = append(work, ld)
								}
							}
						}
					}
				}
			}
		}
	}
	return n, bad
}

// ruleRegistriesTyped: every value taken out of a sync.Map is used through a
// checked (comma-ok) type assertion.
func ruleRegistriesTyped(c *Ctx) {
	n, bad := registriesTypedCore(c.P)
	if fx := c.fixture(); fx == nil {
		c.undecided("registries-typed", "pike", "-", "positive-control fixture could not be loaded")
		return
	} else if _, fb := registriesTypedCore(fx); len(fb) == 0 {
		c.undecided("registries-typed", "pike", "-", "the rule does not fire on its positive control (checker/fixture/fixturebad.Unchecked)")
		return
	}
	c.check(len(bad) == 0, "registries-typed", "pike", "-", "values taken from sync.Map registries are used through comma-ok assertions (except store.Close on the exit path); positive control fires", strings.Join(uniq(bad), " || "), n+1)
}

func registriesTypedCore(p *Program) (int, []string) {
	c := &Ctx{P: p}
	n := 0
	bad := []string{}
	for _, f := range c.P.allFuncs {
		for _, b := range f.Blocks {
			for _, in := range b.Instrs {
				ta, ok := in.(*ssa.TypeAssert)
				if !ok || ta.CommaOk {
					continue
				}
				// unchecked assertion on a sync.Map value (Load result or Range callback parameter)
				src := ta.X
				fromMap := false
				if ex, ok := src.(*ssa.Extract); ok {
					if call, ok := ex.Tuple.(*ssa.Call); ok {
						if sc := call.Call.StaticCallee(); sc != nil && strings.HasPrefix(sc.String(), "(*sync.Map).") {
							fromMap = true
						}
					}
				}
				if prm, ok := src.(*ssa.Parameter); ok && f.Parent() != nil && types.TypeString(prm.Type(), nil) == "interface{}" {
					// callback parameter: is this closure passed to sync.Map.Range?
					for _, pb := range f.Parent().Blocks {
						for _, pin := range pb.Instrs {
							if ci, ok := pin.(ssa.CallInstruction); ok {
								if sc := ci.Common().StaticCallee(); sc != nil && sc.String() == "(*sync.Map).Range" {
									if mc, ok := ci.Common().Args[1].(*ssa.MakeClosure); ok && mc.Fn == f {
										fromMap = true
									}
								}
							}
						}
					}
				}
				if !fromMap {
					continue
				}
				n++
				if inPkg(f, "store") && f.Name() == "Close$1" {
					continue // process exit path
				}
				bad = append(bad, fmt.Sprintf("%s: %s asserts the type of a sync.Map value without checking (a foreign value panics the request)", c.P.pos(ta.Pos()), funcName(f)))
			}
		}
	}
	return n, bad
}

// paramAlwaysFresh: v is a parameter of an unexported function that every call
// site hands an object still private to the caller (a constructor's helper).
func paramAlwaysFresh(p *Program, v ssa.Value, d int) bool {
	prm, ok := v.(*ssa.Parameter)
	if !ok || d > 2 {
		return false
	}
	fn := prm.Parent()
	if fn.Object() == nil || fn.Object().Exported() || fn.Parent() != nil {
		return false
	}
	idx := -1
	for i, q := range fn.Params {
		if q == prm {
			idx = i
		}
	}
	sites := 0
	for _, g := range p.allFuncs {
		for _, b := range g.Blocks {
			for _, in := range b.Instrs {
				for _, op := range in.Operands(nil) {
					if *op != ssa.Value(fn) {
						continue
					}
					ci, ok := in.(ssa.CallInstruction)
					if !ok || ci.Common().Value != fn || idx >= len(ci.Common().Args) {
						return false
					}
					if _, isGo := in.(*ssa.Go); isGo {
						return false
					}
					sites++
					a := ci.Common().Args[idx]
					if !isFreshBase(a, p, 0) && !paramAlwaysFresh(p, a, d+1) {
						return false
					}
				}
			}
		}
	}
	return sites > 0
}
