package main

// Rules added after held-out round 15.

import (
	"fmt"
	"go/constant"
	"go/types"
	"os"
	"path/filepath"
	"reflect"
	"regexp"
	"regexp/syntax"
	"sort"
	"strings"

	"golang.org/x/tools/go/ssa"
)

// isPike: the function belongs to one of pike's own packages.
func isPike(f *ssa.Function) bool {
	if f == nil {
		return false
	}
	pk := f.Pkg
	for g := f; pk == nil && g.Parent() != nil; g = g.Parent() {
		pk = g.Parent().Pkg
	}
	return pk != nil && (pk.Pkg.Path() == pikeMod || strings.HasPrefix(pk.Pkg.Path(), pikeMod+"/"))
}

// pikeScope: functions of pike reachable from the roots through static calls
// and function literals, up to a depth.
func pikeScope(roots []*ssa.Function, maxDepth int) map[*ssa.Function]bool {
	scope := map[*ssa.Function]bool{}
	var walk func(f *ssa.Function, d int)
	walk = func(f *ssa.Function, d int) {
		if scope[f] || d > maxDepth {
			return
		}
		scope[f] = true
		for _, b := range f.Blocks {
			for _, in := range b.Instrs {
				if ci, ok := in.(ssa.CallInstruction); ok {
					if callee := ci.Common().StaticCallee(); callee != nil && callee.Blocks != nil && isPike(callee) {
						walk(callee, d+1)
					}
				}
			}
		}
		for _, an := range f.AnonFuncs {
			walk(an, d+1)
		}
	}
	for _, r := range roots {
		walk(r, 0)
	}
	return scope
}

// ruleWhoMayPurge: the code that serves client requests never removes an entry
// from a cache: purging belongs to the admin handler alone.
func ruleWhoMayPurge(c *Ctx) {
	roots := []*ssa.Function{}
	for _, n := range []string{"NewCache", "NewProxy", "NewResponder"} {
		if f := c.P.Func("server", n); f != nil {
			roots = append(roots, f)
		}
	}
	if len(roots) < 3 {
		c.undecided("request-path-no-purge", "server", "-", "the request-path middleware constructors were not found")
		return
	}
	purges := map[string]bool{}
	for _, f := range []*ssa.Function{c.P.Method("cache", "dispatcher", "RemoveHTTPCache"), c.P.Method("cache", "dispatchers", "RemoveHTTPCache"), c.P.Func("cache", "RemoveHTTPCache"), c.P.Method("cache", "httpLRUCache", "removeCache")} {
		if f != nil {
			purges[f.String()] = true
		}
	}
	if len(purges) < 3 {
		c.undecided("request-path-no-purge", "cache", "-", "the purge functions were not found")
		return
	}
	scope := pikeScope(roots, 5)
	bad := []string{}
	calls := 0
	for f := range scope {
		for _, b := range f.Blocks {
			for _, in := range b.Instrs {
				ci, ok := in.(ssa.CallInstruction)
				if !ok {
					continue
				}
				calls++
				if sc := ci.Common().StaticCallee(); sc != nil && purges[sc.String()] {
					bad = append(bad, fmt.Sprintf("%s: %s, which runs while serving a client request, calls %s: a request for one key drops another key's entry together with the fetch in flight and its waiters, and the next request for that key starts a second fetch", c.P.pos(in.Pos()), funcName(f), sc.Name()))
				}
			}
		}
	}
	sort.Strings(bad)
	c.check(len(bad) == 0, "request-path-no-purge", "server middleware", c.P.pos(roots[0].Pos()), fmt.Sprintf("%d functions reachable from the cache, proxy and responder middleware (%d call sites): none of them calls a purge function; entries leave a cache only by eviction or through the admin handler", len(scope), calls), strings.Join(uniq(bad), " || "), len(scope))
}

// ruleEntryOwnLock: every entry is built with a lock of its own and an entry is
// never copied as a value (a copy shares the lock pointer of its source).
func ruleEntryOwnLock(c *Ctx) {
	mu := c.P.StructField("cache", "httpCache", "mu")
	if mu == nil {
		c.undecided("entry-own-lock", "httpCache", "-", "field mu not found")
		return
	}
	isEntry := func(t types.Type) bool {
		n, ok := t.(*types.Named)
		return ok && n.Obj().Pkg() != nil && n.Obj().Pkg().Path() == pkgPath("cache") && n.Obj().Name() == "httpCache"
	}
	bad := []string{}
	stores := 0
	for _, f := range c.P.allFuncs {
		for _, b := range f.Blocks {
			for _, in := range b.Instrs {
				switch x := in.(type) {
				case *ssa.UnOp:
					if isEntry(x.Type()) {
						bad = append(bad, fmt.Sprintf("%s: %s copies an entry as a value: the copy shares the lock (and the waiter list) of its source, so every entry made from it queues behind the others", c.P.pos(x.Pos()), funcName(f)))
					}
				case *ssa.Store:
					if isEntry(x.Val.Type()) {
						if _, isConst := x.Val.(*ssa.Const); !isConst {
							bad = append(bad, fmt.Sprintf("%s: %s stores an entry value copied from another entry", c.P.pos(x.Pos()), funcName(f)))
						}
					}
					fa, ok := x.Addr.(*ssa.FieldAddr)
					if !ok || fieldOf(fa.X.Type(), fa.Field) != mu {
						continue
					}
					stores++
					if !freshAlloc(stripConv(x.Val), 0) {
						bad = append(bad, fmt.Sprintf("%s: %s sets an entry's lock to something other than a lock allocated for it on the spot", c.P.pos(x.Pos()), funcName(f)))
					}
				}
			}
		}
	}
	if stores == 0 {
		c.undecided("entry-own-lock", "httpCache.mu", "-", "no function sets an entry's lock")
		return
	}
	sort.Strings(bad)
	c.check(len(bad) == 0, "entry-own-lock", "httpCache.mu", c.P.pos(mu.Pos()), fmt.Sprintf("%d places set an entry's lock, each to a lock allocated there; no entry is copied as a value anywhere in pike", stores), strings.Join(uniq(bad), " || "), stores)
}

// ruleBadgerOpenOptions: the badger directory is opened with the library's
// exclusivity and durability defaults.
func ruleBadgerOpenOptions(c *Ctx) {
	forbidden := map[string]string{
		"WithBypassLockGuard": "the directory lock is what keeps two writers from sharing one directory (a second open truncates the first one's log and manifest)",
		"BypassLockGuard":     "the directory lock is what keeps two writers from sharing one directory",
		"WithInMemory":        "nothing is written to disk",
		"InMemory":            "nothing is written to disk",
		"WithReadOnly":        "records cannot be written",
		"ReadOnly":            "records cannot be written",
	}
	fns := []*ssa.Function{}
	for _, f := range c.P.allFuncs {
		for _, b := range f.Blocks {
			for _, in := range b.Instrs {
				if ci, ok := in.(ssa.CallInstruction); ok {
					if sc := ci.Common().StaticCallee(); sc != nil && sc.Name() == "Open" && sc.Pkg != nil && strings.Contains(sc.Pkg.Pkg.Path(), "dgraph-io/badger") {
						fns = append(fns, f)
					}
				}
			}
		}
	}
	if len(fns) == 0 {
		c.undecided("badger-open-options", "store", "-", "no call of badger.Open found")
		return
	}
	bad := []string{}
	n := 0
	seen := map[*ssa.Function]bool{}
	for _, f := range fns {
		if seen[f] {
			continue
		}
		seen[f] = true
		for g := range pikeScope([]*ssa.Function{f}, 2) {
			for _, b := range g.Blocks {
				for _, in := range b.Instrs {
					n++
					if ci, ok := in.(ssa.CallInstruction); ok {
						if sc := ci.Common().StaticCallee(); sc != nil && sc.Pkg != nil && strings.Contains(sc.Pkg.Pkg.Path(), "dgraph-io/badger") {
							if why, ok := forbidden[sc.Name()]; ok {
								off := false
								for _, a := range ci.Common().Args {
									if k, ok := a.(*ssa.Const); ok && k.Value != nil && k.Value.Kind() == constant.Bool && !constant.BoolVal(k.Value) {
										off = true
									}
								}
								if !off {
									bad = append(bad, fmt.Sprintf("%s: %s opens badger with %s: %s", c.P.pos(in.Pos()), funcName(g), sc.Name(), why))
								}
							}
						}
					}
					if st, ok := in.(*ssa.Store); ok {
						if fa, ok := st.Addr.(*ssa.FieldAddr); ok {
							fv := fieldOf(fa.X.Type(), fa.Field)
							if fv != nil && fv.Pkg() != nil && strings.Contains(fv.Pkg().Path(), "dgraph-io/badger") {
								if why, ok := forbidden[fv.Name()]; ok {
									if k, isConst := st.Val.(*ssa.Const); !isConst || k.Value == nil || constant.BoolVal(k.Value) {
										bad = append(bad, fmt.Sprintf("%s: %s sets badger option %s: %s", c.P.pos(in.Pos()), funcName(g), fv.Name(), why))
									}
								}
							}
						}
					}
				}
			}
		}
	}
	sort.Strings(bad)
	c.check(len(bad) == 0, "badger-open-options", "badger.Open", c.P.pos(fns[0].Pos()), fmt.Sprintf("%d functions open badger; none switches off the directory lock, disk persistence or writing", len(seen)), strings.Join(uniq(bad), " || "), len(seen))
}

// ruleNewStoreLock: NewStore holds its lock from the registry lookup to the
// registration without a gap and gives it back on every return.
func ruleNewStoreLock(c *Ctx) {
	fn := c.P.Func("store", "NewStore")
	if fn == nil {
		c.undecided("new-store-lock", "store.NewStore", "-", "not found")
		return
	}
	name, pos := funcName(fn), c.P.pos(fn.Pos())
	var mu *ssa.Global
	lockOp := func(in ssa.Instruction) (op string, deferred bool) {
		var cc *ssa.CallCommon
		switch x := in.(type) {
		case *ssa.Call:
			cc = &x.Call
		case *ssa.Defer:
			cc, deferred = &x.Call, true
		default:
			return "", false
		}
		sc := cc.StaticCallee()
		if sc == nil || len(cc.Args) == 0 {
			return "", false
		}
		g, ok := cc.Args[0].(*ssa.Global)
		if !ok {
			return "", false
		}
		switch sc.String() {
		case "(*sync.Mutex).Lock":
			if mu == nil {
				mu = g
			}
			if g == mu {
				return "lock", deferred
			}
		case "(*sync.Mutex).Unlock":
			if g == mu {
				return "unlock", deferred
			}
		}
		return "", false
	}
	// first pass: which mutex
	for _, b := range fn.Blocks {
		for _, in := range b.Instrs {
			lockOp(in)
		}
	}
	if mu == nil {
		c.bad("new-store-lock", name, pos, "NewStore takes no package-level lock: two callers that miss the registry both open the back end (badger refuses the second open, and that cache silently runs without its store)", 1)
		return
	}
	// states: bit0 never locked, bit1 held, bit2 released; shifted by 3 when an unlock is deferred
	const (
		sNever, sHeld, sReleased = 1, 2, 4
	)
	direct := func(sc *ssa.Function) string {
		if inPkg(sc, "store") && (sc.Name() == "GetStore" || (strings.HasPrefix(sc.Name(), "new") && strings.HasSuffix(sc.Name(), "Store"))) {
			return sc.Name()
		}
		if sc.String() == "(*sync.Map).Store" || sc.String() == "(*sync.Map).Load" || sc.String() == "(*sync.Map).LoadOrStore" {
			return "registry " + sc.Name()
		}
		return ""
	}
	guarded := func(in ssa.Instruction) string {
		ci, ok := in.(ssa.CallInstruction)
		if !ok {
			return ""
		}
		if _, isDefer := in.(*ssa.Defer); isDefer {
			return ""
		}
		sc := ci.Common().StaticCallee()
		if sc == nil {
			return ""
		}
		if what := direct(sc); what != "" {
			return what
		}
		// a helper of the package that does one of these on NewStore's behalf
		if inPkg(sc, "store") && sc.Blocks != nil {
			for g := range pikeScope([]*ssa.Function{sc}, 2) {
				for _, b := range g.Blocks {
					for _, i2 := range b.Instrs {
						if c2, ok := i2.(ssa.CallInstruction); ok {
							if s2 := c2.Common().StaticCallee(); s2 != nil {
								if what := direct(s2); what != "" {
									return what + " (in " + sc.Name() + ")"
								}
							}
						}
					}
				}
			}
		}
		return ""
	}
	in0 := map[*ssa.BasicBlock]int{fn.Blocks[0]: sNever}
	bad := map[string]bool{}
	sites := 0
	transfer := func(b *ssa.BasicBlock, st int, report bool) int {
		for _, in := range b.Instrs {
			op, deferred := lockOp(in)
			cur, def := st&7, st>>3
			switch {
			case op == "lock" && !deferred:
				if report && cur&sReleased != 0 {
					bad[fmt.Sprintf("%s: the lock is taken again after it was released: between the two, another caller can miss the registry for the same URL and open the back end a second time", c.P.pos(in.Pos()))] = true
				}
				st = sHeld | def<<3
			case op == "unlock" && !deferred:
				if report && cur&sHeld == 0 {
					bad[fmt.Sprintf("%s: unlock of a lock that is not held", c.P.pos(in.Pos()))] = true
				}
				st = sReleased | def<<3
			case op == "unlock" && deferred:
				st = cur | cur<<3
			}
			if g := guarded(in); g != "" && report {
				sites++
				if st&7 != sHeld {
					bad[fmt.Sprintf("%s: %s runs while the lock may not be held: lookup, open and registration of a store are one step only under the lock", c.P.pos(in.Pos()), g)] = true
				}
			}
			if _, isRet := in.(*ssa.Return); isRet && report {
				cur, def := st&7, st>>3
				if cur&sHeld != 0 && def&sHeld == 0 {
					bad[fmt.Sprintf("%s: returns with the lock still held: the next NewStore for a URL that is not registered yet blocks for ever, and with it the configuration update that called it", c.P.pos(in.Pos()))] = true
				}
			}
		}
		return st
	}
	for changed, rounds := true, 0; changed && rounds < 50; rounds++ {
		changed = false
		for _, b := range fn.Blocks {
			st, ok := in0[b]
			if !ok {
				continue
			}
			out := transfer(b, st, false)
			for _, s := range b.Succs {
				if in0[s]|out != in0[s] {
					in0[s] |= out
					changed = true
				}
			}
		}
	}
	for _, b := range fn.Blocks {
		if st, ok := in0[b]; ok {
			transfer(b, st, true)
		}
	}
	if sites < 2 {
		c.undecided("new-store-lock", name, pos, fmt.Sprintf("only %d lookup/open/register sites recognised in NewStore", sites))
		return
	}
	msgs := []string{}
	for m := range bad {
		msgs = append(msgs, m)
	}
	sort.Strings(msgs)
	c.check(len(msgs) == 0, "new-store-lock", name, pos, fmt.Sprintf("%d lookup, open and register sites all run with the package lock held, the lock is not released in between, and every return gives it back", sites), strings.Join(msgs, " || "), sites)
}

// ruleStoreOpenErrorLocal: the error of opening a store goes to the log only:
// it never reaches the start-up/update function's result, a panic, or a branch
// of package main.
func ruleStoreOpenErrorLocal(c *Ctx) {
	newStore := c.P.Func("store", "NewStore")
	if newStore == nil {
		c.undecided("store-open-error-local", "store.NewStore", "-", "not found")
		return
	}
	fieldLoads := map[*types.Var][]ssa.Value{}
	globalLoads := map[*ssa.Global][]ssa.Value{}
	callSites := map[*ssa.Function][]ssa.CallInstruction{}
	closures := map[*ssa.Function][]*ssa.MakeClosure{}
	for _, f := range c.P.allFuncs {
		for _, b := range f.Blocks {
			for _, in := range b.Instrs {
				switch x := in.(type) {
				case *ssa.UnOp:
					switch y := x.X.(type) {
					case *ssa.FieldAddr:
						if fv := fieldOf(y.X.Type(), y.Field); fv != nil {
							fieldLoads[fv] = append(fieldLoads[fv], x)
						}
					case *ssa.Global:
						globalLoads[y] = append(globalLoads[y], x)
					}
				case *ssa.Field:
					if fv := fieldOf(x.X.Type(), x.Field); fv != nil {
						fieldLoads[fv] = append(fieldLoads[fv], x)
					}
				case *ssa.MakeClosure:
					if g, ok := x.Fn.(*ssa.Function); ok {
						closures[g] = append(closures[g], x)
					}
				}
				if ci, ok := in.(ssa.CallInstruction); ok {
					if sc := ci.Common().StaticCallee(); sc != nil {
						callSites[sc] = append(callSites[sc], ci)
					}
				}
			}
		}
	}
	tainted := map[ssa.Value]bool{}
	tupleIdx := map[ssa.Value]map[int]bool{}
	work := []ssa.Value{}
	taint := func(v ssa.Value) {
		if v != nil && !tainted[v] {
			tainted[v] = true
			work = append(work, v)
		}
	}
	taintResult := func(call ssa.CallInstruction, i, n int) {
		v := call.Value()
		if v == nil {
			return
		}
		if n == 1 {
			taint(v)
			return
		}
		if tupleIdx[v] == nil {
			tupleIdx[v] = map[int]bool{}
		}
		tupleIdx[v][i] = true
		for _, r := range *v.Referrers() {
			if ex, ok := r.(*ssa.Extract); ok && ex.Index == i {
				taint(ex)
			}
		}
	}
	seeds := 0
	for _, cs := range callSites[newStore] {
		if f := cs.Parent(); f != nil && !inPkg(f, "store") {
			seeds++
			taintResult(cs, 1, 2)
		}
	}
	if seeds == 0 {
		c.undecided("store-open-error-local", "store.NewStore", "-", "no caller of NewStore outside package store")
		return
	}
	errT := types.Universe.Lookup("error").Type()
	isErrLike := func(t types.Type) bool {
		return types.Identical(t, errT) || types.Implements(t, errT.Underlying().(*types.Interface))
	}
	bad := []string{}
	steps := 0
	for len(work) > 0 && steps < 20000 {
		v := work[len(work)-1]
		work = work[:len(work)-1]
		steps++
		refs := v.Referrers()
		if refs == nil {
			continue
		}
		for _, r := range *refs {
			switch x := r.(type) {
			case *ssa.Phi, *ssa.MakeInterface, *ssa.ChangeInterface, *ssa.ChangeType, *ssa.Convert, *ssa.TypeAssert:
				taint(x.(ssa.Value))
			case *ssa.Extract:
				if _, isTA := x.Tuple.(*ssa.TypeAssert); isTA && x.Index == 0 {
					taint(x)
				}
			case *ssa.BinOp:
				if x.Op.String() == "==" || x.Op.String() == "!=" {
					taint(x)
				}
			case *ssa.UnOp:
				if x.Op.String() == "!" {
					taint(x)
				}
			case *ssa.Store:
				if x.Val != v {
					continue
				}
				switch a := x.Addr.(type) {
				case *ssa.FieldAddr:
					if fv := fieldOf(a.X.Type(), a.Field); fv != nil {
						for _, l := range fieldLoads[fv] {
							taint(l)
						}
					}
				case *ssa.Global:
					for _, l := range globalLoads[a] {
						taint(l)
					}
				case *ssa.Alloc:
					for _, rr := range *a.Referrers() {
						if u, ok := rr.(*ssa.UnOp); ok && u.X == a {
							taint(u)
						}
						if mc, ok := rr.(*ssa.MakeClosure); ok {
							for j, bnd := range mc.Bindings {
								if bnd == a {
									if g, ok := mc.Fn.(*ssa.Function); ok && j < len(g.FreeVars) {
										for _, fr := range *g.FreeVars[j].Referrers() {
											if u, ok := fr.(*ssa.UnOp); ok {
												taint(u)
											}
										}
									}
								}
							}
						}
					}
				case *ssa.FreeVar:
					// a captured cell written inside a literal: readers in the parent
					if f := a.Parent(); f != nil {
						for j, fvv := range f.FreeVars {
							if fvv != a {
								continue
							}
							for _, mc := range closures[f] {
								if j < len(mc.Bindings) {
									if al, ok := mc.Bindings[j].(*ssa.Alloc); ok {
										for _, rr := range *al.Referrers() {
											if u, ok := rr.(*ssa.UnOp); ok && u.X == al {
												taint(u)
											}
										}
									}
								}
							}
						}
					}
				}
			case *ssa.Return:
				f := x.Parent()
				for i, res := range x.Results {
					if res != v {
						continue
					}
					if inPkg(f, "") {
						bad = append(bad, fmt.Sprintf("%s: %s returns the error of opening a store: start-up panics on it and a reload stops before upstreams, locations and servers are applied, although the cache itself fell back to memory", c.P.pos(x.Pos()), funcName(f)))
					}
					for _, cs := range callSites[f] {
						taintResult(cs, i, len(x.Results))
					}
				}
			case *ssa.Panic:
				bad = append(bad, fmt.Sprintf("%s: %s panics with the error of opening a store", c.P.pos(x.Pos()), funcName(x.Parent())))
			case *ssa.If:
				if f := x.Parent(); inPkg(f, "") && !rejoinsAtOnce(x) {
					bad = append(bad, fmt.Sprintf("%s: %s branches on the error of opening a store: what follows in the update (upstreams, locations, servers) depends on a store being reachable", c.P.pos(x.Cond.Pos()), funcName(f)))
				}
			case ssa.CallInstruction:
				cc := x.Common()
				sc := cc.StaticCallee()
				if sc != nil && isPike(sc) && sc.Blocks != nil {
					off := 0
					if cc.IsInvoke() {
						continue
					}
					for j, a := range cc.Args {
						if a == v && j-off < len(sc.Params) {
							taint(sc.Params[j-off])
						}
					}
					continue
				}
				// a library call that wraps the error
				if val := x.Value(); val != nil && isErrLike(val.Type()) {
					taint(val)
				}
			}
		}
	}
	sort.Strings(bad)
	c.check(len(bad) == 0, "store-open-error-local", "store.NewStore", c.P.pos(newStore.Pos()), fmt.Sprintf("%d callers of NewStore outside package store; the error reaches %d values, none of them a result of the update function, a panic or a branch of package main", seeds, len(tainted)), strings.Join(uniq(bad), " || "), seeds+len(tainted))
}

// enumerateWords: the finite set of strings a pattern made of literals,
// alternations, groups and concatenations matches as a substring; ok is false
// for anything else (assertions, repetition, classes).
func enumerateWords(re *syntax.Regexp) ([]string, bool) {
	switch re.Op {
	case syntax.OpLiteral:
		return []string{strings.ToLower(string(re.Rune))}, true
	case syntax.OpEmptyMatch:
		return []string{""}, true
	case syntax.OpCapture:
		return enumerateWords(re.Sub[0])
	case syntax.OpCharClass:
		out := []string{}
		n := 0
		for i := 0; i+1 < len(re.Rune); i += 2 {
			for r := re.Rune[i]; r <= re.Rune[i+1]; r++ {
				n++
				if n > 8 {
					return nil, false
				}
				out = append(out, strings.ToLower(string(r)))
			}
		}
		return out, true
	case syntax.OpAlternate:
		out := []string{}
		for _, s := range re.Sub {
			w, ok := enumerateWords(s)
			if !ok {
				return nil, false
			}
			out = append(out, w...)
		}
		return out, true
	case syntax.OpConcat:
		out := []string{""}
		for _, s := range re.Sub {
			w, ok := enumerateWords(s)
			if !ok {
				return nil, false
			}
			next := []string{}
			for _, a := range out {
				for _, b := range w {
					next = append(next, a+b)
				}
			}
			if len(next) > 256 {
				return nil, false
			}
			out = next
		}
		return out, true
	}
	return nil, false
}

// ruleDefaultFilter: the default content-type filter matches the documented
// words anywhere in the content type.
func ruleDefaultFilter(c *Ctx) {
	var pat string
	var at ssa.Instruction
	found := false
	// the default: a package-level *regexp.Regexp that shouldCompressed reads
	fallback := map[*ssa.Global]bool{}
	if sc := respMethod(c.P, "shouldCompressed"); sc != nil {
		for g := range pikeScope([]*ssa.Function{sc}, 2) {
			for _, b := range g.Blocks {
				for _, in := range b.Instrs {
					if u, ok := in.(*ssa.UnOp); ok {
						if gl, ok := u.X.(*ssa.Global); ok && gl.Pkg != nil && gl.Pkg.Pkg.Path() == pkgPath("cache") && strings.HasSuffix(u.Type().String(), "regexp.Regexp") {
							fallback[gl] = true
						}
					}
				}
			}
		}
	}
	for _, f := range c.P.allFuncs {
		if !inPkg(f, "cache") {
			continue
		}
		for _, b := range f.Blocks {
			for _, in := range b.Instrs {
				st, ok := in.(*ssa.Store)
				if !ok {
					continue
				}
				g, ok := st.Addr.(*ssa.Global)
				if !ok || !fallback[g] {
					continue
				}
				if call, ok := st.Val.(*ssa.Call); ok && len(call.Call.Args) == 1 {
					if k, ok := call.Call.Args[0].(*ssa.Const); ok && k.Value != nil && k.Value.Kind() == constant.String {
						pat, at, found = constant.StringVal(k.Value), in, true
					}
				}
			}
		}
	}
	if !found {
		c.undecided("default-filter-words", "defaultCompressContentTypeFilter", "-", "the default filter is not a constant pattern compiled at initialisation")
		return
	}
	documented := "text|javascript|json|wasm|xml"
	src := "the list pike has documented since the filter was introduced"
	if data, err := os.ReadFile(filepath.Join(c.P.Repo, "docs", "start.md")); err == nil {
		if m := regexp.MustCompile("Compress Content Filter[^\n]*?`([a-z|]+)`").FindSubmatch(data); m != nil {
			documented, src = string(m[1]), "docs/start.md"
		}
	}
	pos := c.P.pos(at.Pos())
	re, err := syntax.Parse(pat, syntax.Perl)
	if err != nil {
		c.bad("default-filter-words", "defaultCompressContentTypeFilter", pos, "the default filter does not parse: "+err.Error(), 1)
		return
	}
	words, ok := enumerateWords(re.Simplify())
	if !ok {
		words, ok = enumerateWords(re)
	}
	if !ok {
		c.bad("default-filter-words", "defaultCompressContentTypeFilter", pos, fmt.Sprintf("the default filter %q is not a plain list of words matched anywhere in the content type (it carries an assertion, a repetition or a class): content types that merely contain a documented word, such as application/x-ndjson, are no longer compressed", pat), 1)
		return
	}
	have := map[string]bool{}
	for _, w := range words {
		have[w] = true
	}
	bad := []string{}
	want := strings.Split(documented, "|")
	for _, w := range want {
		okW := false
		for h := range have {
			if h != "" && strings.Contains(w, h) {
				okW = true
			}
		}
		if !okW {
			bad = append(bad, fmt.Sprintf("the documented word %q (%s) is not matched by the default filter %q", w, src, pat))
		}
	}
	if have[""] {
		bad = append(bad, "the default filter matches the empty string: every content type is compressible")
	}
	c.check(len(bad) == 0, "default-filter-words", "defaultCompressContentTypeFilter", pos, fmt.Sprintf("the default filter is a plain list of %d words matched anywhere in the content type and covers the %d documented ones (%s)", len(words), len(want), src), strings.Join(bad, " || "), len(words))
}

// ruleConfiguredValuesAll: the configured multi-valued collections of a
// location (query, request and response headers) are never read through an
// accessor that yields the first value only.
func ruleConfiguredValuesAll(c *Ctx) {
	fields := map[*types.Var]bool{}
	for _, n := range []string{"Query", "RequestHeader", "ResponseHeader", "ResHeader", "ReqHeader"} {
		if fv := c.P.StructField("location", "Location", n); fv != nil {
			fields[fv] = true
		}
	}
	if len(fields) < 3 {
		c.undecided("configured-values-all", "location.Location", "-", fmt.Sprintf("only %d configured multi-valued fields found", len(fields)))
		return
	}
	first := map[string]bool{"(net/url.Values).Get": true, "(net/http.Header).Get": true, "(net/textproto.MIMEHeader).Get": true}
	var fromField func(v ssa.Value, d int) *types.Var
	fromField = func(v ssa.Value, d int) *types.Var {
		if d > 6 {
			return nil
		}
		switch x := v.(type) {
		case *ssa.UnOp:
			if fa, ok := x.X.(*ssa.FieldAddr); ok {
				if fv := fieldOf(fa.X.Type(), fa.Field); fields[fv] {
					return fv
				}
			}
			return nil
		case *ssa.Field:
			if fv := fieldOf(x.X.Type(), x.Field); fields[fv] {
				return fv
			}
		case *ssa.ChangeType:
			return fromField(x.X, d+1)
		case *ssa.Convert:
			return fromField(x.X, d+1)
		case *ssa.MakeInterface:
			return fromField(x.X, d+1)
		case *ssa.Phi:
			for _, e := range x.Edges {
				if fv := fromField(e, d+1); fv != nil {
					return fv
				}
			}
		case *ssa.Parameter:
			f := x.Parent()
			for i, p := range f.Params {
				if p != x {
					continue
				}
				for _, g := range c.P.allFuncs {
					for _, b := range g.Blocks {
						for _, in := range b.Instrs {
							if ci, ok := in.(ssa.CallInstruction); ok && ci.Common().StaticCallee() == f && !ci.Common().IsInvoke() && i < len(ci.Common().Args) {
								if fv := fromField(ci.Common().Args[i], d+1); fv != nil {
									return fv
								}
							}
						}
					}
				}
			}
		}
		return nil
	}
	reads := 0
	bad := []string{}
	for _, f := range c.P.allFuncs {
		for _, b := range f.Blocks {
			for _, in := range b.Instrs {
				if u, ok := in.(*ssa.UnOp); ok {
					if fa, ok := u.X.(*ssa.FieldAddr); ok && fields[fieldOf(fa.X.Type(), fa.Field)] {
						reads++
					}
				}
				ci, ok := in.(ssa.CallInstruction)
				if !ok {
					continue
				}
				sc := ci.Common().StaticCallee()
				if sc == nil || !first[sc.String()] || len(ci.Common().Args) == 0 {
					continue
				}
				if fv := fromField(ci.Common().Args[0], 0); fv != nil {
					bad = append(bad, fmt.Sprintf("%s: %s reads the configured %s through %s, which yields only the first value of a key: a key configured twice reaches the other side with one value", c.P.pos(in.Pos()), funcName(f), fv.Name(), sc.Name()))
				}
			}
		}
	}
	if reads < 3 {
		c.undecided("configured-values-all", "location.Location", "-", fmt.Sprintf("only %d reads of the configured collections found", reads))
		return
	}
	sort.Strings(bad)
	c.check(len(bad) == 0, "configured-values-all", "location.Location", "location/location.go", fmt.Sprintf("%d reads of the configured query/header collections, none through a first-value accessor", reads), strings.Join(uniq(bad), " || "), reads)
}

// ruleSaveDecodesFresh: the admin handler decodes a submitted configuration
// into an empty value, so what is saved depends on the submission alone.
func ruleSaveDecodesFresh(c *Ctx) {
	isCfg := func(t types.Type) bool {
		p, ok := t.Underlying().(*types.Pointer)
		if !ok {
			return false
		}
		n, ok := p.Elem().(*types.Named)
		return ok && n.Obj().Pkg() != nil && n.Obj().Pkg().Path() == pkgPath("config") && n.Obj().Name() == "PikeConfig"
	}
	decoderNames := map[string]bool{"Unmarshal": true, "UnmarshalStrict": true, "Decode": true, "Bind": true}
	n := 0
	bad := []string{}
	for _, f := range c.P.allFuncs {
		if !isPike(f) {
			continue
		}
		for _, b := range f.Blocks {
			for idx, in := range b.Instrs {
				ci, ok := in.(ssa.CallInstruction)
				if !ok {
					continue
				}
				sc := ci.Common().StaticCallee()
				if sc == nil || isPike(sc) || !decoderNames[sc.Name()] {
					continue
				}
				var tgt ssa.Value
				for _, a := range ci.Common().Args {
					a = stripConv(a)
					if mi, ok := a.(*ssa.MakeInterface); ok {
						a = stripConv(mi.X)
					}
					if isCfg(a.Type()) {
						tgt = a
					}
				}
				if tgt == nil {
					continue
				}
				n++
				// a helper decoding into its parameter: judge the value at the helper's call sites
				at, atBlock, atIdx, atFn := ssa.Instruction(in), b, idx, f
				okParam := true
				for hops := 0; hops < 3; hops++ {
					prm, isParam := tgt.(*ssa.Parameter)
					if !isParam {
						break
					}
					pf := prm.Parent()
					pi := -1
					for i, q := range pf.Params {
						if q == prm {
							pi = i
						}
					}
					var site ssa.CallInstruction
					sites := 0
					for _, g := range c.P.allFuncs {
						for _, gb := range g.Blocks {
							for _, gi := range gb.Instrs {
								if cs, ok := gi.(ssa.CallInstruction); ok && cs.Common().StaticCallee() == pf && !cs.Common().IsInvoke() {
									sites++
									site = cs
								}
							}
						}
					}
					if sites != 1 || pi < 0 || pi >= len(site.Common().Args) {
						okParam = false
						break
					}
					tgt = stripConv(site.Common().Args[pi])
					at, atBlock, atFn = site, site.Block(), site.Parent()
					atIdx = indexOf(atBlock, site)
				}
				_ = at
				al, ok := tgt.(*ssa.Alloc)
				if !ok || !okParam {
					bad = append(bad, fmt.Sprintf("%s: %s decodes a configuration into a value it did not create there (%s): whatever that value already holds survives wherever the document is silent", c.P.pos(in.Pos()), funcName(f), tgt.Name()))
					continue
				}
				b, idx, f := atBlock, atIdx, atFn
				var walk func(v ssa.Value, d int)
				walk = func(v ssa.Value, d int) {
					if d > 3 || v.Referrers() == nil {
						return
					}
					for _, r := range *v.Referrers() {
						switch x := r.(type) {
						case *ssa.FieldAddr:
							walk(x, d+1)
						case *ssa.IndexAddr:
							walk(x, d+1)
						case *ssa.Store:
							if x.Addr != v {
								continue
							}
							if k, isConst := x.Val.(*ssa.Const); isConst && (k.Value == nil || isZeroConst(k)) {
								continue
							}
							before := x.Block() == b && indexOf(b, x) < idx
							if x.Block() != b && reaches(x.Block(), b, map[*ssa.BasicBlock]bool{}) {
								before = true
							}
							if before {
								bad = append(bad, fmt.Sprintf("%s: %s fills the configuration value before decoding the submitted document into it: the decoder keeps existing list elements and fields the document leaves out, so the saved configuration depends on what was stored before", c.P.pos(x.Pos()), funcName(f)))
							}
						}
					}
				}
				walk(al, 0)
			}
		}
	}
	if n < 2 {
		c.undecided("save-decodes-fresh", "config.PikeConfig", "-", fmt.Sprintf("only %d decode sites of a whole configuration found", n))
		return
	}
	sort.Strings(bad)
	c.check(len(bad) == 0, "save-decodes-fresh", "config.PikeConfig", "server/admin.go", fmt.Sprintf("%d places decode a whole configuration, each into a value that is empty at that point", n), strings.Join(uniq(bad), " || "), n)
}

func isZeroConst(k *ssa.Const) bool {
	if k.Value == nil {
		return true
	}
	switch k.Value.Kind() {
	case constant.String:
		return constant.StringVal(k.Value) == ""
	case constant.Bool:
		return !constant.BoolVal(k.Value)
	case constant.Int, constant.Float:
		return constant.Sign(k.Value) == 0
	}
	return false
}

func indexOf(b *ssa.BasicBlock, in ssa.Instruction) int {
	for i, x := range b.Instrs {
		if x == in {
			return i
		}
	}
	return -1
}

// ruleBoundsConjunctive: in validation tags and aliases a bound (max, min,
// len, …) is a conjunct, never one side of an "or".
func ruleBoundsConjunctive(c *Ctx) {
	bounds := map[string]bool{"max": true, "min": true, "len": true, "gt": true, "gte": true, "lt": true, "lte": true, "required": true, "oneof": true, "eq": true, "ne": true}
	n := 0
	bad := []string{}
	checkTag := func(where, tag string) {
		for _, part := range strings.Split(tag, ",") {
			part = strings.TrimSpace(part)
			if part == "" {
				continue
			}
			n++
			alts := strings.Split(part, "|")
			if len(alts) < 2 {
				continue
			}
			for _, a := range alts {
				name := strings.SplitN(strings.TrimSpace(a), "=", 2)[0]
				if bounds[name] || strings.HasPrefix(name, "x") {
					bad = append(bad, fmt.Sprintf("%s: in %q the rule %q is one side of an \"or\": it is not enforced whenever another side holds (in validator tags ',' means and, '|' means or)", where, part, a))
				}
			}
		}
	}
	for _, s := range configStructs(c.P) {
		st := s.Underlying().(*types.Struct)
		for i := 0; i < st.NumFields(); i++ {
			if v := reflect.StructTag(st.Tag(i)).Get("validate"); v != "" {
				checkTag(s.Obj().Name()+"."+st.Field(i).Name(), v)
			}
		}
	}
	aliases := 0
	for _, f := range c.P.allFuncs {
		if !inPkg(f, "config") {
			continue
		}
		for _, b := range f.Blocks {
			for _, in := range b.Instrs {
				ci, ok := in.(ssa.CallInstruction)
				if !ok {
					continue
				}
				sc := ci.Common().StaticCallee()
				if sc == nil {
					continue
				}
				isAlias := sc.Name() == "RegisterAlias"
				if !isAlias && inPkg(sc, "config") {
					for g := range staticScope(sc, "config", 2) {
						for _, bb := range g.Blocks {
							for _, i2 := range bb.Instrs {
								if c2, ok := i2.(ssa.CallInstruction); ok {
									if s2 := c2.Common().StaticCallee(); s2 != nil && s2.Name() == "RegisterAlias" {
										isAlias = true
									}
								}
							}
						}
					}
				}
				if !isAlias {
					continue
				}
				strs := []string{}
				for _, a := range ci.Common().Args {
					if k, ok := a.(*ssa.Const); ok && k.Value != nil && k.Value.Kind() == constant.String {
						strs = append(strs, constant.StringVal(k.Value))
					}
				}
				if len(strs) >= 2 {
					aliases++
					checkTag("alias "+strs[len(strs)-2], strs[len(strs)-1])
				}
			}
		}
	}
	if n < 20 || aliases == 0 {
		c.undecided("bounds-conjunctive", "config", "-", fmt.Sprintf("only %d tag parts and %d aliases found", n, aliases))
		return
	}
	sort.Strings(bad)
	c.check(len(bad) == 0, "bounds-conjunctive", "config", "config/validate.go", fmt.Sprintf("%d tag parts in the configuration structs and %d aliases: no bound or custom rule sits inside an \"or\"", n, aliases), strings.Join(uniq(bad), " || "), n)
}

// ruleCloseListenerGuard: a nilable field that Close dereferences is guarded
// by a field that is only ever set together with it.
func ruleCloseListenerGuard(c *Ctx) {
	fn := c.P.Method("server", "server", "Close")
	if fn == nil || len(fn.Params) == 0 {
		c.undecided("close-listener-guard", "(*server).Close", "-", "not found")
		return
	}
	name, pos := funcName(fn), c.P.pos(fn.Pos())
	recvT := fn.Params[0].Type()
	fieldLoad := func(v ssa.Value) *types.Var {
		u, ok := v.(*ssa.UnOp)
		if !ok || u.Op.String() != "*" {
			return nil
		}
		fa, ok := u.X.(*ssa.FieldAddr)
		if !ok || !types.Identical(fa.X.Type(), recvT) {
			return nil
		}
		return fieldOf(fa.X.Type(), fa.Field)
	}
	nilable := func(t types.Type) bool {
		switch t.Underlying().(type) {
		case *types.Pointer, *types.Interface, *types.Map, *types.Chan, *types.Signature:
			return true
		}
		return false
	}
	// guards: for an If, the field tested and the successor index on which it is set
	guardOf := func(iff *ssa.If) (*types.Var, int) {
		cond := iff.Cond
		side := 0
		if u, ok := cond.(*ssa.UnOp); ok && u.Op.String() == "!" {
			cond, side = u.X, 1
		}
		if fv := fieldLoad(cond); fv != nil {
			return fv, side
		}
		if bo, ok := cond.(*ssa.BinOp); ok && (bo.Op.String() == "==" || bo.Op.String() == "!=") {
			var fv *types.Var
			if k, ok := bo.Y.(*ssa.Const); ok && k.Value == nil {
				fv = fieldLoad(bo.X)
			} else if k, ok := bo.X.(*ssa.Const); ok && k.Value == nil {
				fv = fieldLoad(bo.Y)
			}
			if fv != nil {
				if bo.Op.String() == "==" {
					return fv, 1 - side
				}
				return fv, side
			}
		}
		return nil, 0
	}
	// stores of a non-zero value to a field of the server, anywhere in package server
	type storeSite struct {
		st *ssa.Store
		f  *ssa.Function
	}
	sets := map[*types.Var][]storeSite{}
	atCtor := map[*types.Var]bool{} // set where the server is constructed
	for _, f := range c.P.allFuncs {
		if !inPkg(f, "server") {
			continue
		}
		for _, b := range f.Blocks {
			for _, in := range b.Instrs {
				st, ok := in.(*ssa.Store)
				if !ok {
					continue
				}
				fa, ok := st.Addr.(*ssa.FieldAddr)
				if !ok || !types.Identical(fa.X.Type(), recvT) {
					continue
				}
				if k, isConst := st.Val.(*ssa.Const); isConst && isZeroConst(k) {
					continue
				}
				if _, fresh := fa.X.(*ssa.Alloc); fresh {
					atCtor[fieldOf(fa.X.Type(), fa.Field)] = true
				}
				sets[fieldOf(fa.X.Type(), fa.Field)] = append(sets[fieldOf(fa.X.Type(), fa.Field)], storeSite{st, f})
			}
		}
	}
	setTogether := func(g, f *types.Var) (bool, string) {
		if g == f {
			return true, ""
		}
		if len(sets[g]) == 0 {
			return false, fmt.Sprintf("%s is never set", g.Name())
		}
		for _, gs := range sets[g] {
			okSite := false
			fBlocks := map[*ssa.BasicBlock]bool{}
			for _, fs := range sets[f] {
				if fs.f == gs.f {
					fBlocks[fs.st.Block()] = true
				}
			}
			gb := gs.st.Block()
			if fBlocks[gb] {
				okSite = true
			}
			for fb := range fBlocks {
				if fb != gb && fb.Dominates(gb) {
					okSite = true
				}
			}
			if !okSite && len(fBlocks) > 0 {
				// every way from the store of g to a return passes a store of f
				escapes := false
				seen := map[*ssa.BasicBlock]bool{}
				var dfs func(b *ssa.BasicBlock)
				dfs = func(b *ssa.BasicBlock) {
					if seen[b] || escapes {
						return
					}
					seen[b] = true
					if b != gb && fBlocks[b] {
						return
					}
					if len(b.Succs) == 0 {
						escapes = true
						return
					}
					for _, s := range b.Succs {
						dfs(s)
					}
				}
				dfs(gb)
				okSite = !escapes
			}
			if !okSite {
				return false, fmt.Sprintf("%s: %s sets %s on a path that returns without setting %s (a failed listen leaves %s set and %s nil)", c.P.pos(gs.st.Pos()), funcName(gs.f), g.Name(), f.Name(), g.Name(), f.Name())
			}
		}
		return true, ""
	}
	uses := 0
	bad := []string{}
	guardsAt := func(f *ssa.Function, b *ssa.BasicBlock) []*types.Var {
		guards := []*types.Var{}
		for _, d := range f.Blocks {
			iff, ok := d.Instrs[len(d.Instrs)-1].(*ssa.If)
			if !ok || !d.Dominates(b) || d == b {
				continue
			}
			g, side := guardOf(iff)
			if g == nil {
				continue
			}
			if d.Succs[side] == b || (d.Succs[side].Dominates(b) && len(d.Succs[side].Preds) == 1) {
				guards = append(guards, g)
			}
		}
		return guards
	}
	var scan func(f *ssa.Function, outer []*types.Var, depth int)
	scan = func(f *ssa.Function, outer []*types.Var, depth int) {
		for _, b := range f.Blocks {
			for _, in := range b.Instrs {
				ci, ok := in.(ssa.CallInstruction)
				if !ok {
					continue
				}
				if _, isDefer := in.(*ssa.Defer); isDefer {
					continue
				}
				cc := ci.Common()
				var rv ssa.Value
				if cc.IsInvoke() {
					rv = cc.Value
				} else if len(cc.Args) > 0 && cc.StaticCallee() != nil && cc.StaticCallee().Signature.Recv() != nil {
					rv = cc.Args[0]
				}
				if rv == nil {
					continue
				}
				// a helper of the server run on the same receiver: its dereferences count here
				if sc := cc.StaticCallee(); sc != nil && inPkg(sc, "server") && sc.Blocks != nil && depth < 2 && len(f.Params) > 0 && rv == ssa.Value(f.Params[0]) && types.Identical(rv.Type(), recvT) {
					scan(sc, append(append([]*types.Var{}, outer...), guardsAt(f, b)...), depth+1)
					continue
				}
				fv := fieldLoad(rv)
				if fv == nil || !nilable(fv.Type()) || atCtor[fv] {
					continue
				}
				uses++
				guards := append(append([]*types.Var{}, outer...), guardsAt(f, b)...)
				okUse := false
				why := []string{}
				for _, g := range guards {
					okG, reason := setTogether(g, fv)
					if okG {
						okUse = true
					} else {
						why = append(why, reason)
					}
				}
				if !okUse {
					if len(guards) == 0 {
						why = append(why, "no test of a field of the server dominates the call")
					}
					bad = append(bad, fmt.Sprintf("%s: Close calls a method on %s, which can be nil here: %s; the nil dereference happens in a goroutine of its own (go s.Close()) and ends the process", c.P.pos(in.Pos()), fv.Name(), strings.Join(uniq(why), "; ")))
				}
			}
		}
	}
	scan(fn, nil, 0)
	if uses == 0 {
		c.undecided("close-listener-guard", name, pos, "Close dereferences no nilable field of the server")
		return
	}
	sort.Strings(bad)
	c.check(len(bad) == 0, "close-listener-guard", name, pos, fmt.Sprintf("%d method calls on nilable fields of the server in Close, each behind a test of a field that is set only together with it", uses), strings.Join(uniq(bad), " || "), uses)
}

// rejoinsAtOnce: the branch only adds statements (a log line, say): one arm
// falls through into the other (or both into one block) without returning,
// panicking or exiting.
func rejoinsAtOnce(iff *ssa.If) bool {
	b := iff.Block()
	if len(b.Succs) != 2 {
		return false
	}
	plain := func(x *ssa.BasicBlock) (*ssa.BasicBlock, bool) {
		if len(x.Succs) != 1 {
			return nil, false
		}
		for _, in := range x.Instrs {
			switch y := in.(type) {
			case *ssa.Return, *ssa.Panic:
				return nil, false
			case ssa.CallInstruction:
				if sc := y.Common().StaticCallee(); sc != nil && (sc.String() == "os.Exit" || sc.Name() == "Fatal" || sc.Name() == "Fatalf" || sc.Name() == "Panic") {
					return nil, false
				}
			}
		}
		return x.Succs[0], true
	}
	for i := 0; i < 2; i++ {
		arm, other := b.Succs[i], b.Succs[1-i]
		if t, ok := plain(arm); ok {
			if t == other {
				return true
			}
			if t2, ok2 := plain(other); ok2 && t2 == t {
				return true
			}
		}
	}
	return false
}

// freshAlloc: v is a heap allocation made on the spot, or the result of a pike
// function every return of which is one.
func freshAlloc(v ssa.Value, d int) bool {
	switch x := v.(type) {
	case *ssa.Alloc:
		return x.Heap
	case *ssa.Call:
		sc := x.Call.StaticCallee()
		if sc == nil || !isPike(sc) || sc.Blocks == nil || d > 1 {
			return false
		}
		n := 0
		for _, b := range sc.Blocks {
			if ret, ok := b.Instrs[len(b.Instrs)-1].(*ssa.Return); ok {
				if len(ret.Results) != 1 || !freshAlloc(stripConv(ret.Results[0]), d+1) {
					return false
				}
				n++
			}
		}
		return n > 0
	}
	return false
}

// ---------------------------------------------------------------- round 16

// ruleRecordDeletedOnlyByPurge: outside package store a persisted record is
// deleted by the purge alone (an eviction hook, say, must not take the
// persisted copy with it).
func ruleRecordDeletedOnlyByPurge(c *Ctx) {
	purge := c.P.Method("cache", "dispatcher", "RemoveHTTPCache")
	if purge == nil {
		c.undecided("record-deleted-only-by-purge", "cache", "-", "the purge function was not found")
		return
	}
	isStoreDelete := func(cc *ssa.CallCommon) bool {
		if cc.IsInvoke() {
			if cc.Method.Name() != "Delete" {
				return false
			}
			nt, ok := cc.Value.Type().(*types.Named)
			return ok && nt.Obj().Pkg() != nil && nt.Obj().Pkg().Path() == pkgPath("store")
		}
		sc := cc.StaticCallee()
		return sc != nil && inPkg(sc, "store") && sc.Name() == "Delete" && sc.Signature.Recv() != nil
	}
	sites := 0
	bad := []string{}
	for _, f := range c.P.allFuncs {
		if inPkg(f, "store") {
			continue
		}
		for _, b := range f.Blocks {
			for _, in := range b.Instrs {
				ci, ok := in.(ssa.CallInstruction)
				if !ok || !isStoreDelete(ci.Common()) {
					continue
				}
				sites++
				root := f
				for root.Parent() != nil {
					root = root.Parent()
				}
				isHook := false
				if f.Parent() != nil {
					for _, r := range *referrersOfFunc(f) {
						if st, ok := r.(*ssa.Store); ok {
							if fa, ok := st.Addr.(*ssa.FieldAddr); ok && fieldOf(fa.X.Type(), fa.Field).Name() == "OnEvicted" {
								isHook = true
							}
						}
					}
				}
				if isHook || !(root == purge || onlyReachedFrom(c.P, root, purge, map[*ssa.Function]bool{})) {
					bad = append(bad, fmt.Sprintf("%s: %s deletes a persisted record although no purge asked for it: an entry squeezed out of the LRU (or a hit-for-pass marker) is meant to come back from the store on its next use", c.P.pos(in.Pos()), funcName(f)))
				}
			}
		}
	}
	if sites == 0 {
		c.undecided("record-deleted-only-by-purge", funcName(purge), c.P.pos(purge.Pos()), "no call of Store.Delete found outside package store")
		return
	}
	sort.Strings(bad)
	c.check(len(bad) == 0, "record-deleted-only-by-purge", funcName(purge), c.P.pos(purge.Pos()), fmt.Sprintf("%d places outside package store delete a persisted record, all of them in the purge", sites), strings.Join(uniq(bad), " || "), sites)
}

// referrersOfFunc: instructions that use a function literal's closure value.
func referrersOfFunc(f *ssa.Function) *[]ssa.Instruction {
	out := []ssa.Instruction{}
	if p := f.Parent(); p != nil {
		for _, b := range p.Blocks {
			for _, in := range b.Instrs {
				if mc, ok := in.(*ssa.MakeClosure); ok && mc.Fn == f {
					if mc.Referrers() != nil {
						out = append(out, *mc.Referrers()...)
					}
				}
				for _, op := range in.Operands(nil) {
					if *op == ssa.Value(f) {
						out = append(out, in)
					}
				}
			}
		}
	}
	return &out
}

// ruleCodecNoAlias: no codec library call in package compress is handed the
// same buffer as source and destination.
func ruleCodecNoAlias(c *Ctx) {
	base := func(v ssa.Value) ssa.Value {
		for d := 0; d < 6; d++ {
			switch x := v.(type) {
			case *ssa.Slice:
				v = x.X
			case *ssa.Convert:
				v = x.X
			case *ssa.ChangeType:
				v = x.X
			default:
				return v
			}
		}
		return v
	}
	isBytes := func(t types.Type) bool {
		sl, ok := t.Underlying().(*types.Slice)
		if !ok {
			return false
		}
		b, ok := sl.Elem().Underlying().(*types.Basic)
		return ok && b.Kind() == types.Byte
	}
	n := 0
	bad := []string{}
	for _, f := range c.P.allFuncs {
		if !inPkg(f, "compress") {
			continue
		}
		for _, b := range f.Blocks {
			for _, in := range b.Instrs {
				ci, ok := in.(ssa.CallInstruction)
				if !ok {
					continue
				}
				sc := ci.Common().StaticCallee()
				if sc == nil || isPike(sc) {
					continue
				}
				args := []ssa.Value{}
				for _, a := range ci.Common().Args {
					if isBytes(a.Type()) {
						if k, isConst := a.(*ssa.Const); isConst && k.Value == nil {
							continue
						}
						args = append(args, base(a))
					}
				}
				if len(args) < 2 {
					continue
				}
				n++
				for i := 0; i < len(args); i++ {
					for j := i + 1; j < len(args); j++ {
						if args[i] == args[j] {
							bad = append(bad, fmt.Sprintf("%s: %s hands %s the same buffer as source and destination: the library forbids overlapping buffers, and once the output overtakes the unread input a valid stream is rejected or decoded wrongly", c.P.pos(in.Pos()), funcName(f), sc.Name()))
						}
					}
				}
			}
		}
	}
	sort.Strings(bad)
	c.check(len(bad) == 0, "codec-no-alias", "compress", "compress/compress.go", fmt.Sprintf("%d codec library calls take two byte buffers; in none of them are the two the same buffer", n), strings.Join(uniq(bad), " || "), n+1)
}

// ruleCompressFromAnyVariant: pre-compression gives up only after it has asked
// for the raw body (which is recovered from a stored variant when absent).
func ruleCompressFromAnyVariant(c *Ctx) {
	fn := respMethod(c.P, "Compress")
	if fn == nil {
		c.undecided("compress-from-any-variant", "Compress", "-", "not found")
		return
	}
	name, pos := funcName(fn), c.P.pos(fn.Pos())
	n, gaveUp := 0, 0
	bad := []string{}
	sim := c.P.Simulate(fn, SimConfig{}, func(pr *PathResult) {
		n++
		if pr.Exit != "return" || len(pr.Results) != 1 || pr.Results[0].IsNil() {
			return
		}
		if k, isNil := pr.Facts.Decide(eqTerm(pr.Results[0], nilTerm(nil))); k && isNil {
			return
		}
		gaveUp++
		asked := false
		for _, e := range pr.Events {
			if e.Kind == "call" && e.Callee != nil && e.Callee.Name() == "GetRawBody" {
				asked = true
			}
		}
		if !asked {
			bad = append(bad, "gives up with "+prettyTerm(pr.Results[0])+" without having asked for the raw body: a response that arrived already compressed (raw body empty, one variant present) is stored without its other variant and re-coded on every request, on path ["+condString(pr.Conds)+"]")
		}
	})
	if sim.Overflow || n == 0 || gaveUp == 0 {
		c.undecided("compress-from-any-variant", name, pos, "no failing path of Compress recognised")
		return
	}
	c.check(len(bad) == 0, "compress-from-any-variant", name, pos, fmt.Sprintf("%d paths, %d of them give up: each only after GetRawBody was consulted", n, gaveUp), strings.Join(uniq(bad), " || "), n)
}

// ruleWatchForwardsCallback: config.Watch hands the caller's callback to the
// client, or wraps it in a function that calls it on every path.
func ruleWatchForwardsCallback(c *Ctx) {
	fn := c.P.Func("config", "Watch")
	if fn == nil || len(fn.Params) == 0 {
		c.undecided("watch-forwards-callback", "config.Watch", "-", "not found")
		return
	}
	name, pos := funcName(fn), c.P.pos(fn.Pos())
	cb := fn.Params[0]
	n := 0
	bad := []string{}
	for _, b := range fn.Blocks {
		for _, in := range b.Instrs {
			ci, ok := in.(ssa.CallInstruction)
			if !ok || ci.Common().Method == nil && (ci.Common().StaticCallee() == nil || ci.Common().StaticCallee().Name() != "Watch") {
				continue
			}
			if ci.Common().IsInvoke() && ci.Common().Method.Name() != "Watch" {
				continue
			}
			for _, a := range ci.Common().Args {
				a = stripConv(a)
				if a == ssa.Value(cb) {
					n++
					continue
				}
				mc, ok := a.(*ssa.MakeClosure)
				if !ok {
					continue
				}
				lit, _ := mc.Fn.(*ssa.Function)
				if lit == nil {
					continue
				}
				n++
				// the captured callback
				var fvCb *ssa.FreeVar
				for j, bnd := range mc.Bindings {
					if bnd == ssa.Value(cb) && j < len(lit.FreeVars) {
						fvCb = lit.FreeVars[j]
					}
				}
				callsIn := map[*ssa.BasicBlock]bool{}
				for _, lb := range lit.Blocks {
					for _, li := range lb.Instrs {
						if lc, ok := li.(*ssa.Call); ok && fvCb != nil && lc.Call.Value == ssa.Value(fvCb) {
							callsIn[lb] = true
						}
					}
				}
				escapes := false
				seen := map[*ssa.BasicBlock]bool{}
				var dfs func(x *ssa.BasicBlock)
				dfs = func(x *ssa.BasicBlock) {
					if seen[x] || escapes || callsIn[x] {
						return
					}
					seen[x] = true
					if _, isRet := x.Instrs[len(x.Instrs)-1].(*ssa.Return); isRet {
						escapes = true
						return
					}
					for _, s := range x.Succs {
						dfs(s)
					}
				}
				if len(lit.Blocks) > 0 {
					dfs(lit.Blocks[0])
				}
				if fvCb == nil || escapes {
					bad = append(bad, fmt.Sprintf("%s: the function handed to the client's Watch does not call the caller's callback on every path: a change event can be swallowed (e.g. judged a duplicate because something else read the configuration in between) and the running instance stays on the old configuration", c.P.pos(lit.Pos())))
				}
			}
		}
	}
	if n == 0 {
		c.undecided("watch-forwards-callback", name, pos, "the callback is not handed to a Watch call")
		return
	}
	c.check(len(bad) == 0, "watch-forwards-callback", name, pos, fmt.Sprintf("%d hand-overs: the client is given the caller's callback itself, or a wrapper that calls it on every path", n), strings.Join(uniq(bad), " || "), n)
}

// ruleResetInputReadOnly: the registry Reset functions never edit the option
// list they were given (removing elements from the slice a loop is walking
// skips the element that slides into the freed slot).
func ruleResetInputReadOnly(c *Ctx) {
	regs := []struct{ pkg, typ, method string }{
		{"cache", "dispatchers", "Reset"}, {"upstream", "upstreamServers", "Reset"}, {"server", "servers", "Reset"},
		{"compress", "compressSrvs", "Reset"}, {"location", "Locations", "Set"},
	}
	n := 0
	bad := []string{}
	for _, r := range regs {
		fn := c.P.Method(r.pkg, r.typ, r.method)
		if fn == nil {
			continue
		}
		for _, prm := range fn.Params {
			if _, ok := prm.Type().Underlying().(*types.Slice); !ok {
				continue
			}
			n++
			derived := map[ssa.Value]bool{prm: true}
			fns := []*ssa.Function{fn}
			fns = append(fns, fn.AnonFuncs...)
			cells := map[ssa.Value]bool{}
			for changed := true; changed; {
				changed = false
				for _, f := range fns {
					for _, b := range f.Blocks {
						for _, in := range b.Instrs {
							if st, ok := in.(*ssa.Store); ok && derived[st.Val] && !cells[st.Addr] {
								if _, isAlloc := st.Addr.(*ssa.Alloc); isAlloc {
									cells[st.Addr], changed = true, true
								}
							}
							if mc, ok := in.(*ssa.MakeClosure); ok {
								if lit, ok := mc.Fn.(*ssa.Function); ok {
									for j, bnd := range mc.Bindings {
										if cells[bnd] && j < len(lit.FreeVars) && !cells[lit.FreeVars[j]] {
											cells[lit.FreeVars[j]], changed = true, true
										}
									}
								}
							}
							v, ok := in.(ssa.Value)
							if !ok || derived[v] {
								continue
							}
							switch x := in.(type) {
							case *ssa.Phi:
								for _, e := range x.Edges {
									if derived[e] {
										derived[v], changed = true, true
									}
								}
							case *ssa.UnOp:
								// a read of the cell the list lives in (a parameter that is assigned to, or captured by a literal)
								if cells[x.X] {
									derived[v], changed = true, true
								}
							case *ssa.Slice:
								if derived[x.X] {
									derived[v], changed = true, true
								}
							case *ssa.Call:
								if bi, ok := x.Call.Value.(*ssa.Builtin); ok && bi.Name() == "append" && derived[x.Call.Args[0]] {
									derived[v], changed = true, true
								}
							}
						}
					}
				}
			}
			for _, f := range fns {
				for _, b := range f.Blocks {
					for _, in := range b.Instrs {
						switch x := in.(type) {
						case *ssa.Call:
							if bi, ok := x.Call.Value.(*ssa.Builtin); ok && bi.Name() == "append" && derived[x.Call.Args[0]] {
								bad = append(bad, fmt.Sprintf("%s: %s appends onto (a piece of) the option list it was given: the list is edited while it is being applied, and the option that slides into a freed slot is skipped (its server is neither updated nor kept)", c.P.pos(x.Pos()), funcName(f)))
							}
						case *ssa.Store:
							if ia, ok := x.Addr.(*ssa.IndexAddr); ok && derived[ia.X] {
								if _, isStruct := x.Val.Type().Underlying().(*types.Struct); isStruct {
									bad = append(bad, fmt.Sprintf("%s: %s overwrites an element of the option list it was given", c.P.pos(x.Pos()), funcName(f)))
								}
							}
						}
					}
				}
			}
		}
	}
	if n < 4 {
		c.undecided("reset-input-read-only", "registries", "-", fmt.Sprintf("only %d option lists found", n))
		return
	}
	sort.Strings(bad)
	c.check(len(bad) == 0, "reset-input-read-only", "registries", "main.go", fmt.Sprintf("%d option lists handed to the registry resets, none of them appended onto or overwritten", n), strings.Join(uniq(bad), " || "), n)
}

// ruleSetPublishesAll: Locations.Set publishes one location for each it is
// given: every iteration of the filling loop writes its element.
func ruleSetPublishesAll(c *Ctx) {
	fn := c.P.Method("location", "Locations", "Set")
	if fn == nil {
		c.undecided("set-publishes-all", "Locations.Set", "-", "not found")
		return
	}
	name, pos := funcName(fn), c.P.pos(fn.Pos())
	writes := map[*ssa.BasicBlock]ssa.Instruction{}
	fns := []*ssa.Function{}
	for g := range staticScope(fn, "location", 2) {
		if g.Parent() == nil {
			fns = append(fns, g)
		}
	}
	sort.Slice(fns, func(i, j int) bool { return fns[i].Pos() < fns[j].Pos() })
	for _, g := range fns {
		for _, b := range g.Blocks {
			for _, in := range b.Instrs {
				switch x := in.(type) {
				case *ssa.Store:
					if ia, ok := x.Addr.(*ssa.IndexAddr); ok {
						if pt, ok := x.Val.Type().(*types.Pointer); ok && strings.HasSuffix(pt.Elem().String(), "location.Location") {
							_ = ia
							writes[b] = in
						}
					}
				case *ssa.Call:
					if bi, ok := x.Call.Value.(*ssa.Builtin); ok && bi.Name() == "append" && strings.HasSuffix(x.Type().String(), "location.Location") {
						writes[b] = in
					}
				}
			}
		}
	}
	n := 0
	bad := []string{}
	for _, g := range fns {
		for _, b := range g.Blocks {
			for _, in := range b.Instrs {
				if r, ok := in.(*ssa.Range); ok {
					if _, isMap := r.X.Type().Underlying().(*types.Map); isMap {
						bad = append(bad, fmt.Sprintf("%s: %s builds the published list by walking a map: locations of one priority class come out in a random order that changes with every reload, and the first match among overlapping ones with it", c.P.pos(r.Pos()), funcName(g)))
					}
				}
			}
		}
	}
	for wb, in := range writes {
		if !inLoop(wb) {
			continue
		}
		fn := wb.Parent()
		// innermost header: dominates the write and is reached back from it
		var h *ssa.BasicBlock
		for _, cand := range fn.Blocks {
			isHeader := false
			for _, p := range cand.Preds {
				if cand.Dominates(p) {
					isHeader = true
				}
			}
			if isHeader && cand.Dominates(wb) && reaches(wb, cand, map[*ssa.BasicBlock]bool{}) {
				if h == nil || h.Dominates(cand) {
					h = cand
				}
			}
		}
		if h == nil {
			continue
		}
		n++
		// an iteration that comes back to the header without passing the write
		skipped := false
		seen := map[*ssa.BasicBlock]bool{}
		var dfs func(x *ssa.BasicBlock)
		dfs = func(x *ssa.BasicBlock) {
			if skipped || seen[x] || x == wb || !h.Dominates(x) {
				return
			}
			seen[x] = true
			for _, s := range x.Succs {
				if s == h {
					skipped = true
					return
				}
				dfs(s)
			}
		}
		for _, s := range h.Succs {
			if h.Dominates(s) && reaches(s, h, map[*ssa.BasicBlock]bool{}) {
				dfs(s)
			}
		}
		if skipped {
			bad = append(bad, fmt.Sprintf("%s: an iteration of the loop that fills the published list can come round without writing its location: a location the configuration was accepted with is missing after it is applied, and every server naming it answers 503", c.P.pos(in.Pos())))
		}
	}
	if n == 0 {
		c.undecided("set-publishes-all", name, pos, "no loop that fills the published list was recognised")
		return
	}
	sort.Strings(bad)
	c.check(len(bad) == 0, "set-publishes-all", name, pos, fmt.Sprintf("%d filling loops: every iteration writes its location", n), strings.Join(uniq(bad), " || "), n)
}

// ruleRedisReadsMaster: the redis client is not told to serve reads from replicas.
func ruleRedisReadsMaster(c *Ctx) {
	forbidden := map[string]bool{"ReadOnly": true, "RouteByLatency": true, "RouteRandomly": true}
	n := 0
	bad := []string{}
	for _, f := range c.P.allFuncs {
		if !inPkg(f, "store") {
			continue
		}
		for _, b := range f.Blocks {
			for _, in := range b.Instrs {
				st, ok := in.(*ssa.Store)
				if !ok {
					continue
				}
				fa, ok := st.Addr.(*ssa.FieldAddr)
				if !ok {
					continue
				}
				fv := fieldOf(fa.X.Type(), fa.Field)
				if fv == nil || fv.Pkg() == nil || !strings.Contains(fv.Pkg().Path(), "go-redis") {
					continue
				}
				n++
				if forbidden[fv.Name()] {
					if k, isConst := st.Val.(*ssa.Const); !isConst || !isZeroConst(k) {
						bad = append(bad, fmt.Sprintf("%s: %s sets redis option %s: in cluster mode reads then go to replicas, which lag behind the master, so a record a purge has just deleted can still be read back and served", c.P.pos(in.Pos()), funcName(f), fv.Name()))
					}
				}
			}
		}
	}
	if n < 3 {
		c.undecided("redis-reads-master", "store", "-", fmt.Sprintf("only %d redis options set", n))
		return
	}
	sort.Strings(bad)
	c.check(len(bad) == 0, "redis-reads-master", "newRedisStore", "store/redis.go", fmt.Sprintf("%d redis client options set, none of them routes reads to replicas", n), strings.Join(uniq(bad), " || "), n)
}

// ruleDialerNoAbsoluteDeadline: the upstream transport's dialer carries no
// absolute deadline (it would be fixed when the upstream is built).
func ruleDialerNoAbsoluteDeadline(c *Ctx) {
	n, bad := dialerDeadlines(c.P)
	if n == 0 {
		c.undecided("dialer-no-absolute-deadline", "upstream", "-", "no net.Dialer is configured")
		return
	}
	if fx := c.fixture(); fx == nil {
		c.undecided("dialer-no-absolute-deadline", "upstream", "-", "positive-control fixture could not be loaded")
		return
	} else if _, fb := dialerDeadlines(fx); len(fb) == 0 {
		c.undecided("dialer-no-absolute-deadline", "upstream", "-", "the rule does not fire on its positive control (checker/fixture/fixturebad.DialWithDeadline)")
		return
	}
	sort.Strings(bad)
	c.check(len(bad) == 0, "dialer-no-absolute-deadline", "newTransport", "upstream/upstream.go", fmt.Sprintf("%d net.Dialer options set, only relative ones (Timeout, KeepAlive); positive control fires", n), strings.Join(uniq(bad), " || "), n+1)
}

func dialerDeadlines(p *Program) (int, []string) {
	c := struct{ P *Program }{p}
	n := 0
	bad := []string{}
	for _, f := range c.P.allFuncs {
		if !isPike(f) {
			continue
		}
		for _, b := range f.Blocks {
			for _, in := range b.Instrs {
				st, ok := in.(*ssa.Store)
				if !ok {
					continue
				}
				fa, ok := st.Addr.(*ssa.FieldAddr)
				if !ok {
					continue
				}
				fv := fieldOf(fa.X.Type(), fa.Field)
				if fv == nil || fv.Pkg() == nil || fv.Pkg().Path() != "net" {
					continue
				}
				if !strings.HasSuffix(fa.X.Type().String(), "net.Dialer") {
					continue
				}
				n++
				if fv.Name() == "Deadline" || fv.Name() == "Cancel" {
					bad = append(bad, fmt.Sprintf("%s: %s sets net.Dialer.%s: an absolute point in time fixed when the transport is built; once it has passed every new connection to the upstream fails at once, so a server that recovers is picked again but never reached", c.P.pos(in.Pos()), funcName(f), fv.Name()))
				}
			}
		}
	}
	return n, bad
}

// ruleResponseNeverOverwritten: a response object, once built, is never
// overwritten as a whole (clients that were handed it read it without a lock).
func ruleResponseNeverOverwritten(c *Ctx) {
	isResp := func(t types.Type) bool {
		n, ok := t.(*types.Named)
		return ok && n.Obj().Pkg() != nil && n.Obj().Pkg().Path() == pkgPath("cache") && n.Obj().Name() == "HTTPResponse"
	}
	n := 0
	bad := []string{}
	for _, f := range c.P.allFuncs {
		for _, b := range f.Blocks {
			for _, in := range b.Instrs {
				switch x := in.(type) {
				case *ssa.Alloc:
					if pt, ok := x.Type().(*types.Pointer); ok && isResp(pt.Elem()) {
						n++
					}
				case *ssa.Store:
					if !isResp(x.Val.Type()) {
						continue
					}
					if _, isConst := x.Val.(*ssa.Const); isConst {
						continue
					}
					if al, ok := x.Addr.(*ssa.Alloc); ok && al.Parent() == f {
						continue // filling the object this function has just allocated
					}
					bad = append(bad, fmt.Sprintf("%s: %s overwrites a whole response object in place: hit clients that were handed that object are still reading its status, header and bodies without any lock, and get a mix of two generations", c.P.pos(x.Pos()), funcName(f)))
				}
			}
		}
	}
	if n == 0 {
		c.undecided("response-never-overwritten", "cache.HTTPResponse", "-", "no place builds a response")
		return
	}
	sort.Strings(bad)
	c.check(len(bad) == 0, "response-never-overwritten", "cache.HTTPResponse", "cache/http_response.go", fmt.Sprintf("%d places build a response; none overwrites an existing one as a whole", n), strings.Join(uniq(bad), " || "), n)
}

// ---------------------------------------------------------------- round 17

// ruleVariantsNeverDropped: a stored compressed variant is only ever set,
// never cleared (the raw body may already be gone).
func ruleVariantsNeverDropped(c *Ctx) {
	gz, br := c.P.StructField("cache", "HTTPResponse", "GzipBody"), c.P.StructField("cache", "HTTPResponse", "BrBody")
	if gz == nil || br == nil {
		c.undecided("variants-never-dropped", "cache.HTTPResponse", "-", "variant fields not found")
		return
	}
	n := 0
	bad := []string{}
	for _, f := range c.P.allFuncs {
		for _, b := range f.Blocks {
			for _, in := range b.Instrs {
				st, ok := in.(*ssa.Store)
				if !ok {
					continue
				}
				fa, ok := st.Addr.(*ssa.FieldAddr)
				if !ok {
					continue
				}
				fv := fieldOf(fa.X.Type(), fa.Field)
				if fv != gz && fv != br {
					continue
				}
				n++
				if k, isConst := st.Val.(*ssa.Const); isConst && k.Value == nil {
					if _, fresh := fa.X.(*ssa.Alloc); fresh {
						continue
					}
					bad = append(bad, fmt.Sprintf("%s: %s clears the stored %s of a response: when the body arrived compressed the raw body is empty, so nothing is left to serve (200 with the original headers and no body, to the fetcher, the waiters, later hits and the persisted record)", c.P.pos(st.Pos()), funcName(f), fv.Name()))
				}
			}
		}
	}
	if n < 2 {
		c.undecided("variants-never-dropped", "cache.HTTPResponse", "-", fmt.Sprintf("only %d stores to the variant fields found", n))
		return
	}
	sort.Strings(bad)
	c.check(len(bad) == 0, "variants-never-dropped", "cache.HTTPResponse", "cache/http_response.go", fmt.Sprintf("%d stores to the gzip/br variants of a response, none clears one", n), strings.Join(uniq(bad), " || "), n)
}

// rulePeriodKept: the marker's default period replaces the configured one only
// when that is <= 0, and the converter hands the configured seconds on as they are.
func rulePeriodKept(c *Ctx) {
	fn := c.P.Method("cache", "httpCache", "HitForPass")
	if fn == nil || len(fn.Params) < 2 {
		c.undecided("period-kept", "httpCache.HitForPass", "-", "not found")
		return
	}
	name, pos := funcName(fn), c.P.pos(fn.Pos())
	prm := &Term{Op: "sym", Name: "p:" + fn.Params[1].Name(), Type: fn.Params[1].Type()}
	n, stores := 0, 0
	bad := []string{}
	sim := c.P.Simulate(fn, SimConfig{}, func(pr *PathResult) {
		n++
		for _, e := range pr.Events {
			if e.Kind != "store" || e.Addr.Op != "fa" || e.Addr.Name != "expiredAt" {
				continue
			}
			stores++
			uses := e.Val.contains(func(x *Term) bool { return x.Key() == prm.Key() })
			if uses {
				continue
			}
			iv := pr.Facts.Interval(prm)
			// the test may have been made on the converted value (int64(ttl) <= 0)
			for _, l := range pr.Conds {
				l.Atom.walk(func(x *Term) bool {
					if x.Op == "conv" && stripConvTerm(x).Key() == prm.Key() {
						if iv2 := pr.Facts.Interval(x); iv2.Hi != nil && (iv.Hi == nil || iv2.Hi.Cmp(iv.Hi) < 0) {
							iv.Hi = iv2.Hi
						}
					}
					return true
				})
			}
			if iv.Hi == nil || iv.Hi.Sign() > 0 {
				bad = append(bad, fmt.Sprintf("the marker's deadline is %s, without the period the caller passed, on a path where that period can be positive (%s): a configured period is replaced by the default and the key is re-probed, with the burst queued behind the probe, long before the configured period ends, on path [%s]", prettyTerm(e.Val), iv, condString(pr.Conds)))
			}
		}
	})
	if sim.Overflow || stores == 0 {
		c.undecided("period-kept", name, pos, "no store of the marker's deadline recognised")
		return
	}
	// the converter: the option's period is the parsed duration in seconds, on every path
	conv := c.P.Func("cache", "convertConfigs")
	fld := c.P.StructField("cache", "DispatcherOption", "HitForPass")
	convStores := 0
	if conv != nil && fld != nil {
		for _, b := range conv.Blocks {
			for _, in := range b.Instrs {
				st, ok := in.(*ssa.Store)
				if !ok {
					continue
				}
				fa, ok := st.Addr.(*ssa.FieldAddr)
				if !ok || fieldOf(fa.X.Type(), fa.Field) != fld {
					continue
				}
				convStores++
				v := stripConv(st.Val)
				if phi, isPhi := v.(*ssa.Phi); isPhi && !phiOfZeroOrParsed(phi) {
					bad = append(bad, fmt.Sprintf("%s: the converter stores a period chosen among several values: a substitute put in here (1 for 'less than a second', say) also replaces the unset period 0, which is what selects the marker's default", c.P.pos(st.Pos())))
				}
				if k, isConst := v.(*ssa.Const); isConst && !isZeroConst(k) {
					bad = append(bad, fmt.Sprintf("%s: the converter stores a constant period", c.P.pos(st.Pos())))
				}
			}
		}
	}
	if convStores == 0 {
		c.undecided("period-kept", name, pos, "the converter's store of the period was not found")
		return
	}
	c.check(len(bad) == 0, "period-kept", name, pos, fmt.Sprintf("%d paths, %d stores of the deadline: the default is used only where the period passed is known to be <= 0; the converter hands on the parsed seconds as they are", n, stores), strings.Join(uniq(bad), " || "), n)
}

// ruleRedisOptionsUnconditional: what the store URL says (db, credentials,
// master) reaches the redis client whatever the other parameters are.
func ruleRedisOptionsUnconditional(c *Ctx) {
	want := map[string]bool{"Addrs": false, "DB": false, "Password": false, "MasterName": false}
	n := 0
	bad := []string{}
	for _, f := range c.P.allFuncs {
		if !inPkg(f, "store") {
			continue
		}
		for _, b := range f.Blocks {
			for _, in := range b.Instrs {
				call, ok := in.(*ssa.Call)
				if !ok {
					continue
				}
				sc := call.Call.StaticCallee()
				if sc == nil || sc.Pkg == nil || !strings.Contains(sc.Pkg.Pkg.Path(), "go-redis") || !strings.HasPrefix(sc.Name(), "New") || len(call.Call.Args) != 1 {
					continue
				}
				al, ok := stripConv(call.Call.Args[0]).(*ssa.Alloc)
				if !ok {
					// options built by a helper of the package: judge them where they are built
					if hc, isCall := stripConv(call.Call.Args[0]).(*ssa.Call); isCall {
						if g := hc.Call.StaticCallee(); g != nil && inPkg(g, "store") && g.Blocks != nil {
							for _, gb := range g.Blocks {
								if ret, isRet := gb.Instrs[len(gb.Instrs)-1].(*ssa.Return); isRet && len(ret.Results) >= 1 {
									if ra, isAlloc := stripConv(ret.Results[0]).(*ssa.Alloc); isAlloc {
										al, ok, b = ra, true, gb
									}
								}
							}
						}
					}
				}
				if !ok {
					continue
				}
				n++
				for _, r := range *al.Referrers() {
					fa, ok := r.(*ssa.FieldAddr)
					if !ok {
						continue
					}
					fv := fieldOf(fa.X.Type(), fa.Field)
					for _, rr := range *fa.Referrers() {
						st, ok := rr.(*ssa.Store)
						if !ok || st.Addr != ssa.Value(fa) {
							continue
						}
						if _, tracked := want[fv.Name()]; tracked {
							want[fv.Name()] = true
						}
						if (fv.Name() == "DB" || fv.Name() == "Addrs") && !(st.Block() == b || st.Block().Dominates(b)) {
							bad = append(bad, fmt.Sprintf("%s: redis option %s is set on some paths only: a store URL that names it is honoured or ignored depending on its other parameters (two deployments kept apart by ?db= on one sentinel-managed redis then share records)", c.P.pos(st.Pos()), fv.Name()))
						}
					}
				}
			}
		}
	}
	if n == 0 {
		c.undecided("redis-options-unconditional", "newRedisStore", "-", "no redis client constructor call with options built on the spot")
		return
	}
	for k, seen := range want {
		if !seen {
			bad = append(bad, "redis option "+k+" is never set from the store URL")
		}
	}
	sort.Strings(bad)
	c.check(len(bad) == 0, "redis-options-unconditional", "newRedisStore", "store/redis.go", "address list, db, password and master name are set on every path that builds the redis client", strings.Join(uniq(bad), " || "), n+len(want))
}

// ruleDecodersWholeInput: the record decoders use no stream decoder that stops
// after the first value (trailing garbage would be accepted).
func ruleDecodersWholeInput(c *Ctx) {
	scope := map[*ssa.Function]bool{}
	for _, typ := range []string{"httpCache", "HTTPResponse"} {
		if f := c.P.Method("cache", typ, "FromBytes"); f != nil {
			for g := range staticScope(f, "cache", 3) {
				scope[g] = true
			}
		}
	}
	if len(scope) < 4 {
		c.undecided("decoders-whole-input", "decoders", "-", "decoders not found")
		return
	}
	n, whole := 0, 0
	bad := []string{}
	for f := range scope {
		for _, b := range f.Blocks {
			for _, in := range b.Instrs {
				ci, ok := in.(ssa.CallInstruction)
				if !ok {
					continue
				}
				sc := ci.Common().StaticCallee()
				if sc == nil || isPike(sc) {
					continue
				}
				n++
				switch sc.String() {
				case "encoding/json.Unmarshal":
					whole++
				case "(*encoding/json.Decoder).Decode", "encoding/json.NewDecoder":
					bad = append(bad, fmt.Sprintf("%s: %s decodes with a json stream decoder, which stops after the first complete value: a header block damaged behind it is accepted, and the record is served as a hit with headers missing instead of being a miss", c.P.pos(in.Pos()), funcName(f)))
				}
			}
		}
	}
	if whole == 0 && len(bad) == 0 {
		c.undecided("decoders-whole-input", "decoders", "-", "the header block's decoder was not recognised")
		return
	}
	sort.Strings(bad)
	c.check(len(bad) == 0, "decoders-whole-input", "decoders", "cache/http_response.go", fmt.Sprintf("%d library calls in the record decoders; the header block is decoded by json.Unmarshal, which rejects trailing bytes", n), strings.Join(uniq(bad), " || "), n)
}

// ruleRequestHeaderWrites: the client's request header is edited by the proxy
// handler (and the location's add-header step it calls) only.
func ruleRequestHeaderWrites(c *Ctx) {
	isReqHeader := func(v ssa.Value) bool {
		u, ok := v.(*ssa.UnOp)
		if !ok {
			return false
		}
		fa, ok := u.X.(*ssa.FieldAddr)
		if !ok {
			return false
		}
		return strings.HasSuffix(fa.X.Type().String(), "net/http.Request") && fieldOf(fa.X.Type(), fa.Field).Name() == "Header"
	}
	proxy := c.P.Func("server", "NewProxy")
	allowedRoot := func(f *ssa.Function) bool {
		for g := f; g != nil; g = g.Parent() {
			if g == proxy {
				return true
			}
		}
		return inPkg(f, "location")
	}
	var origin func(v ssa.Value, f *ssa.Function, d int) (bool, *ssa.Function)
	origin = func(v ssa.Value, f *ssa.Function, d int) (bool, *ssa.Function) {
		if d > 3 {
			return false, nil
		}
		if isReqHeader(v) {
			return true, f
		}
		switch x := v.(type) {
		case *ssa.Phi:
			for _, e := range x.Edges {
				if ok, g := origin(e, f, d+1); ok {
					return ok, g
				}
			}
		case *ssa.Parameter:
			for i, p := range f.Params {
				if p != x {
					continue
				}
				for _, g := range c.P.allFuncs {
					for _, b := range g.Blocks {
						for _, in := range b.Instrs {
							if ci, ok := in.(ssa.CallInstruction); ok && ci.Common().StaticCallee() == f && !ci.Common().IsInvoke() && i < len(ci.Common().Args) {
								if ok, h := origin(ci.Common().Args[i], g, d+1); ok {
									return ok, h
								}
							}
						}
					}
				}
			}
		}
		return false, nil
	}
	n := 0
	bad := []string{}
	for _, f := range c.P.allFuncs {
		for _, b := range f.Blocks {
			for _, in := range b.Instrs {
				var recv ssa.Value
				what := ""
				switch x := in.(type) {
				case ssa.CallInstruction:
					sc := x.Common().StaticCallee()
					if sc == nil || len(x.Common().Args) == 0 {
						continue
					}
					switch sc.String() {
					case "(net/http.Header).Set", "(net/http.Header).Del", "(net/http.Header).Add":
						recv, what = x.Common().Args[0], sc.Name()
					}
				case *ssa.MapUpdate:
					if strings.HasSuffix(x.Map.Type().String(), "net/http.Header") {
						recv, what = x.Map, "map update"
					}
				}
				if recv == nil {
					continue
				}
				isReq, where := origin(recv, f, 0)
				if !isReq {
					continue
				}
				n++
				if !allowedRoot(where) {
					bad = append(bad, fmt.Sprintf("%s: %s edits the client's request header (%s) outside the proxy step: what the negotiation, the fresh check and the key see is no longer what the client sent (a protocol-version test deleting Accept-Encoding makes the version an input of the decision table)", c.P.pos(in.Pos()), funcName(f), what))
				}
			}
		}
	}
	if n < 3 {
		c.undecided("request-header-writes", "pike", "-", fmt.Sprintf("only %d edits of the request header found (expected the proxy's withhold/restore and override)", n))
		return
	}
	sort.Strings(bad)
	c.check(len(bad) == 0, "request-header-writes", "pike", "server/proxy.go", fmt.Sprintf("%d edits of the client's request header, all in the proxy handler or the location step it calls", n), strings.Join(uniq(bad), " || "), n)
}

// ruleRewriteOrdered: the rewriter keeps and walks its rules in a slice (the
// configured order), never in a map.
func ruleRewriteOrdered(c *Ctx) {
	gen := c.P.Func("location", "generateURLRewriter")
	if gen == nil {
		c.undecided("rewrite-ordered", "location.generateURLRewriter", "-", "not found")
		return
	}
	scope := staticScope(gen, "location", 2)
	for _, rf := range returnedFuncs(gen) {
		for f := range staticScope(rf, "location", 2) {
			scope[f] = true
		}
	}
	n := 0
	bad := []string{}
	for f := range scope {
		for _, b := range f.Blocks {
			for _, in := range b.Instrs {
				if r, ok := in.(*ssa.Range); ok {
					n++
					if _, isMap := r.X.Type().Underlying().(*types.Map); isMap {
						bad = append(bad, fmt.Sprintf("%s: %s walks a map: the order is random on every call, so rules whose result depends on the configured order (and chained rules) rewrite one path differently from request to request", c.P.pos(r.Pos()), funcName(f)))
					}
				}
				if _, ok := in.(*ssa.Next); ok {
					n++
				}
				if ia, ok := in.(*ssa.IndexAddr); ok {
					_ = ia
					n++
				}
			}
		}
	}
	if n == 0 {
		c.undecided("rewrite-ordered", funcName(gen), c.P.pos(gen.Pos()), "no loop over the rules found")
		return
	}
	sort.Strings(bad)
	c.check(len(bad) == 0, "rewrite-ordered", funcName(gen), c.P.pos(gen.Pos()), "the rules are kept and applied in a slice, in the configured order (no map iteration)", strings.Join(uniq(bad), " || "), n)
}

// ruleStatusListSizedBySource: a list written back into the configuration by
// the admin view is allocated with the length of the list it replaces.
func ruleStatusListSizedBySource(c *Ctx) {
	n := 0
	bad := []string{}
	for _, f := range c.P.allFuncs {
		if !inPkg(f, "server") {
			continue
		}
		for _, b := range f.Blocks {
			for _, in := range b.Instrs {
				ms, ok := in.(*ssa.MakeSlice)
				if !ok {
					continue
				}
				sl, ok := ms.Type().Underlying().(*types.Slice)
				if !ok {
					continue
				}
				nt, ok := sl.Elem().(*types.Named)
				if !ok || nt.Obj().Pkg() == nil || nt.Obj().Pkg().Path() != pkgPath("config") {
					continue
				}
				// where is it stored
				var dest *types.Var
				var walk func(v ssa.Value, d int)
				walk = func(v ssa.Value, d int) {
					if d > 3 || v.Referrers() == nil {
						return
					}
					for _, r := range *v.Referrers() {
						switch x := r.(type) {
						case *ssa.Store:
							if x.Val == v {
								if fa, ok := x.Addr.(*ssa.FieldAddr); ok {
									dest = fieldOf(fa.X.Type(), fa.Field)
								}
							}
						case *ssa.Phi:
							walk(x, d+1)
						case *ssa.Slice:
							walk(x, d+1)
						}
					}
				}
				walk(ms, 0)
				if dest == nil {
					continue
				}
				n++
				srcOK := false
				if call, ok := ms.Len.(*ssa.Call); ok {
					if bi, ok := call.Call.Value.(*ssa.Builtin); ok && bi.Name() == "len" {
						if fv := configFieldOf(call.Call.Args[0], 0); fv == dest {
							srcOK = true
						}
					}
				}
				if !srcOK {
					bad = append(bad, fmt.Sprintf("%s: %s allocates the replacement for the configuration's %s with a length that is not len() of that list: read back through the admin API the list has phantom empty entries, or filling it indexes past its end (after the save has already been written)", c.P.pos(ms.Pos()), funcName(f), dest.Name()))
				}
			}
		}
	}
	if n == 0 {
		c.undecided("annotated-list-sized-by-source", "server/admin.go", "-", "no list of configuration entries is rebuilt in package server")
		return
	}
	sort.Strings(bad)
	c.check(len(bad) == 0, "annotated-list-sized-by-source", "server/admin.go", "server/admin.go", fmt.Sprintf("%d lists of configuration entries rebuilt by the admin view, each allocated with the length of the list it replaces", n), strings.Join(uniq(bad), " || "), n)
}

// ruleProxyErrors5xx: every error the proxy step makes up itself carries a 5xx status.
func ruleProxyErrors5xx(c *Ctx) {
	proxy := c.P.Func("server", "NewProxy")
	if proxy == nil {
		c.undecided("proxy-errors-5xx", "server.NewProxy", "-", "not found")
		return
	}
	scope := pikeScope([]*ssa.Function{proxy}, 3)
	n := 0
	bad := []string{}
	check := func(f *ssa.Function, in ssa.Instruction, code ssa.Value) {
		k, ok := code.(*ssa.Const)
		if !ok || k.Value == nil || k.Value.Kind() != constant.Int {
			return
		}
		n++
		v, _ := constant.Int64Val(k.Value)
		if v < 500 || v > 599 {
			bad = append(bad, fmt.Sprintf("%s: %s makes up an error with status %d in the proxy step: a failure to reach any healthy upstream (whose error wraps no cause, so it compares equal to a nil context error) is reported to the client as a %dxx instead of a 5xx", c.P.pos(in.Pos()), funcName(f), v, v/100))
		}
	}
	for f := range scope {
		if !inPkg(f, "server") {
			continue
		}
		for _, b := range f.Blocks {
			for _, in := range b.Instrs {
				ci, ok := in.(ssa.CallInstruction)
				if !ok {
					continue
				}
				sc := ci.Common().StaticCallee()
				if sc == nil {
					continue
				}
				if inPkg(sc, "util") && sc.Name() == "NewError" && len(ci.Common().Args) == 2 {
					check(f, in, ci.Common().Args[1])
				}
				if sc.Pkg != nil && strings.HasSuffix(sc.Pkg.Pkg.Path(), "vicanso/hes") && strings.Contains(sc.Name(), "StatusCode") && len(ci.Common().Args) >= 2 {
					check(f, in, ci.Common().Args[1])
				}
			}
		}
	}
	if n == 0 {
		c.undecided("proxy-errors-5xx", funcName(proxy), c.P.pos(proxy.Pos()), "the proxy step makes up no error with a constant status (expected the timeout translation)")
		return
	}
	sort.Strings(bad)
	c.check(len(bad) == 0, "proxy-errors-5xx", funcName(proxy), c.P.pos(proxy.Pos()), fmt.Sprintf("%d errors made up in the proxy step, all with a 5xx status", n), strings.Join(uniq(bad), " || "), n)
}

// phiOfZeroOrParsed: every incoming value is the constant 0 ("not set": the
// marker's default applies) or a computed value; no other constant is put in.
func phiOfZeroOrParsed(phi *ssa.Phi) bool {
	for _, e := range phi.Edges {
		e = stripConv(e)
		if k, ok := e.(*ssa.Const); ok {
			if !isZeroConst(k) {
				return false
			}
			continue
		}
		if p2, ok := e.(*ssa.Phi); ok && p2 != phi {
			if !phiOfZeroOrParsed(p2) {
				return false
			}
		}
	}
	return true
}

// ---------------------------------------------------------------- round 18

// ruleResetDoesNotWait: a registry reset waits for nothing (closing a removed
// server takes the graceful delay; the update behind it must not stall).
func ruleResetDoesNotWait(c *Ctx) {
	regs := []struct{ pkg, typ, method string }{
		{"cache", "dispatchers", "Reset"}, {"upstream", "upstreamServers", "Reset"}, {"server", "servers", "Reset"},
		{"compress", "compressSrvs", "Reset"}, {"location", "Locations", "Set"},
	}
	n := 0
	bad := []string{}
	for _, r := range regs {
		fn := c.P.Method(r.pkg, r.typ, r.method)
		if fn == nil {
			continue
		}
		n++
		for g := range staticScope(fn, r.pkg, 2) {
			if g.Parent() != nil {
				// a literal started with `go` may wait; one run in place may not
				started := false
				for _, in := range *referrersOfFunc(g) {
					if _, isGo := in.(*ssa.Go); isGo {
						started = true
					}
				}
				if started {
					continue
				}
			}
			for _, b := range g.Blocks {
				for _, in := range b.Instrs {
					switch x := in.(type) {
					case *ssa.Call:
						if sc := x.Call.StaticCallee(); sc != nil {
							switch sc.String() {
							case "(*sync.WaitGroup).Wait", "time.Sleep", "(*golang.org/x/sync/errgroup.Group).Wait":
								bad = append(bad, fmt.Sprintf("%s: %s waits (%s) in the middle of a reset: closing a removed server takes the graceful delay, and until then the surviving servers are not updated and new ones not registered although the locations, upstreams and caches they name have already been replaced", c.P.pos(x.Pos()), funcName(g), sc.Name()))
							}
						}
					case *ssa.UnOp:
						if x.Op.String() == "<-" {
							bad = append(bad, fmt.Sprintf("%s: %s blocks on a channel receive in the middle of a reset", c.P.pos(x.Pos()), funcName(g)))
						}
					}
				}
			}
		}
	}
	if n < 4 {
		c.undecided("reset-does-not-wait", "registries", "-", fmt.Sprintf("only %d resets found", n))
		return
	}
	sort.Strings(bad)
	c.check(len(bad) == 0, "reset-does-not-wait", "registries", "server/server.go", fmt.Sprintf("%d registry resets: none waits on a WaitGroup, a timer or a channel outside a goroutine it starts", n), strings.Join(uniq(bad), " || "), n)
}

// ruleDecodersNoPostFilter: a stream decoder reports only what its library
// reported: no error of its own is added behind the library call.
func ruleDecodersNoPostFilter(c *Ctx) {
	n := 0
	bad := []string{}
	var fromLibrary func(v ssa.Value, d int) bool
	fromLibrary = func(v ssa.Value, d int) bool {
		if d > 4 {
			return false
		}
		switch x := v.(type) {
		case *ssa.Const:
			return x.Value == nil
		case *ssa.Extract:
			if call, ok := x.Tuple.(*ssa.Call); ok {
				sc := call.Call.StaticCallee()
				return call.Call.IsInvoke() || sc == nil || !isPike(sc) || (inPkg(sc, "compress") && strings.HasPrefix(sc.Name(), "do"))
			}
		case *ssa.Call:
			sc := x.Call.StaticCallee()
			if x.Call.IsInvoke() {
				return true
			}
			if sc != nil && (sc.String() == "errors.New" || sc.String() == "fmt.Errorf") {
				return false
			}
			return sc == nil || !isPike(sc) || (inPkg(sc, "compress") && strings.HasPrefix(sc.Name(), "do"))
		case *ssa.Phi:
			for _, e := range x.Edges {
				if !fromLibrary(e, d+1) {
					return false
				}
			}
			return true
		case *ssa.UnOp:
			if al, ok := x.X.(*ssa.Alloc); ok {
				// a named result: every store into it
				for _, r := range *al.Referrers() {
					if st, ok := r.(*ssa.Store); ok && st.Addr == ssa.Value(al) {
						if !fromLibrary(st.Val, d+1) {
							return false
						}
					}
				}
				return true
			}
			return false
		}
		return false
	}
	for _, f := range c.P.allFuncs {
		if !inPkg(f, "compress") || f.Parent() != nil {
			continue
		}
		nm := f.Name()
		if !(strings.HasPrefix(nm, "do") && (strings.HasSuffix(nm, "Decode") || nm == "doGunzip")) {
			continue
		}
		n++
		for _, b := range f.Blocks {
			ret, ok := b.Instrs[len(b.Instrs)-1].(*ssa.Return)
			if !ok || len(ret.Results) == 0 {
				continue
			}
			ev := ret.Results[len(ret.Results)-1]
			if !fromLibrary(ev, 0) {
				bad = append(bad, fmt.Sprintf("%s: %s returns an error of its own (%s) next to what the codec library reports: a stream the library decodes (several concatenated frames, say, whose first header states its own size) is rejected", c.P.pos(ret.Pos()), funcName(f), ev.String()))
			}
		}
	}
	if n < 4 {
		c.undecided("decoders-no-post-filter", "compress", "-", fmt.Sprintf("only %d stream decoders found", n))
		return
	}
	sort.Strings(bad)
	c.check(len(bad) == 0, "decoders-no-post-filter", "compress", "compress/compress.go", fmt.Sprintf("%d stream decoders: every error they return is the codec library's", n), strings.Join(uniq(bad), " || "), n)
}

// ruleValidateEveryServer: no iteration of Validate's loop over the servers
// comes round without having run a reference check.
func ruleValidateEveryServer(c *Ctx) {
	fn := c.P.Method("config", "PikeConfig", "Validate")
	if fn == nil {
		c.undecided("validate-every-server", "PikeConfig.Validate", "-", "not found")
		return
	}
	name, pos := funcName(fn), c.P.pos(fn.Pos())
	srv := c.P.StructField("config", "PikeConfig", "Servers")
	n := 0
	bad := []string{}
	scopeFns := []*ssa.Function{}
	for g := range staticScope(fn, "config", 2) {
		if g.Parent() == nil {
			scopeFns = append(scopeFns, g)
		}
	}
	sort.Slice(scopeFns, func(i, j int) bool { return scopeFns[i].Pos() < scopeFns[j].Pos() })
	for _, g := range scopeFns {
		isHeader := func(b *ssa.BasicBlock) bool {
			for _, p := range b.Preds {
				if b.Dominates(p) {
					return true
				}
			}
			return false
		}
		for _, h := range g.Blocks {
			if !isHeader(h) {
				continue
			}
			// the loop over c.Servers: its header (or the block in front) reads the Servers field
			overServers := false
			for _, b := range g.Blocks {
				if !(b == h || (b.Dominates(h) && len(b.Succs) == 1 && b.Succs[0] == h)) {
					continue
				}
				for _, in := range b.Instrs {
					if u, ok := in.(*ssa.UnOp); ok {
						if fa, ok := u.X.(*ssa.FieldAddr); ok && fieldOf(fa.X.Type(), fa.Field) == srv {
							overServers = true
						}
					}
					if fa, ok := in.(*ssa.FieldAddr); ok && fieldOf(fa.X.Type(), fa.Field) == srv {
						overServers = true
					}
				}
			}
			if !overServers {
				continue
			}
			n++
			inLoopOf := func(b *ssa.BasicBlock) bool {
				return h.Dominates(b) && reaches(b, h, map[*ssa.BasicBlock]bool{})
			}
			// check sites: headers of loops nested in this one, and calls of config helpers
			site := map[*ssa.BasicBlock]bool{}
			for _, b := range g.Blocks {
				if b == h || !inLoopOf(b) {
					continue
				}
				if isHeader(b) {
					site[b] = true
				}
				for _, in := range b.Instrs {
					if ci, ok := in.(ssa.CallInstruction); ok {
						if sc := ci.Common().StaticCallee(); sc != nil && inPkg(sc, "config") {
							site[b] = true
						}
					}
				}
			}
			if len(site) == 0 {
				continue
			}
			skipped := false
			seen := map[*ssa.BasicBlock]bool{}
			var dfs func(b *ssa.BasicBlock)
			dfs = func(b *ssa.BasicBlock) {
				if skipped || seen[b] || site[b] || !inLoopOf(b) {
					return
				}
				seen[b] = true
				for _, s := range b.Succs {
					if s == h {
						skipped = true
						return
					}
					dfs(s)
				}
			}
			for _, s := range h.Succs {
				if s != h && inLoopOf(s) {
					dfs(s)
				}
			}
			if skipped {
				bad = append(bad, fmt.Sprintf("%s: an iteration of the loop over the servers can come round without running any reference check: a server entry that is skipped (a second entry for an address already seen, say) is accepted with dangling references, and it is the entry applied last that counts", c.P.pos(h.Instrs[0].Pos())))
			}
		}
	}
	if n == 0 {
		c.undecided("validate-every-server", name, pos, "the loop over the servers was not recognised")
		return
	}
	c.check(len(bad) == 0, "validate-every-server", name, pos, fmt.Sprintf("%d loop over the servers: every iteration runs its reference checks", n), strings.Join(uniq(bad), " || "), n)
}
