package main

// Rules added after held-out round 10.

import (
	"fmt"
	"go/constant"
	"go/token"
	"go/types"
	"strings"

	"golang.org/x/tools/go/ssa"
)

// fnMayReturnNil: fn has a pointer result and some return hands out a nil
// constant, directly or through a pike function it forwards to.
func fnMayReturnNil(p *Program, fn *ssa.Function, seen map[*ssa.Function]bool) bool {
	if fn == nil || fn.Blocks == nil || seen[fn] {
		return false
	}
	seen[fn] = true
	res := fn.Signature.Results()
	if res.Len() != 1 {
		return false
	}
	if _, ok := res.At(0).Type().Underlying().(*types.Pointer); !ok {
		return false
	}
	// okGuarded: block at is only reached when the comma-ok flag of tuple was true
	okGuarded := func(tuple ssa.Value, at *ssa.BasicBlock) bool {
		for _, r := range *tuple.Referrers() {
			ex, ok := r.(*ssa.Extract)
			if !ok || ex.Index != 1 {
				continue
			}
			for _, u := range *ex.Referrers() {
				iff, ok := u.(*ssa.If)
				if !ok {
					continue
				}
				t, f := iff.Block().Succs[0], iff.Block().Succs[1]
				if (t == at || t.Dominates(at)) && len(t.Preds) == 1 {
					return true
				}
				if !reaches(f, at, map[*ssa.BasicBlock]bool{}) {
					return true
				}
			}
		}
		return false
	}
	var isNilable func(v ssa.Value, at *ssa.BasicBlock, d int) bool
	isNilable = func(v ssa.Value, at *ssa.BasicBlock, d int) bool {
		if d > 6 {
			return false
		}
		switch x := v.(type) {
		case *ssa.Const:
			return x.IsNil()
		case *ssa.Phi:
			for i, e := range x.Edges {
				if isNilable(e, x.Block().Preds[i], d+1) {
					return true
				}
			}
		case *ssa.Call:
			if sc := x.Call.StaticCallee(); sc != nil && isPikeFunc(sc) {
				return fnMayReturnNil(p, sc, seen)
			}
		case *ssa.Extract:
			// v, _ := x.(*T) and v, _ := m[k] give nil when the assertion / lookup fails
			if x.Index == 0 {
				switch t := x.Tuple.(type) {
				case *ssa.TypeAssert:
					return t.CommaOk && !okGuarded(t, at)
				case *ssa.Lookup:
					return t.CommaOk && !okGuarded(t, at)
				}
			}
		case *ssa.Lookup:
			_, isMap := x.X.Type().Underlying().(*types.Map)
			return isMap
		case *ssa.UnOp:
			// a named result spilled to a cell that is only ever assigned on some paths
			if al, ok := x.X.(*ssa.Alloc); ok && x.Op == token.MUL {
				stores := 0
				for _, r := range *al.Referrers() {
					if st, ok := r.(*ssa.Store); ok && st.Addr == ssa.Value(al) {
						stores++
						if (st.Block() == x.Block() || reaches(st.Block(), x.Block(), map[*ssa.BasicBlock]bool{})) && isNilable(st.Val, st.Block(), d+1) {
							return true
						}
					}
				}
				// zero value of the cell reaches a return when an assignment is conditional
				return stores > 0 && !storeDominatesAll(al, x)
			}
		}
		return false
	}
	for _, b := range fn.Blocks {
		if b == fn.Recover {
			continue // the synthetic exit after a recovered panic re-reads the result cell
		}
		for _, in := range b.Instrs {
			if r, ok := in.(*ssa.Return); ok && len(r.Results) == 1 && isNilable(r.Results[0], b, 0) {
				return true
			}
		}
	}
	return false
}

// storeDominatesAll: some store into the cell dominates the load.
func storeDominatesAll(al *ssa.Alloc, load *ssa.UnOp) bool {
	for _, r := range *al.Referrers() {
		if st, ok := r.(*ssa.Store); ok && st.Addr == ssa.Value(al) {
			if st.Block() == load.Block() || st.Block().Dominates(load.Block()) {
				return true
			}
		}
	}
	return false
}

// ruleLookupNilChecked: the result of a registry lookup that can come back nil
// (a cache, upstream or location that a reload removed a moment ago) is tested
// before a method is called on it or a field read through it.
func ruleLookupNilChecked(c *Ctx) {
	nilable := map[*ssa.Function]bool{}
	for _, f := range c.P.allFuncs {
		if f.Parent() != nil || f.Pkg == nil {
			continue
		}
		if f.Signature.Recv() == nil && f.Object() != nil && !f.Object().Exported() {
			continue
		}
		if fnMayReturnNil(c.P, f, map[*ssa.Function]bool{}) {
			nilable[f] = true
		}
	}
	n := 0
	bad := []string{}
	for _, f := range c.P.allFuncs {
		if isTestFixture(f) {
			continue
		}
		for _, b := range f.Blocks {
			for _, in := range b.Instrs {
				call, ok := in.(*ssa.Call)
				if !ok {
					continue
				}
				sc := call.Call.StaticCallee()
				if sc == nil || !nilable[sc] || fnPkg(sc) == fnPkg(f) && sc.Object() != nil && !sc.Object().Exported() {
					continue
				}
				// a lookup made in another package: the caller cannot know the name is still registered
				if fnPkg(sc) == fnPkg(f) {
					continue
				}
				n++
				report := func(use ssa.Instruction) {
					bad = append(bad, fmt.Sprintf("%s: %s uses the result of %s without testing it for nil: the lookup returns nil once the name is gone from the registry (a reload during the request), and the panic skips what follows (a deferred completion never settles the entry)", c.P.pos(use.Pos()), funcName(f), funcName(sc)))
				}
				tests := []ssa.Value{call}
				var cell *ssa.Alloc
				for _, r := range *call.Referrers() {
					if st, ok := r.(*ssa.Store); ok && st.Val == ssa.Value(call) {
						if al, ok := st.Addr.(*ssa.Alloc); ok && singleStore(al) {
							cell = al
						}
					}
				}
				if cell != nil {
					for _, r := range *cell.Referrers() {
						if ld, ok := r.(*ssa.UnOp); ok && ld.Op == token.MUL {
							tests = append(tests, ld)
						}
					}
				}
				for _, tv := range tests {
					for _, use := range derefUses(tv, 0) {
						if !nilGuardedAny(tests, use.Block()) {
							report(use)
						}
					}
				}
				// the variable captured by a function literal (the deferred completion)
				if cell != nil {
					for _, r := range *cell.Referrers() {
						mc, ok := r.(*ssa.MakeClosure)
						if !ok {
							continue
						}
						lit, _ := mc.Fn.(*ssa.Function)
						if lit == nil {
							continue
						}
						for i, b := range mc.Bindings {
							if b != ssa.Value(cell) || i >= len(lit.FreeVars) {
								continue
							}
							inner := []ssa.Value{}
							for _, fr := range *lit.FreeVars[i].Referrers() {
								if ld, ok := fr.(*ssa.UnOp); ok && ld.Op == token.MUL {
									inner = append(inner, ld)
								}
							}
							for _, tv := range inner {
								for _, use := range derefUses(tv, 0) {
									if !nilGuardedAny(tests, mc.Block()) && !nilGuardedAny(inner, use.Block()) {
										report(use)
									}
								}
							}
						}
					}
				}
			}
		}
	}
	if n < 3 {
		c.undecided("lookup-nil-checked", "pike", "-", fmt.Sprintf("only %d cross-package registry lookups found", n))
		return
	}
	c.check(len(bad) == 0, "lookup-nil-checked", "pike", "-", fmt.Sprintf("%d cross-package calls of %d lookups that may return nil: every use through the result is behind a nil test", n, len(nilable)), strings.Join(uniq(bad), " || "), n)
}

func isTestFixture(f *ssa.Function) bool { return false }

// derefUses: instructions that dereference v (method call with v as receiver,
// field address, load), following phis and value copies one step.
func derefUses(v ssa.Value, d int) []ssa.Instruction {
	var out []ssa.Instruction
	refs := v.Referrers()
	if refs == nil || d > 2 {
		return nil
	}
	for _, r := range *refs {
		switch x := r.(type) {
		case *ssa.FieldAddr:
			if x.X == v {
				out = append(out, x)
			}
		case *ssa.UnOp:
			if x.X == v && x.Op == token.MUL {
				out = append(out, x)
			}
		case ssa.CallInstruction:
			cc := x.Common()
			if cc.IsInvoke() {
				continue
			}
			if sc := cc.StaticCallee(); sc != nil && sc.Signature.Recv() != nil && len(cc.Args) > 0 && cc.Args[0] == v {
				if _, isPtr := sc.Signature.Recv().Type().(*types.Pointer); isPtr && receiverDereferenced(sc) {
					out = append(out, x)
				}
			}
		}
	}
	return out
}

// receiverDereferenced: the method reads through its receiver without testing it.
func receiverDereferenced(m *ssa.Function) bool {
	if m.Blocks == nil || len(m.Params) == 0 {
		return true
	}
	recv := m.Params[0]
	for _, r := range *recv.Referrers() {
		switch x := r.(type) {
		case *ssa.BinOp:
			if x.Op == token.EQL || x.Op == token.NEQ {
				return false // tests its receiver for nil itself
			}
		}
	}
	for _, r := range *recv.Referrers() {
		switch r.(type) {
		case *ssa.FieldAddr, *ssa.UnOp:
			return true
		case ssa.CallInstruction:
			return true
		}
	}
	return false
}

func singleStore(al *ssa.Alloc) bool {
	n := 0
	for _, r := range *al.Referrers() {
		if st, ok := r.(*ssa.Store); ok && st.Addr == ssa.Value(al) {
			n++
		}
	}
	return n == 1
}

// nilGuardedAny: block ub is only reached when one of the values (all reads of
// the same variable) was tested and found non-nil.
func nilGuardedAny(vs []ssa.Value, ub *ssa.BasicBlock) bool {
	for _, v := range vs {
		if nilGuarded(v, ub) {
			return true
		}
	}
	return false
}

// nilGuarded: block ub is only reached when v != nil.
func nilGuarded(v ssa.Value, ub *ssa.BasicBlock) bool {
	refs := v.Referrers()
	if refs == nil || ub == nil || ub.Parent() != parentOf(v) {
		return false
	}
	for _, r := range *refs {
		bo, ok := r.(*ssa.BinOp)
		if !ok || (bo.Op != token.EQL && bo.Op != token.NEQ) {
			continue
		}
		other := bo.Y
		if bo.Y == v {
			other = bo.X
		}
		if k, ok := other.(*ssa.Const); !ok || !k.IsNil() {
			continue
		}
		for _, br := range *bo.Referrers() {
			iff, ok := br.(*ssa.If)
			if !ok {
				continue
			}
			nonNil := iff.Block().Succs[0]
			nilSide := iff.Block().Succs[1]
			if bo.Op == token.EQL {
				nonNil, nilSide = nilSide, nonNil
			}
			if (nonNil == ub || nonNil.Dominates(ub)) && len(nonNil.Preds) == 1 {
				return true
			}
			// if v == nil { return }: everything the nil side does not reach
			if !reaches(nilSide, ub, map[*ssa.BasicBlock]bool{}) {
				return true
			}
		}
	}
	return false
}

func reaches(from, to *ssa.BasicBlock, seen map[*ssa.BasicBlock]bool) bool {
	if from == to {
		return true
	}
	if seen[from] {
		return false
	}
	seen[from] = true
	for _, s := range from.Succs {
		if reaches(s, to, seen) {
			return true
		}
	}
	return false
}

// ruleWireConstants: the numbers written into persisted records keep the
// meaning they had in the records already on disk: a store outlives the
// binary (restart after an upgrade, instances sharing a redis).
func ruleWireConstants(c *Ctx) {
	want := map[string]int64{"StatusUnknown": 0, "StatusFetching": 1, "StatusHitForPass": 2, "StatusHit": 3, "StatusPassed": 4}
	pkg := c.P.SSAPkgs[pkgPath("cache")]
	if pkg == nil {
		c.undecided("wire-constants", "cache.Status", "-", "package cache not loaded")
		return
	}
	n := 0
	bad := []string{}
	var pos string
	for name, v := range want {
		m, ok := pkg.Members[name].(*ssa.NamedConst)
		if !ok {
			bad = append(bad, "constant "+name+" no longer exists (records on disk carry its number "+fmt.Sprint(v)+")")
			continue
		}
		n++
		if pos == "" {
			pos = c.P.pos(m.Pos())
		}
		got, exact := constant.Int64Val(m.Value.Value)
		if !exact || got != v {
			bad = append(bad, fmt.Sprintf("%s is %d, but persisted records written so far use %d for it: after a restart on the same store a marker is read back as another state (a hit-for-pass marker is served as a hit)", name, got, v))
		}
	}
	// the status really is what the record starts with
	c.check(len(bad) == 0, "wire-constants", "cache.Status", pos, fmt.Sprintf("%d status constants keep the numbers persisted records carry", n), strings.Join(sortedStrings(bad), " || "), n)
}

func sortedStrings(xs []string) []string {
	out := uniq(xs)
	for i := 1; i < len(out); i++ {
		for j := i; j > 0 && out[j] < out[j-1]; j-- {
			out[j], out[j-1] = out[j-1], out[j]
		}
	}
	return out
}

// ruleSaveUnconditional: saveToStore writes the record whenever a store is
// configured: the only exits without a write are "no store / no key" and a
// failed encoding. (A hit-for-pass marker has no response and must be saved all
// the same.)
func ruleSaveUnconditional(c *Ctx, a *cacheAnchors) {
	fn := a.saveToStore
	if fn == nil {
		c.undecided("save-unconditional", "httpCache.saveToStore", "-", "not found")
		return
	}
	name, pos := funcName(fn), c.P.pos(fn.Pos())
	n, writes := 0, 0
	bad := []string{}
	c.P.Simulate(fn, SimConfig{}, func(pr *PathResult) {
		if pr.Exit != "return" {
			return
		}
		n++
		for _, e := range pr.Events {
			if (e.Kind == "invoke" && e.Method != nil && e.Method.Name() == "Set") || (e.Kind == "call" && e.Callee != nil && e.Callee.Name() == "Set") {
				writes++
				return
			}
		}
		for _, l := range pr.Conds {
			at := l.Atom
			if at.Op != "eq" {
				continue
			}
			x, y := at.Args[0], at.Args[1]
			mentions := func(t *Term, f string) bool {
				return t.contains(func(z *Term) bool { return (z.Op == "fa" || z.Op == "fld") && z.Name == f })
			}
			// store == nil / len(key) == 0, taken
			if l.Pol && y.IsNil() && mentions(x, "store") {
				return
			}
			if l.Pol && mentions(x, "key") && (x.Op == "len" || y.Op == "len") {
				return
			}
			// err != nil after the encoder
			if !l.Pol && y.IsNil() && x.contains(func(z *Term) bool { return z.Op == "ext" || z.Op == "call" || z.Op == "sym" }) && isErrorType(x.Type) {
				return
			}
		}
		bad = append(bad, "returns without writing the record although a store and a key are present, on path ["+condString(pr.Conds)+"]")
	})
	if writes == 0 {
		c.undecided("save-unconditional", name, pos, "no path reaches the store's Set: idiom not recognised")
		return
	}
	c.check(len(bad) == 0, "save-unconditional", name, pos, fmt.Sprintf("%d paths: the record is written unless there is no store, no key or the encoder failed", n), strings.Join(uniq(bad), " || "), n)
}

func isErrorType(t types.Type) bool {
	if t == nil {
		return false
	}
	return types.Identical(t, types.Universe.Lookup("error").Type())
}

// ruleConfigValueVerbatim: a configured header / query value reaches the
// location as written; only a value that starts with '$' is looked up in the
// environment (the documented form).
func ruleConfigValueVerbatim(c *Ctx) {
	conv := c.P.Func("location", "convertConfigs")
	if conv == nil {
		c.undecided("config-value-verbatim", "location.convertConfigs", "-", "not found")
		return
	}
	n := 0
	bad := []string{}
	for f := range staticScope(conv, "location", 3) {
		for _, b := range f.Blocks {
			for _, in := range b.Instrs {
				call, ok := in.(*ssa.Call)
				if !ok {
					continue
				}
				sc := call.Call.StaticCallee()
				if sc == nil || sc.Pkg == nil || sc.Pkg.Pkg.Path() != "os" {
					continue
				}
				n++
				switch sc.Name() {
				case "Getenv", "LookupEnv":
					// the argument is the value minus its leading '$', under HasPrefix(value, "$")
					if !guardedByDollarPrefix(c.P, call) {
						bad = append(bad, fmt.Sprintf("%s: %s looks a configured value up in the environment without it starting with '$'", c.P.pos(call.Pos()), funcName(f)))
					}
				default:
					bad = append(bad, fmt.Sprintf("%s: %s passes a configured value through os.%s: a literal value containing '$' elsewhere is rewritten, so the upstream (or client) does not get the configured header / query value", c.P.pos(call.Pos()), funcName(f), sc.Name()))
				}
			}
		}
	}
	if n == 0 {
		// no environment expansion at all: values are used as written
		c.ok("config-value-verbatim", funcName(conv), c.P.pos(conv.Pos()), "configured values are used as written (no environment lookup)", 1)
		return
	}
	c.check(len(bad) == 0, "config-value-verbatim", funcName(conv), c.P.pos(conv.Pos()), fmt.Sprintf("%d environment lookups, each only for a value that starts with '$'", n), strings.Join(uniq(bad), " || "), n)
}

// guardedByDollarPrefix: on every path of the enclosing function that makes
// the call, a taken branch established that a string starts with '$'
// (strings.HasPrefix(x, "$") or x[0] == '$').
func guardedByDollarPrefix(p *Program, call *ssa.Call) bool {
	fn := call.Parent()
	ok, seen := true, false
	sim := p.Simulate(fn, SimConfig{Inline: func(*ssa.Function, int) bool { return false }}, func(pr *PathResult) {
		for _, e := range pr.Events {
			if e.Kind != "call" || e.Instr != ssa.Instruction(call) {
				continue
			}
			seen = true
			guarded := false
			for _, l := range pr.Conds[:minInt(e.NConds, len(pr.Conds))] {
				if !l.Pol {
					continue
				}
				at := l.Atom
				if at.Op == "call" && at.Fn != nil && at.Fn.String() == "strings.HasPrefix" && len(at.Args) == 2 {
					if v, isStr := at.Args[1].StrVal(); isStr && v == "$" {
						guarded = true
					}
				}
				if at.Op == "eq" && len(at.Args) == 2 {
					for k := 0; k < 2; k++ {
						if v, isInt := at.Args[k].IntVal(); isInt && v == '$' && at.Args[1-k].Op == "idx" && isZeroInt(at.Args[1-k].Args[1]) {
							guarded = true
						}
					}
				}
			}
			if !guarded {
				ok = false
			}
		}
	})
	return ok && seen && !sim.Overflow
}

func minInt(a, b int) int {
	if a < b {
		return a
	}
	return b
}

// ruleAnnotatePreserves: the admin handler that annotates a configuration with
// live status writes whole entries back only as copies of the entries they
// replace (every persisted field kept).
func ruleAnnotatePreserves(c *Ctx) {
	n := 0
	bad := []string{}
	for _, f := range c.P.allFuncs {
		if !inPkg(f, "server") {
			continue
		}
		takesConfig := false
		root := f
		for root.Parent() != nil {
			root = root.Parent()
		}
		for _, p := range root.Params {
			if pt, ok := p.Type().(*types.Pointer); ok {
				if nt, ok := pt.Elem().(*types.Named); ok && nt.Obj().Pkg() != nil && nt.Obj().Pkg().Path() == pkgPath("config") {
					takesConfig = true
				}
			}
		}
		if !takesConfig {
			continue
		}
		for _, b := range f.Blocks {
			for _, in := range b.Instrs {
				st, ok := in.(*ssa.Store)
				if !ok {
					continue
				}
				nt, ok := st.Val.Type().(*types.Named)
				if !ok || nt.Obj().Pkg() == nil || nt.Obj().Pkg().Path() != pkgPath("config") {
					continue
				}
				sty, ok := nt.Underlying().(*types.Struct)
				if !ok {
					continue
				}
				if _, isIdx := st.Addr.(*ssa.IndexAddr); !isIdx {
					if _, isFA := st.Addr.(*ssa.FieldAddr); !isFA {
						continue
					}
				}
				n++
				// the value: a load of a local cell
				ld, ok := st.Val.(*ssa.UnOp)
				if !ok {
					continue
				}
				al, ok := ld.X.(*ssa.Alloc)
				if !ok {
					continue // a load of another configuration entry: a copy
				}
				copied := false
				set := map[int]bool{}
				for _, r := range *al.Referrers() {
					switch x := r.(type) {
					case *ssa.Store:
						if x.Addr == ssa.Value(al) {
							copied = true
						}
					case *ssa.FieldAddr:
						set[x.Field] = true
					}
				}
				if copied {
					continue
				}
				missing := []string{}
				for i := 0; i < sty.NumFields(); i++ {
					if !set[i] {
						missing = append(missing, sty.Field(i).Name())
					}
				}
				if len(missing) > 0 {
					bad = append(bad, fmt.Sprintf("%s: %s rebuilds a %s entry of the configuration from scratch and leaves out %s: the configuration read back through the admin API is not the one saved, and the next save persists the loss", c.P.pos(st.Pos()), funcName(f), nt.Obj().Name(), strings.Join(missing, ", ")))
				}
			}
		}
	}
	// a list written back into the configuration has an element for every element it replaces: every iteration
	// of the loop that fills it writes one (no `continue` in front of the write)
	for _, f := range c.P.allFuncs {
		if !inPkg(f, "server") {
			continue
		}
		for _, b := range f.Blocks {
			for _, in := range b.Instrs {
				st, ok := in.(*ssa.Store)
				if !ok {
					continue
				}
				fa, ok := st.Addr.(*ssa.FieldAddr)
				if !ok {
					continue
				}
				fv := faField(fa)
				if fv.Pkg() == nil || fv.Pkg().Path() != pkgPath("config") {
					continue
				}
				if _, isSlice := fv.Type().Underlying().(*types.Slice); !isSlice {
					continue
				}
				// the slice value and everything it was built from
				alias := map[ssa.Value]bool{}
				var grow func(v ssa.Value, d int)
				grow = func(v ssa.Value, d int) {
					if d > 8 || alias[v] {
						return
					}
					alias[v] = true
					switch x := v.(type) {
					case *ssa.Phi:
						for _, e := range x.Edges {
							grow(e, d+1)
						}
					case *ssa.Call:
						if bi, ok := x.Call.Value.(*ssa.Builtin); ok && bi.Name() == "append" {
							grow(x.Call.Args[0], d+1)
						}
					case *ssa.Slice:
						grow(x.X, d+1)
					}
				}
				grow(st.Val, 0)
				var writes []*ssa.BasicBlock
				for v := range alias {
					if v.Referrers() == nil {
						continue
					}
					for _, r := range *v.Referrers() {
						switch x := r.(type) {
						case *ssa.IndexAddr:
							for _, rr := range *x.Referrers() {
								if s2, ok := rr.(*ssa.Store); ok && s2.Addr == ssa.Value(x) {
									writes = append(writes, s2.Block())
								}
							}
						case *ssa.Call:
							if bi, ok := x.Call.Value.(*ssa.Builtin); ok && bi.Name() == "append" && x.Call.Args[0] == v {
								writes = append(writes, x.Block())
							}
						}
					}
				}
				if len(writes) == 0 {
					continue
				}
				n++
				// the innermost loop around the writes: the closest header that dominates a write and has a back edge
				// from a block the write can reach
				var header *ssa.BasicBlock
				for _, h := range f.Blocks {
					if !isLoopHeader(h) || !(h == writes[0] || h.Dominates(writes[0])) {
						continue
					}
					inLoopOfH := false
					for _, p := range h.Preds {
						if h.Dominates(p) && reaches(writes[0], p, map[*ssa.BasicBlock]bool{h: true}) {
							inLoopOfH = true
						}
					}
					if !inLoopOfH {
						continue
					}
					if header == nil || header.Dominates(h) {
						header = h
					}
				}
				if header == nil {
					continue
				}
				for _, p := range header.Preds {
					if !header.Dominates(p) {
						continue
					}
					covered := false
					for _, w := range writes {
						if w == p || w.Dominates(p) {
							covered = true
						}
					}
					if !covered {
						bad = append(bad, fmt.Sprintf("%s: %s rebuilds the configuration's %s with a loop in which an iteration can finish without writing its element: entries are dropped from what the admin API returns (and from what is saved next)", c.P.pos(p.Instrs[len(p.Instrs)-1].Pos()), funcName(f), fv.Name()))
					}
				}
			}
		}
	}
	if n == 0 {
		c.ok("annotate-preserves", "server", "server/admin.go", "no admin handler writes configuration entries back", 1)
		return
	}
	c.check(len(bad) == 0, "annotate-preserves", "server", "server/admin.go", fmt.Sprintf("%d whole-entry writes into a configuration, each a copy of the entry it replaces", n), strings.Join(uniq(bad), " || "), n)
}

// ruleDecoderStateless: what a record decodes to depends on the record only:
// the decoders keep no memo or other package-level state between calls.
func ruleDecoderStateless(c *Ctx, pkgs map[string]bool) {
	roots := decoderRoots(c.P, pkgs)
	if len(roots) == 0 {
		c.undecided("decoder-stateless", pkgsName(pkgs), "-", "decoders not found")
		return
	}
	n := 0
	bad := []string{}
	seen := map[*ssa.Function]bool{}
	for _, r := range roots {
		for f := range staticScope(r, pkgOfFunc(r), 4) {
			if seen[f] {
				continue
			}
			seen[f] = true
			for _, b := range f.Blocks {
				for _, in := range b.Instrs {
					var ops [8]*ssa.Value
					for _, op := range in.Operands(ops[:0]) {
						g, ok := (*op).(*ssa.Global)
						if !ok || g.Pkg == nil || !strings.HasPrefix(g.Pkg.Pkg.Path(), pkgPath("")) {
							continue
						}
						n++
						if isErrorType(derefType(g.Type())) {
							continue // sentinel errors
						}
						if c.P.constAggregate(g.Object()) != nil {
							continue
						}
						// a variable assigned once by the package initialiser and only loaded here (a compiled default)
						if ld, isLoad := in.(*ssa.UnOp); isLoad && ld.Op == token.MUL && !writtenOutsideInit(c.P, g) {
							continue
						}
						bad = append(bad, fmt.Sprintf("%s: decoder %s uses the package-level variable %s: the outcome of decoding a record then depends on earlier decodes (a record rejected once may be accepted the next time)", c.P.pos(in.Pos()), funcName(f), g.Name()))
					}
				}
			}
		}
	}
	c.check(len(bad) == 0, "decoder-stateless", pkgsName(pkgs), "-", fmt.Sprintf("%d decoder functions use no mutable package-level state (%d references to sentinels / constant tables)", len(seen), n), strings.Join(uniq(bad), " || "), len(seen))
}

func derefType(t types.Type) types.Type {
	if p, ok := t.Underlying().(*types.Pointer); ok {
		return p.Elem()
	}
	return t
}

func writtenOutsideInit(p *Program, g *ssa.Global) bool {
	for _, f := range p.allFuncs {
		if f.Name() == "init" || strings.HasPrefix(f.Name(), "init#") {
			continue
		}
		for _, b := range f.Blocks {
			for _, in := range b.Instrs {
				if st, ok := in.(*ssa.Store); ok && st.Addr == ssa.Value(g) {
					return true
				}
			}
		}
	}
	return false
}

func parentOf(v ssa.Value) *ssa.Function {
	if in, ok := v.(ssa.Instruction); ok {
		return in.Parent()
	}
	return v.Parent()
}

func pkgOfFunc(f *ssa.Function) string {
	if f.Pkg == nil {
		return ""
	}
	p := f.Pkg.Pkg.Path()
	if i := strings.LastIndex(p, "/"); i >= 0 {
		return p[i+1:]
	}
	return p
}

func pkgsName(pkgs map[string]bool) string {
	names := []string{}
	for k := range pkgs {
		names = append(names, k)
	}
	return strings.Join(sortedStrings(names), "+")
}
