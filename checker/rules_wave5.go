package main

// Rules added in answer to the third held-out round of seeded changes.

import (
	"fmt"
	"go/constant"
	"go/token"
	"go/types"
	"sort"
	"strings"

	"golang.org/x/tools/go/analysis"
	"golang.org/x/tools/go/analysis/checker"
	"golang.org/x/tools/go/analysis/passes/copylock"
	"golang.org/x/tools/go/ssa"
)

// factsAt rebuilds the facts that held when event e happened (the branch
// literals taken before it), so that a check made after an access does not
// vouch for it.
func factsAt(p *Program, pr *PathResult, e *Event) *Facts {
	f := newFacts(p.IntBits)
	n := e.NConds
	if n > len(pr.Conds) {
		n = len(pr.Conds)
	}
	for _, l := range pr.Conds[:n] {
		f.Assume(l.Atom, l.Pol)
	}
	return f
}

func decoderRoots(p *Program, pkgs map[string]bool) []*ssa.Function {
	roots := []*ssa.Function{}
	for _, f := range p.allFuncs {
		if f.Parent() != nil {
			continue
		}
		nm := f.Name()
		switch {
		case pkgs["cache"] && inPkg(f, "cache") && (nm == "FromBytes" || nm == "readBytes" || nm == "readUint32ToInt" || nm == "readUint64ToInt64" || nm == "initFromStore"):
			roots = append(roots, f)
		case pkgs["compress"] && inPkg(f, "compress") && (strings.HasSuffix(nm, "Decode") || nm == "Gunzip" || nm == "doGunzip"):
			roots = append(roots, f)
		}
	}
	sort.Slice(roots, func(i, j int) bool { return roots[i].Pos() < roots[j].Pos() })
	return roots
}

// ruleDecoderBounds: in the functions that decode stored records and upstream
// streams, every index into a slice or string, and every fixed-width read through
// encoding/binary's byte-order helpers, is provably inside the data at the point
// where it happens (by the comparisons made before it on that path).
func ruleDecoderBounds(c *Ctx, pkgs map[string]bool) {
	roots := decoderRoots(c.P, pkgs)
	if len(roots) < 4 {
		c.undecided("decoder-bounds", "decoders", "-", fmt.Sprintf("only %d decoder functions found", len(roots)))
		return
	}
	n, sites := 0, 0
	bad := []string{}
	for _, fn := range roots {
		sim := c.P.Simulate(fn, SimConfig{IndexEvents: true, SliceEvents: true, MaxVisits: 2}, func(pr *PathResult) {
			n++
			for _, e := range pr.Events {
				switch {
				case e.Kind == "slicebounds":
					// x[lo:hi] on data: lo must be known non-negative when it is computed by a subtraction
					base, lo := e.Args[0], e.Args[1]
					if hi, ok := e.Args[2].IntVal(); ok && hi > 0 {
						// x[:N] with a constant N on data of unknown length
						sites++
						f := factsAt(c.P, pr, e)
						L := &Term{Op: "len", Type: tInt, Args: []*Term{base}}
						if n2, ok := fixedLenTerm(base); ok && n2 >= hi {
							continue
						}
						if k, short := f.Decide(ltTerm(L, intTerm(hi))); !(k && !short) {
							bad = append(bad, fmt.Sprintf("%s: %s takes the first %d bytes of %s without its length being known to be at least that (shorter input makes the slice expression panic)", c.P.pos(e.Instr.Pos()), funcName(e.Fn), hi, prettyTerm(base)))
						}
						continue
					}
					if lo.Op == "none" || !lo.contains(func(x *Term) bool { return x.Op == "bin" && x.Name == "-" }) {
						continue
					}
					sites++
					f := factsAt(c.P, pr, e)
					if iv := f.Interval(lo); iv.Lo == nil || iv.Lo.Sign() < 0 {
						bad = append(bad, fmt.Sprintf("%s: %s slices %s from %s, which is not known to be non-negative (a value shorter than expected makes the slice expression panic)", c.P.pos(e.Instr.Pos()), funcName(e.Fn), prettyTerm(base), prettyTerm(lo)))
					}
				case e.Kind == "index":
					sites++
					base, idx := e.Args[0], e.Args[1]
					f := factsAt(c.P, pr, e)
					L := &Term{Op: "len", Type: tInt, Args: []*Term{base}}
					if s, ok := base.StrVal(); ok {
						L = intTerm(int64(len(s)))
					}
					k, in := f.Decide(ltTerm(idx, L))
					iv := f.Interval(idx)
					if !(k && in) || iv.Lo == nil || iv.Lo.Sign() < 0 {
						bad = append(bad, fmt.Sprintf("%s: %s reads element %s of %s without that index being known to be inside it (damaged or truncated input makes the decoder panic with index out of range)", c.P.pos(e.Instr.Pos()), funcName(e.Fn), prettyTerm(idx), prettyTerm(base)))
					}
				case e.Kind == "call" && e.Callee != nil && strings.HasPrefix(e.Callee.String(), "(encoding/binary.") && strings.Contains(e.Callee.Name(), "Uint") && !strings.HasPrefix(e.Callee.Name(), "Put") && !strings.HasPrefix(e.Callee.Name(), "Append"):
					sites++
					width := int64(0)
					switch {
					case strings.HasSuffix(e.Callee.Name(), "16"):
						width = 2
					case strings.HasSuffix(e.Callee.Name(), "32"):
						width = 4
					case strings.HasSuffix(e.Callee.Name(), "64"):
						width = 8
					}
					b := e.Args[len(e.Args)-1]
					okW := false
					if b.Op == "call" && b.Fn != nil && b.Fn.String() == "(*bytes.Buffer).Next" {
						// Buffer.Next(n): n bytes when that many remain, which bounded-reads requires to have been checked
						if v, ok := b.Args[1].IntVal(); ok && v >= width {
							okW = true
						}
					}
					if !okW {
						f := factsAt(c.P, pr, e)
						if k, short := f.Decide(ltTerm(&Term{Op: "len", Type: tInt, Args: []*Term{b}}, intTerm(width))); k && !short {
							okW = true
						}
						if n2, ok := fixedLenTerm(b); ok && n2 >= width {
							okW = true
						}
					}
					if !okW && width > 0 {
						bad = append(bad, fmt.Sprintf("%s: %s reads %d bytes with %s from %s without its length being known to be at least %d (a shorter field in a damaged record makes the decoder panic)", c.P.pos(e.Instr.Pos()), funcName(e.Fn), width, e.Callee.Name(), prettyTerm(b), width))
					}
				}
			}
		})
		if sim.Overflow {
			c.undecided("decoder-bounds", funcName(fn), c.P.pos(fn.Pos()), "path enumeration overflow")
		}
	}
	c.check(len(bad) == 0, "decoder-bounds", "decoders", "-", fmt.Sprintf("%d decoder functions, %d paths, %d index / fixed-width reads, each inside the data by the comparisons made before it", len(roots), n, sites), strings.Join(uniq(bad), " || "), n)
}

// fixedLenTerm: a full slice of a fixed-size array.
func fixedLenTerm(t *Term) (int64, bool) {
	if t.Op == "slice" && len(t.Args) == 4 && t.Args[1].Op == "none" && t.Args[2].Op == "none" && t.Args[0].Type != nil {
		if pt, ok := t.Args[0].Type.Underlying().(*types.Pointer); ok {
			if at, ok := pt.Elem().Underlying().(*types.Array); ok {
				return at.Len(), true
			}
		}
	}
	return 0, false
}

// ruleEncodingNames: the content-coding names pike understands are exactly the
// documented wire names, and Decompress dispatches each to its own decoder.
func ruleEncodingNames(c *Ctx) {
	want := map[string]string{"EncodingGzip": "gzip", "EncodingBrotli": "br", "EncodingLZ4": "lz4", "EncodingSnappy": "snz", "EncodingZSTD": "zst"}
	bad := []string{}
	n := 0
	for name, wire := range want {
		k := c.P.Const("compress", name)
		n++
		if k == nil {
			bad = append(bad, "constant compress."+name+" not found")
			continue
		}
		if got := strings.Trim(k.Val().ExactString(), `"`); got != wire {
			bad = append(bad, fmt.Sprintf("compress.%s is %q: an upstream answering with the documented Content-Encoding %q is no longer decoded (and a client is sent a label other tools do not know)", name, got, wire))
		}
	}
	c.check(len(bad) == 0, "encoding-names", "compress", "compress/compress.go", "the five content-coding constants carry the wire names gzip, br, lz4, snz, zst", strings.Join(uniq(bad), " || "), n)
}

// ruleTransportUnbounded: the upstream transport sets no cap on connections per
// origin, so forwarded requests never queue behind one another inside net/http.
func ruleTransportUnbounded(c *Ctx) {
	n, ns := 0, 0
	bad := []string{}
	for _, f := range c.P.allFuncs {
		if !inPkg(f, "upstream") && !inPkg(f, "server") {
			continue
		}
		for _, b := range f.Blocks {
			for _, in := range b.Instrs {
				st, ok := in.(*ssa.Store)
				if !ok {
					continue
				}
				fa, ok := st.Addr.(*ssa.FieldAddr)
				if !ok {
					continue
				}
				pt, ok := fa.X.Type().Underlying().(*types.Pointer)
				if !ok {
					continue
				}
				named, ok := pt.Elem().(*types.Named)
				if !ok || named.Obj().Pkg() == nil {
					continue
				}
				if strings.HasSuffix(named.Obj().Pkg().Path(), "golang.org/x/net/http2") && named.Obj().Name() == "Transport" {
					n++
					if faField(fa).Name() == "StrictMaxConcurrentStreams" {
						if cst, ok := st.Val.(*ssa.Const); !ok || cst.Value == nil || constant.BoolVal(cst.Value) {
							bad = append(bad, fmt.Sprintf("%s: %s makes the h2c transport wait for a free stream (StrictMaxConcurrentStreams): requests beyond the upstream's advertised limit queue behind one another instead of being forwarded at once", c.P.pos(st.Pos()), funcName(f)))
						}
					}
					continue
				}
				if named.Obj().Pkg().Path() != "net/http" {
					continue
				}
				fld := faField(fa).Name()
				nonZero := true
				if cst, ok := st.Val.(*ssa.Const); ok && (cst.Value == nil || (cst.Value.Kind() == constant.Int && cst.Int64() == 0)) {
					nonZero = false
				}
				if named.Obj().Name() == "Server" {
					// the client-facing server: a write or read deadline covers the whole exchange, the upstream fetch
					// and the wait behind another request's fetch included
					ns++
					if nonZero && (fld == "WriteTimeout" || fld == "ReadTimeout") {
						bad = append(bad, fmt.Sprintf("%s: %s sets %s on the client-facing http.Server: the deadline is armed when the request is read and never extended, so a response that takes longer (a slow upstream, a waiter parked behind a fetch, a large body) is cut off instead of delivered", c.P.pos(st.Pos()), funcName(f), fld))
					}
					continue
				}
				if named.Obj().Name() != "Transport" {
					continue
				}
				n++
				if nonZero {
					switch fld {
					case "MaxConnsPerHost":
						bad = append(bad, fmt.Sprintf("%s: %s limits the connections per upstream host (MaxConnsPerHost): requests beyond the cap wait inside net/http for another request to finish, so passed / hit-for-pass requests queue behind one another", c.P.pos(st.Pos()), funcName(f)))
					case "MaxResponseHeaderBytes":
						bad = append(bad, fmt.Sprintf("%s: %s caps the size of upstream response headers (MaxResponseHeaderBytes): a response with larger headers is replaced by pike's own error instead of being delivered", c.P.pos(st.Pos()), funcName(f)))
					case "Proxy":
						bad = append(bad, fmt.Sprintf("%s: %s gives the upstream transport a Proxy function: with HTTP_PROXY set in pike's environment requests go to that forward proxy, not to the server the health-checked pool picked", c.P.pos(st.Pos()), funcName(f)))
					case "ResponseHeaderTimeout":
						bad = append(bad, fmt.Sprintf("%s: %s sets ResponseHeaderTimeout on the upstream transport: an upstream slower than that fails although the location's proxy timeout allows it", c.P.pos(st.Pos()), funcName(f)))
					}
				}
			}
		}
	}
	if n == 0 {
		c.undecided("transport-unbounded", "upstream.newTransport", "-", "no http.Transport field assignments found")
		return
	}
	c.check(len(bad) == 0, "transport-unbounded", "upstream.newTransport", "upstream/upstream.go", fmt.Sprintf("%d http.Transport fields set, none caps connections per host, response header size or header wait; %d http.Server fields set, no read / write deadline over the exchange", n, ns), strings.Join(uniq(bad), " || "), n)
}

// ruleDecoderOptions: the zstd reader is built without options that make it
// refuse valid frames (memory / window limits).
func ruleDecoderOptions(c *Ctx) {
	n := 0
	bad := []string{}
	for _, f := range c.P.allFuncs {
		if !inPkg(f, "compress") {
			continue
		}
		for _, b := range f.Blocks {
			for _, in := range b.Instrs {
				call, ok := in.(*ssa.Call)
				if !ok {
					continue
				}
				sc := call.Call.StaticCallee()
				if sc == nil || sc.Pkg == nil || !strings.Contains(sc.Pkg.Pkg.Path(), "klauspost/compress/zstd") {
					continue
				}
				n++
				switch sc.Name() {
				case "WithDecoderMaxMemory", "WithDecoderMaxWindow":
					bad = append(bad, fmt.Sprintf("%s: %s builds the zstd decoder with %s: valid frames that declare a larger window or size are rejected", c.P.pos(call.Pos()), funcName(f), sc.Name()))
				default:
					// an option whose value is taken from the machine the process runs on: the library
					// rejects some values (concurrency 0), and then every valid stream fails to decode there
					if strings.HasPrefix(sc.Name(), "With") {
						for _, a := range call.Call.Args {
							if src := environmentSource(a, 0); src != "" {
								bad = append(bad, fmt.Sprintf("%s: %s passes %s a value computed from %s: on a host where that value is one the library rejects, every valid stream fails", c.P.pos(call.Pos()), funcName(f), sc.Name(), src))
							}
						}
					}
				}
			}
		}
	}
	if n == 0 {
		c.undecided("decoder-options", "compress", "-", "no zstd calls found")
		return
	}
	c.check(len(bad) == 0, "decoder-options", "compress", "compress/zstd.go", fmt.Sprintf("%d zstd library calls, none restricts which valid frames are accepted", n), strings.Join(uniq(bad), " || "), n)
}

// ruleRewriteWildcards: every wildcard of a configured rewrite rule becomes a
// capture group (the replacement is not limited to the first few).
func ruleRewriteWildcards(c *Ctx) {
	fn := c.P.Func("location", "generateURLRewriter")
	if fn == nil {
		c.undecided("rewrite-wildcards", "location.generateURLRewriter", "-", "not found")
		return
	}
	n := 0
	bad := []string{}
	for f := range staticScope(fn, "location", 2) {
		for _, b := range f.Blocks {
			for _, in := range b.Instrs {
				call, ok := in.(*ssa.Call)
				if !ok {
					continue
				}
				sc := call.Call.StaticCallee()
				if sc == nil {
					continue
				}
				switch sc.String() {
				case "strings.ReplaceAll":
					n++
				case "strings.Replace":
					n++
					cnt, ok := call.Call.Args[3].(*ssa.Const)
					if !ok || cnt.Value == nil || cnt.Int64() >= 0 {
						bad = append(bad, fmt.Sprintf("%s: %s replaces only a limited number of wildcards / tokens of a rewrite rule: a rule with more of them sends a path to the upstream that is not the configured rewrite", c.P.pos(call.Pos()), funcName(f)))
					}
				}
			}
		}
	}
	if n == 0 {
		c.undecided("rewrite-wildcards", funcName(fn), c.P.pos(fn.Pos()), "no strings.Replace found: idiom not recognised")
		return
	}
	c.check(len(bad) == 0, "rewrite-wildcards", funcName(fn), c.P.pos(fn.Pos()), fmt.Sprintf("%d replacements, all unlimited", n), strings.Join(uniq(bad), " || "), n)
}

// ruleLibrarySlices: a slice handed out by the upstream pool (its own server
// list) is never written, resliced for reuse or appended onto by pike.
func ruleLibrarySlices(c *Ctx) {
	n := 0
	bad := []string{}
	for _, f := range c.P.allFuncs {
		if !isPikeFunc(f) {
			continue
		}
		for _, b := range f.Blocks {
			for _, in := range b.Instrs {
				call, ok := in.(*ssa.Call)
				if !ok {
					continue
				}
				sc := call.Call.StaticCallee()
				if sc == nil || sc.Pkg == nil || sc.Pkg.Pkg.Path() != "github.com/vicanso/upstream" {
					continue
				}
				if _, isSlice := call.Type().Underlying().(*types.Slice); !isSlice {
					continue
				}
				n++
				var walk func(v ssa.Value, d int)
				seen := map[ssa.Value]bool{}
				walk = func(v ssa.Value, d int) {
					if seen[v] || d > 4 || v.Referrers() == nil {
						return
					}
					seen[v] = true
					for _, r := range *v.Referrers() {
						switch x := r.(type) {
						case *ssa.Slice:
							walk(x, d+1)
						case *ssa.Phi:
							walk(x, d+1)
						case *ssa.IndexAddr:
							for _, r2 := range *x.Referrers() {
								if st, ok := r2.(*ssa.Store); ok && st.Addr == x {
									bad = append(bad, fmt.Sprintf("%s: %s writes into the slice returned by %s (the pool's own server list)", c.P.pos(st.Pos()), funcName(f), sc.Name()))
								}
							}
						case *ssa.Call:
							if bi, ok := x.Call.Value.(*ssa.Builtin); ok && bi.Name() == "append" && len(x.Call.Args) > 0 && x.Call.Args[0] == v {
								bad = append(bad, fmt.Sprintf("%s: %s appends onto (a reslice of) the slice returned by %s: the pool's own server list is overwritten in place", c.P.pos(x.Pos()), funcName(f), sc.Name()))
							}
						}
					}
				}
				walk(call, 0)
			}
		}
	}
	if n == 0 {
		c.undecided("library-slices-read-only", "upstream", "-", "no slice-returning calls into the upstream library found")
		return
	}
	c.check(len(bad) == 0, "library-slices-read-only", "upstream", "upstream/upstream.go", fmt.Sprintf("%d slices obtained from the upstream pool, none written or appended onto", n), strings.Join(uniq(bad), " || "), n)
}

// ruleLocksNotCopied runs the copylock analysis of golang.org/x/tools over pike's
// packages: a struct holding a sync.Mutex (shard, entry, server, registry) that
// is copied gets a lock of its own, and the two copies no longer exclude each
// other.
func ruleLocksNotCopied(c *Ctx) {
	run := func(p *Program) (int, []string, error) {
		g, err := checker.Analyze([]*analysis.Analyzer{copylock.Analyzer}, p.Pkgs, nil)
		if err != nil {
			return 0, nil, err
		}
		n := 0
		out := []string{}
		for _, act := range g.Roots {
			n++
			if act.Err != nil {
				return n, nil, act.Err
			}
			for _, d := range act.Diagnostics {
				out = append(out, fmt.Sprintf("%s: %s", p.pos(d.Pos), d.Message))
			}
		}
		return n, out, nil
	}
	n, bad, err := run(c.P)
	if err != nil {
		c.undecided("locks-not-copied", "pike", "-", "copylock analysis failed: "+err.Error())
		return
	}
	if fx := c.fixture(); fx == nil {
		c.undecided("locks-not-copied", "pike", "-", "positive-control fixture could not be loaded")
		return
	} else if _, fb, ferr := run(fx); ferr != nil || len(fb) == 0 {
		c.undecided("locks-not-copied", "pike", "-", "the analysis does not fire on its positive control (checker/fixture/fixturebad.CopyShard)")
		return
	}
	c.check(len(bad) == 0, "locks-not-copied", "pike", "-", fmt.Sprintf("%d packages analysed: no value containing a lock is copied (positive control fires)", n), strings.Join(uniq(bad), " || "), n+1)
}

// keyHelpers: the pike helper functions a store back end's method sends its key
// parameter through before it reaches the client library.
func keyHelpers(fn *ssa.Function) string {
	if len(fn.Params) < 2 {
		return "?"
	}
	seen := map[ssa.Value]bool{}
	names := map[string]bool{}
	var follow func(v ssa.Value, d int)
	follow = func(v ssa.Value, d int) {
		if seen[v] || d > 6 || v.Referrers() == nil {
			return
		}
		seen[v] = true
		for _, r := range *v.Referrers() {
			switch x := r.(type) {
			case *ssa.Convert, *ssa.ChangeType, *ssa.MakeInterface, *ssa.Phi, *ssa.Slice:
				follow(x.(ssa.Value), d+1)
			case *ssa.BinOp:
				if x.Op == token.ADD {
					names["+"] = true
				}
				follow(x, d+1)
			case *ssa.Store:
				if al, ok := x.Addr.(*ssa.Alloc); ok && x.Val == v {
					for _, rr := range *al.Referrers() {
						if ld, ok := rr.(*ssa.UnOp); ok {
							follow(ld, d+1)
						}
						if mc, ok := rr.(*ssa.MakeClosure); ok {
							for bi, bnd := range mc.Bindings {
								if bnd == al {
									for _, r3 := range *mc.Fn.(*ssa.Function).FreeVars[bi].Referrers() {
										if ld, ok := r3.(*ssa.UnOp); ok {
											follow(ld, d+1)
										}
									}
								}
							}
						}
					}
				}
			case *ssa.MakeClosure:
				for bi, bnd := range x.Bindings {
					if bnd == v {
						follow(x.Fn.(*ssa.Function).FreeVars[bi], d+1)
					}
				}
			case ssa.CallInstruction:
				if sc := x.Common().StaticCallee(); sc != nil && sc.Blocks != nil && isPikeFunc(sc) {
					// a helper that hands back a string / []byte derives the address from the key;
					// any other helper merely carries the key on to the client library
					val, isVal := x.(ssa.Value)
					derives := false
					if isVal {
						switch u := val.Type().Underlying().(type) {
						case *types.Basic:
							derives = u.Info()&types.IsString != 0
						case *types.Slice:
							derives = true
						}
					}
					if derives {
						names[sc.Name()] = true
						follow(val, d+1)
					} else {
						for ai, a := range x.Common().Args {
							if a == v && ai < len(sc.Params) {
								follow(sc.Params[ai], d+1)
							}
						}
					}
				}
			}
		}
	}
	follow(fn.Params[1], 0)
	return strings.Join(sortedKeysB(names), ",")
}

// ruleStoreKeyAgreement: Get, Set and Delete of one back end derive the record's
// address from the key in the same way (the same prefixing helper, or none).
func ruleStoreKeyAgreement(c *Ctx) {
	iface := c.P.NamedType("store", "Store")
	if iface == nil {
		c.undecided("store-key-agreement", "store.Store", "-", "interface not found")
		return
	}
	it := iface.Underlying().(*types.Interface)
	per := map[string]map[string]string{}
	for i := 0; i < it.NumMethods(); i++ {
		m := it.Method(i)
		if m.Name() == "Close" {
			continue
		}
		for _, impl := range c.P.implsOf(m) {
			recv := impl.Params[0].Type().String()
			if per[recv] == nil {
				per[recv] = map[string]string{}
			}
			per[recv][m.Name()] = keyHelpers(impl)
		}
	}
	if len(per) < 3 {
		c.undecided("store-key-agreement", "store.Store", "-", fmt.Sprintf("only %d back ends found", len(per)))
		return
	}
	for recv, ms := range per {
		shapes := map[string]bool{}
		for _, m := range []string{"Get", "Set", "Delete"} {
			shapes[ms[m]] = true
		}
		short := recv[strings.LastIndex(recv, ".")+1:]
		c.check(len(shapes) == 1, "store-key-agreement", short, "-", fmt.Sprintf("Get, Set and Delete address the record through the same key derivation [%s]", ms["Get"]),
			fmt.Sprintf("Get derives the record's address via [%s], Set via [%s], Delete via [%s]: what one writes the other does not find (a purge leaves the persisted copy behind / a saved entry is never restored)", ms["Get"], ms["Set"], ms["Delete"]), 3)
	}
}

// ruleStoreCloseOwner: persistent stores are process-wide singletons kept in
// package store's registry (opened once per URL, never re-opened); only that
// package closes them. A store closed elsewhere stays in the registry and is
// handed, closed, to the next cache configured with its URL.
func ruleStoreCloseOwner(c *Ctx) {
	iface := c.P.NamedType("store", "Store")
	if iface == nil {
		c.undecided("store-close-owner", "store.Store", "-", "interface not found")
		return
	}
	n := 0
	bad := []string{}
	for _, f := range c.P.allFuncs {
		for _, b := range f.Blocks {
			for _, in := range b.Instrs {
				ci, ok := in.(ssa.CallInstruction)
				if !ok {
					continue
				}
				cc := ci.Common()
				isClose := false
				if cc.IsInvoke() && cc.Method.Name() == "Close" && types.Identical(cc.Value.Type(), iface) {
					isClose = true
				}
				if sc := cc.StaticCallee(); sc != nil && sc.Name() == "Close" && sc.Signature.Recv() != nil && inPkg(sc, "store") {
					isClose = true
				}
				if !isClose {
					continue
				}
				n++
				if !inPkg(f, "store") {
					bad = append(bad, fmt.Sprintf("%s: %s closes a persistent store; the store stays in package store's registry and the next cache configured with its URL gets the closed instance (every read and write fails from then on)", c.P.pos(in.Pos()), funcName(f)))
				}
			}
		}
	}
	if n == 0 {
		c.undecided("store-close-owner", "store.Store", "-", "no Close call on a store found (package store's own shutdown path was expected)")
		return
	}
	c.check(len(bad) == 0, "store-close-owner", "store.Store", "store/store.go", fmt.Sprintf("%d Close calls on stores, all inside package store", n), strings.Join(uniq(bad), " || "), n)
}

// environmentSource: v is computed from a call into runtime / os (the machine,
// not the data or the configuration).
func environmentSource(v ssa.Value, d int) string {
	if d > 6 {
		return ""
	}
	switch x := v.(type) {
	case *ssa.Call:
		if sc := x.Call.StaticCallee(); sc != nil && sc.Pkg != nil {
			switch sc.Pkg.Pkg.Path() {
			case "runtime", "os":
				return sc.Pkg.Pkg.Path() + "." + sc.Name() + "()"
			}
		}
		for _, a := range x.Call.Args {
			if s := environmentSource(a, d+1); s != "" {
				return s
			}
		}
	case *ssa.BinOp:
		if s := environmentSource(x.X, d+1); s != "" {
			return s
		}
		return environmentSource(x.Y, d+1)
	case *ssa.Convert:
		return environmentSource(x.X, d+1)
	case *ssa.ChangeType:
		return environmentSource(x.X, d+1)
	case *ssa.Phi:
		for _, e := range x.Edges {
			if s := environmentSource(e, d+1); s != "" {
				return s
			}
		}
	}
	return ""
}
