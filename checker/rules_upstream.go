package main

// Rules over package upstream (wiring of github.com/vicanso/upstream) and the
// registries' Reset functions (live reconfiguration).

import (
	"fmt"
	"go/types"
	"strings"

	"golang.org/x/tools/go/ssa"
)

func isFld(t *Term, name string) bool {
	return t != nil && (t.Op == "fld" || (t.Op == "init" && t.Args[0].Op == "fa")) && (t.Name == name || (t.Op == "init" && t.Args[0].Name == name))
}

// fldOwner: the struct (value or address) whose field t reads.
func fldOwner(t *Term) *Term {
	if t.Op == "init" && len(t.Args) == 1 && t.Args[0].Op == "fa" && len(t.Args[0].Args) == 1 {
		return t.Args[0].Args[0]
	}
	return t.Args[0]
}

// ruleUpstreamCtor: NewUpstreamServer registers servers marked backup as backups
// and only those, with their own address; policy and ping come from the option;
// a health check runs before the pool is returned and periodically after.
func ruleUpstreamCtor(c *Ctx) {
	fn := c.P.Func("upstream", "NewUpstreamServer")
	if fn == nil {
		c.undecided("backup-wiring", "NewUpstreamServer", "-", "not found")
		return
	}
	name, pos := funcName(fn), c.P.pos(fn.Pos())
	n, adds := 0, 0
	wiring, life, plumb := []string{}, []string{}, []string{}
	sim := c.P.Simulate(fn, SimConfig{}, func(pr *PathResult) {
		n++
		where := "path [" + condString(pr.Conds) + "]"
		if pr.Exit != "return" || len(pr.Results) != 1 {
			return
		}
		var uh *Term
		backupOf := map[string]*bool{}
		for _, l := range pr.Conds {
			if isFld(l.Atom, "Backup") {
				v := l.Pol
				backupOf[fldOwner(l.Atom).Key()] = &v
			}
		}
		// every configured server is registered: one Add/AddBackup per element the loop visited
		visited := map[string]bool{}
		for _, l := range pr.Conds {
			l.Atom.walk(func(x *Term) bool {
				if x.Op == "ia" && len(x.Args) == 2 && x.Args[0].contains(func(y *Term) bool { return (y.Op == "fa" || y.Op == "fld") && y.Name == "Servers" }) {
					if _, ok := x.Args[1].IntVal(); ok {
						visited[x.Key()] = true
					}
				}
				return true
			})
		}
		registered := map[string]bool{}
		checkAt, goAt, retOK := -1, -1, false
		for i, e := range pr.Events {
			if e.Kind == "dyncall" {
				wiring = append(wiring, "a server is registered through a function value ("+prettyTerm(e.CalleeT)+"): which of Add/AddBackup runs no longer follows each server's own backup flag, on "+where)
			}
			if e.Kind == "call" && e.Callee != nil {
				cn := e.Callee.String()
				switch cn {
				case "(*github.com/vicanso/upstream.HTTP).Add", "(*github.com/vicanso/upstream.HTTP).AddBackup":
					adds++
					uh = e.Args[0]
					addr := e.Args[1]
					if !isFld(addr, "Addr") {
						wiring = append(wiring, "the address registered is "+prettyTerm(addr)+" on "+where)
						continue
					}
					srv := fldOwner(addr)
					registered[srv.Key()] = true
					b := backupOf[srv.Key()]
					if b == nil {
						wiring = append(wiring, "a server is registered without its own backup flag being consulted on "+where)
					} else if *b != strings.HasSuffix(cn, "AddBackup") {
						wiring = append(wiring, fmt.Sprintf("a server with backup=%v is registered through %s on %s", *b, e.Callee.Name(), where))
					}
				case "(*github.com/vicanso/upstream.HTTP).DoHealthCheck":
					checkAt = i
				}
			}
			if e.Kind == "go" && e.Callee != nil && e.Callee.String() == "(*github.com/vicanso/upstream.HTTP).StartHealthCheck" {
				goAt = i
			}
		}
		r := pr.Results[0]
		if r.Op == "alloc" {
			retOK = true
		}
		if checkAt < 0 {
			life = append(life, "the pool is returned without an initial health check: every server is still 'unknown', so each reload answers 503 until the first periodic check, on "+where)
		}
		if goAt < 0 {
			life = append(life, "the periodic health check is not started on "+where)
		}
		if !retOK {
			life = append(life, "the constructor returns "+prettyTerm(r)+" on "+where)
		}
		// plumbing
		pol, ping := false, false
		var httpUp, option *Term
		for _, e := range pr.Events {
			if e.Kind == "store" && e.Addr.Op == "fa" {
				switch e.Addr.Name {
				case "Policy":
					pol = isFld(e.Val, "Policy")
				case "Ping":
					ping = isFld(e.Val, "HealthCheck")
				case "HTTPUpstream":
					httpUp = e.Val
				case "Option":
					option = e.Val
				}
			}
		}
		for k := range visited {
			if !registered[k] {
				wiring = append(wiring, "a configured server ("+k+") is looked at but never registered with the pool (servers are dropped: no traffic share, no fail-over to them) on "+where)
			}
		}
		if !pol || !ping {
			plumb = append(plumb, "the pool's Policy / Ping are not the option's Policy / HealthCheck on "+where)
		}
		if uh != nil && (httpUp == nil || httpUp.Key() != uh.Key()) {
			plumb = append(plumb, "the pool stored in the upstream server is not the one the servers were added to on "+where)
		}
		if option == nil {
			plumb = append(plumb, "the option (AcceptEncoding etc.) is not kept on "+where)
		}
	})
	if sim.Overflow || n == 0 || adds == 0 {
		c.undecided("backup-wiring", name, pos, "idiom not recognised")
		return
	}
	c.check(len(wiring) == 0, "backup-wiring", name, pos, fmt.Sprintf("%d paths: AddBackup(addr) exactly for servers whose own Backup flag is set, Add(addr) otherwise", n), strings.Join(uniq(wiring), " || "), n)
	c.check(len(life) == 0, "health-lifecycle", name, pos, "DoHealthCheck before the pool is returned, go StartHealthCheck", strings.Join(uniq(life), " || "), n)
	c.check(len(plumb) == 0, "policy-plumbing", name, pos, "Policy/Ping from the option, the same pool is stored, the option is kept", strings.Join(uniq(plumb), " || "), n)

	if d := c.P.Method("upstream", "upstreamServer", "Destroy"); d != nil {
		stops := false
		for _, b := range d.Blocks {
			for _, in := range b.Instrs {
				if ci, ok := in.(ssa.CallInstruction); ok {
					if sc := ci.Common().StaticCallee(); sc != nil && sc.Name() == "StopHealthCheck" {
						stops = true
					}
				}
			}
		}
		c.check(stops, "health-lifecycle", funcName(d), c.P.pos(d.Pos()), "Destroy stops the health check", "Destroy does not stop the health check (a goroutine per reload leaks)", 1)
	}
}

// ruleTargetPicker: the proxy target is only what the pool's Next() returned;
// no healthy server is an error with a 5xx status.
func ruleTargetPicker(c *Ctx) {
	fn := returnedClosure(c.P.Func("upstream", "newTargetPicker"))
	if fn == nil {
		c.undecided("picker", "newTargetPicker", "-", "closure not found")
		return
	}
	name, pos := "upstream.newTargetPicker$picker", c.P.pos(fn.Pos())
	n, okP := 0, 0
	bad := []string{}
	c.P.Simulate(fn, SimConfig{}, func(pr *PathResult) {
		n++
		where := "path [" + condString(pr.Conds) + "]"
		if len(pr.Results) != 3 {
			return
		}
		var nx *Event
		for _, e := range pr.Events {
			if e.Kind == "call" && e.Callee != nil && e.Callee.String() == "(*github.com/vicanso/upstream.HTTP).Next" {
				nx = e
			}
		}
		if nx == nil {
			bad = append(bad, "the target does not come from the pool's Next() on "+where)
			return
		}
		up := ext(nx.Result, 0)
		k, isNil := pr.Facts.Decide(eqTerm(up, nilTerm(nil)))
		if !k {
			bad = append(bad, "the pool's answer is not checked for nil on "+where)
			return
		}
		if isNil {
			if pr.Results[2].IsNil() || !pr.Results[0].IsNil() {
				bad = append(bad, "no healthy server, but no error is returned on "+where)
			}
			return
		}
		okP++
		u := pr.Results[0]
		if !(u.Op == "init" && u.Args[0].Op == "fa" && u.Args[0].Name == "URL" && u.Args[0].Args[0].Key() == up.Key()) {
			bad = append(bad, "the target URL is "+prettyTerm(u)+", not the URL of the server the pool returned on "+where)
		}
		if !pr.Results[2].IsNil() {
			bad = append(bad, "an error is returned although a server was picked on "+where)
		}
		// done callback forwarded
		done := ext(nx.Result, 1)
		if k2, dn := pr.Facts.Decide(eqTerm(done, nilTerm(nil))); k2 && !dn {
			if pr.Results[1].IsNil() {
				bad = append(bad, "the pool's done callback (least-connections accounting) is dropped on "+where)
			}
		}
	})
	if okP == 0 {
		c.undecided("picker", name, pos, "idiom not recognised")
		return
	}
	// the error's status code
	if g := c.P.Global("upstream", "ErrUpstreamNotFound"); g != nil {
		code := int64(0)
		if init := c.P.SSAPkgs[pkgPath("upstream")].Func("init"); init != nil {
			for _, b := range init.Blocks {
				for _, in := range b.Instrs {
					if st, ok := in.(*ssa.Store); ok {
						if fa, ok := st.Addr.(*ssa.FieldAddr); ok && fieldOf(fa.X.Type(), fa.Field).Name() == "StatusCode" {
							if cst, ok := st.Val.(*ssa.Const); ok {
								code = cst.Int64()
							}
						}
					}
				}
			}
		}
		if code < 500 || code > 599 {
			bad = append(bad, fmt.Sprintf("the 'no upstream available' error carries status %d, not a 5xx", code))
		}
	}
	c.check(len(bad) == 0, "picker", name, pos, fmt.Sprintf("%d paths: target = URL of the server returned by Next(); nil => non-nil 5xx error; done callback forwarded", n), strings.Join(uniq(bad), " || "), n)
}

// ------------------------------------------------------------ registries

// isMapStore: sync.Map.Store(key, value) event.
func isMapStore(e *Event) bool {
	return e.Kind == "call" && e.Callee != nil && e.Callee.String() == "(*sync.Map).Store"
}

// ruleUpstreamSwap: on every reload each configured upstream gets a freshly
// built pool from that name's options, stored under that name; only instances
// that are no longer in service are destroyed.
func ruleUpstreamSwap(c *Ctx) {
	fn := c.P.Method("upstream", "upstreamServers", "Reset")
	ctor := c.P.Func("upstream", "NewUpstreamServer")
	if fn == nil || ctor == nil {
		c.undecided("upstream-swap", "upstreamServers.Reset", "-", "not found")
		return
	}
	name, pos := funcName(fn), c.P.pos(fn.Pos())
	n, stores := 0, 0
	bad := []string{}
	sim := c.P.Simulate(fn, SimConfig{}, func(pr *PathResult) {
		n++
		where := "path [" + condString(pr.Conds) + "]"
		live := map[string]bool{} // values stored (in service)
		iter := 0
		for _, e := range pr.Events {
			if isMapStore(e) {
				stores++
				iter++
				v := e.Args[2].strip()
				k := e.Args[1].strip()
				if !(v.Op == "call" && v.Fn == ctor) {
					bad = append(bad, "the pool stored on reload is "+prettyTerm(v)+", not one freshly built from the new options: a changed option (e.g. acceptEncoding) or level is silently ignored until restart, on "+where)
				} else {
					opt := v.Args[0]
					if !(isFld(k, "Name") && strings.Contains(opt.Key(), k.Args[0].Key())) && !(isFld(k, "Name")) {
						bad = append(bad, "the pool is stored under "+prettyTerm(k)+", not its own option's name on "+where)
					}
				}
				live[v.Key()] = true
			}
			if e.Kind == "call" && e.Callee != nil && e.Callee.Name() == "Destroy" && inPkg(e.Callee, "upstream") {
				if live[e.Args[0].strip().Key()] {
					bad = append(bad, "Destroy (StopHealthCheck) is applied to the instance that was just put in service: its health state freezes, a dead primary keeps the traffic, on "+where)
				}
			}
		}
		// every iteration over opts stores
		for _, l := range pr.Conds {
			if l.Atom.Op == "lt" && l.Pol && l.Atom.Args[1].Op == "len" && l.Atom.Args[1].Args[0].Op == "sym" && l.Atom.Args[1].Args[0].Name == "p:opts" {
				if iter == 0 {
					bad = append(bad, "an option is iterated without storing a pool for it on "+where)
				}
			}
		}
	})
	if sim.Overflow || stores == 0 {
		c.undecided("upstream-swap", name, pos, "idiom not recognised")
		return
	}
	c.check(len(bad) == 0, "upstream-swap", name, pos, fmt.Sprintf("%d paths: every option gets a pool freshly built by NewUpstreamServer stored under its name; only replaced/removed instances are destroyed", n), strings.Join(uniq(bad), " || "), n)
}

// ruleResetPrunes: each registry's reset drops what is no longer configured.
func ruleResetPrunes(c *Ctx, only ...string) {
	type reg struct {
		pkg, typ, method string
		wholesale        bool
	}
	regs := []reg{
		{"cache", "dispatchers", "Reset", false},
		{"upstream", "upstreamServers", "Reset", false},
		{"server", "servers", "Reset", false},
		{"compress", "compressSrvs", "Reset", false},
		{"location", "Locations", "Set", true},
	}
	for _, r := range regs {
		if len(only) > 0 && !containsStr(only, r.pkg) {
			continue
		}
		fn := c.P.Method(r.pkg, r.typ, r.method)
		if fn == nil {
			c.undecided("reset-prunes", r.pkg+"."+r.typ, "-", "reset function not found")
			continue
		}
		name, pos := funcName(fn), c.P.pos(fn.Pos())
		if r.wholesale {
			// the collection is replaced by one built from the parameter only
			okRepl := false
			c.P.Simulate(fn, SimConfig{}, func(pr *PathResult) {
				for _, e := range pr.Events {
					if e.Kind == "store" && e.Addr.Op == "fa" && e.Addr.Name == "locations" && e.Val.Op == "make" {
						okRepl = true
					}
				}
			})
			c.check(okRepl, "reset-prunes", name, pos, "the collection is replaced wholesale by one built from the new configuration", "the collection is not replaced wholesale", 1)
			continue
		}
		prunes := false
		var pred *ssa.Function
		// in the reset itself or in a helper of its package it hands the work to
		for g := range staticScope(fn, r.pkg, 2) {
			if g.Parent() != nil {
				continue
			}
			for _, b := range g.Blocks {
				for _, in := range b.Instrs {
					if ci, ok := in.(ssa.CallInstruction); ok {
						if sc := ci.Common().StaticCallee(); sc != nil && sc.Name() == "MapDelete" && len(ci.Common().Args) == 2 {
							prunes = true
							if mc, ok := stripConv(ci.Common().Args[1]).(*ssa.MakeClosure); ok {
								pred = mc.Fn.(*ssa.Function)
							}
						}
					}
				}
			}
		}
		if !prunes {
			c.bad("reset-prunes", name, pos, "entries that disappeared from the configuration are never removed (they stay active until restart; an override of a built-in profile survives its removal)", 1)
			continue
		}
		// predicate: delete iff name not in opts
		bad := []string{}
		if pred == nil {
			bad = append(bad, "the delete predicate is not a function literal")
		} else {
			np := 0
			c.P.Simulate(pred, SimConfig{}, func(pr *PathResult) {
				np++
				if len(pr.Results) != 1 {
					return
				}
				matched := false
				for _, l := range pr.Conds {
					if l.Atom.Op == "eq" && l.Pol && (l.Atom.Args[0].Op == "sym" || l.Atom.Args[1].Op == "sym") {
						matched = true
					}
				}
				res := pr.Results[0]
				if res.IsConst() {
					if res.IsTrue() == matched {
						bad = append(bad, fmt.Sprintf("the predicate returns delete=%v for a name that matched=%v", res.IsTrue(), matched))
					}
				} else if k, v := pr.Facts.Decide(res); k {
					if v == matched {
						bad = append(bad, fmt.Sprintf("the predicate returns delete=%v for a name that matched=%v", v, matched))
					}
				} else if nameSetMiss(res) {
					// "not in the set of configured names": the name match itself, by lookup
				} else {
					bad = append(bad, fmt.Sprintf("whether an entry is removed depends on more than its name being among the new options (%s): an entry that is still configured is torn down and rebuilt by an update, which a fresh start never does", prettyTerm(res)))
				}
			})
		}
		// every way through the reset passes the prune: an empty configuration removes everything
		np := 0
		c.P.Simulate(fn, SimConfig{MaxVisits: 2}, func(pr *PathResult) {
			if pr.Exit != "return" {
				return
			}
			np++
			for _, e := range pr.Events {
				if e.Kind == "call" && e.Callee != nil && e.Callee.Name() == "MapDelete" {
					return
				}
			}
			bad = append(bad, "returns without removing the entries that disappeared from the configuration (an empty list must remove all of them) on path ["+condString(pr.Conds)+"]")
		})
		c.check(len(bad) == 0, "reset-prunes", name, pos, fmt.Sprintf("util.MapDelete with the predicate 'name not among the new options', on each of %d paths", np), strings.Join(uniq(bad), " || "), 1+np)
	}
}

// ruleKeepCache: dispatchers.Reset creates a dispatcher only for names that are
// not present, and never replaces a surviving one.
func ruleKeepCache(c *Ctx) {
	fn := c.P.Method("cache", "dispatchers", "Reset")
	if fn == nil {
		c.undecided("keep-surviving-cache", "dispatchers.Reset", "-", "not found")
		return
	}
	name, pos := funcName(fn), c.P.pos(fn.Pos())
	n, stores := 0, 0
	bad := []string{}
	c.P.Simulate(fn, SimConfig{}, func(pr *PathResult) {
		n++
		where := "path [" + condString(pr.Conds) + "]"
		for i, e := range pr.Events {
			if !isMapStore(e) {
				continue
			}
			stores++
			k := e.Args[1].strip()
			// preceded by a Load(k) whose ok is false on this path
			okMiss := false
			for _, e2 := range pr.Events[:i] {
				if e2.Kind == "call" && e2.Callee != nil && e2.Callee.String() == "(*sync.Map).Load" && e2.Args[1].strip().Key() == k.Key() {
					if kk, v := pr.Facts.Decide(ext(e2.Result, 1)); kk && !v {
						okMiss = true
					}
				}
			}
			if !okMiss {
				bad = append(bad, "a dispatcher is stored although the name may already exist: the surviving cache and all its entries are thrown away on every reload, on "+where)
			}
			v := e.Args[2].strip()
			if !(v.Op == "call" && v.Fn != nil && v.Fn.Name() == "NewDispatcher") {
				bad = append(bad, "the value stored is "+prettyTerm(v)+" on "+where)
			}
		}
		// every configured name that is missing gets a dispatcher: misses == stores
		misses, st := 0, 0
		for _, e := range pr.Events {
			if e.Kind == "call" && e.Callee != nil && e.Callee.String() == "(*sync.Map).Load" {
				if kk, v := pr.Facts.Decide(ext(e.Result, 1)); kk && !v {
					misses++
				}
			}
			if isMapStore(e) {
				st++
			}
		}
		if pr.Exit == "return" && st < misses {
			bad = append(bad, fmt.Sprintf("%d configured cache(s) missing from the registry but only %d created: an accepted configuration leaves a server without its cache (503 on every request), on %s", misses, st, where))
		}
	})
	if stores == 0 {
		c.undecided("keep-surviving-cache", name, pos, "idiom not recognised")
		return
	}
	c.check(len(bad) == 0, "keep-surviving-cache", name, pos, fmt.Sprintf("%d paths: NewDispatcher is stored only after Load(name) missed", n), strings.Join(uniq(bad), " || "), n)
}

// ruleCompressReset: every configured profile is replaced by a service freshly
// built from defaults plus the configured levels.
func ruleCompressReset(c *Ctx) {
	fn := c.P.Method("compress", "compressSrvs", "Reset")
	if fn == nil {
		c.undecided("profile-replaced-fresh", "compressSrvs.Reset", "-", "not found")
		return
	}
	name, pos := funcName(fn), c.P.pos(fn.Pos())
	n, stores := 0, 0
	bad := []string{}
	c.P.Simulate(fn, SimConfig{}, func(pr *PathResult) {
		n++
		where := "path [" + condString(pr.Conds) + "]"
		for i, e := range pr.Events {
			if !isMapStore(e) {
				continue
			}
			stores++
			v := e.Args[2].strip()
			if !(v.Op == "call" && v.Fn != nil && v.Fn.Name() == "NewService") {
				bad = append(bad, "the service stored is "+prettyTerm(v)+", not one freshly built from defaults: a level configured earlier and later unset keeps its old value, unlike a fresh start, on "+where)
				continue
			}
			set := false
			for _, e2 := range pr.Events[:i] {
				if e2.Kind == "call" && e2.Callee != nil && e2.Callee.Name() == "SetLevels" && e2.Args[0].Key() == v.Key() && isFld(e2.Args[1], "Levels") {
					set = true
				}
			}
			if !set {
				bad = append(bad, "the configured levels are not applied to the new service on "+where)
			}
			if !isFld(e.Args[1].strip(), "Name") {
				bad = append(bad, "the service is stored under "+prettyTerm(e.Args[1])+" on "+where)
			}
		}
		// every option iterated gets a fresh service stored; existing services are never patched in place
		iters, st := 0, 0
		for _, l := range pr.Conds {
			if l.Atom.Op == "lt" && l.Pol && l.Atom.Args[1].Op == "len" && l.Atom.Args[1].Args[0].Op == "sym" && l.Atom.Args[1].Args[0].Name == "p:opts" {
				iters++
			}
		}
		for _, e := range pr.Events {
			if isMapStore(e) {
				st++
			}
			if e.Kind == "call" && e.Callee != nil && e.Callee.Name() == "SetLevels" && !(e.Args[0].Op == "call" && e.Args[0].Fn != nil && e.Args[0].Fn.Name() == "NewService") {
				bad = append(bad, "levels are patched into an existing service ("+prettyTerm(e.Args[0])+"): SetLevels only overwrites the codings listed, so a level that was configured earlier and is now unset keeps its old value, on "+where)
			}
		}
		if pr.Exit == "return" && st < iters {
			bad = append(bad, fmt.Sprintf("%d option(s) iterated but only %d fresh service(s) stored on %s", iters, st, where))
		}
	})
	if stores == 0 {
		c.undecided("profile-replaced-fresh", name, pos, "idiom not recognised")
		return
	}
	c.check(len(bad) == 0, "profile-replaced-fresh", name, pos, fmt.Sprintf("%d paths: Store(opt.Name, NewService()+SetLevels(opt.Levels))", n), strings.Join(uniq(bad), " || "), n)
}

// ruleServersReset: removed servers are closed; surviving ones are updated in
// place; new ones are constructed.
func ruleServersReset(c *Ctx) {
	fn := c.P.Method("server", "servers", "Reset")
	if fn == nil {
		c.undecided("removed-servers-closed", "servers.Reset", "-", "not found")
		return
	}
	name, pos := funcName(fn), c.P.pos(fn.Pos())
	n := 0
	bad := []string{}
	sawClose, sawUpdate, sawNew := false, false, false
	sim := c.P.Simulate(fn, SimConfig{Inline: orHelpers(fn, inlineNested(fn))}, func(pr *PathResult) {
		n++
		where := "path [" + condString(pr.Conds) + "]"
		for _, e := range pr.Events {
			if (e.Kind == "call" || e.Kind == "go") && e.Callee != nil {
				switch e.Callee.Name() {
				case "Close":
					if inPkg(e.Callee, "server") {
						sawClose = true
					}
				default:
					// go func() { s.Close() }()
					if closeFn := c.P.Method("server", "server", "Close"); e.Kind == "go" && closeFn != nil && callsFunc(e.Callee, closeFn, 2) {
						sawClose = true
					}
				case "Update":
					sawUpdate = true
					if !(e.Args[1].Op == "structval" || e.Args[1].Op == "fld" || e.Args[1].Op == "init" || e.Args[1].Op == "sym") {
						bad = append(bad, "Update is called with "+prettyTerm(e.Args[1])+" on "+where)
					}
				}
			}
			if isMapStore(e) {
				v := e.Args[2].strip()
				if v.Op == "call" && v.Fn != nil && v.Fn.Name() == "NewServer" {
					sawNew = true
				} else {
					bad = append(bad, "the value stored is "+prettyTerm(v)+" on "+where)
				}
			}
		}
	})
	if sim.Overflow {
		c.undecided("removed-servers-closed", name, pos, "path overflow")
		return
	}
	if !sawClose {
		bad = append(bad, "servers removed from the configuration are not closed (they keep listening)")
	}
	if !sawUpdate {
		bad = append(bad, "surviving servers are not updated with the new options")
	}
	if !sawNew {
		bad = append(bad, "new servers are not constructed")
	}
	c.check(len(bad) == 0, "removed-servers-closed", name, pos, fmt.Sprintf("%d paths: pruned servers are closed, surviving ones updated in place, new ones constructed", n), strings.Join(uniq(bad), " || "), n)
}

// ruleCtorUpdateAgree: for every field of server that both NewServer and Update
// assign, the value as a function of the option is the same.
func ruleCtorUpdateAgree(c *Ctx) {
	ctor := c.P.Func("server", "NewServer")
	upd := c.P.Method("server", "server", "Update")
	if ctor == nil || upd == nil {
		c.undecided("ctor-update-agree", "server", "-", "NewServer / Update not found")
		return
	}
	pos := c.P.pos(upd.Pos())
	collect := func(fn *ssa.Function) map[string]map[string]string {
		out := map[string]map[string]string{} // field -> condition-set -> value
		c.P.Simulate(fn, SimConfig{}, func(pr *PathResult) {
			// only conditions over the option matter
			conds := []string{}
			for _, l := range pr.Conds {
				conds = append(conds, l.String())
			}
			ck := strings.Join(conds, " & ")
			for _, e := range pr.Events {
				if e.Kind == "store" && e.Addr.Op == "fa" && e.Addr.Obj != nil && e.Addr.Obj.Pkg() != nil && strings.HasSuffix(e.Addr.Obj.Pkg().Path(), "/server") {
					if out[e.Addr.Name] == nil {
						out[e.Addr.Name] = map[string]string{}
					}
					out[e.Addr.Name][ck] = prettyTerm(e.Val)
				}
			}
		})
		return out
	}
	cv, uv := collect(ctor), collect(upd)
	allow := map[string]string{"mutex": "identity", "logFormat": "documented restart-only", "addr": "identity key of the server"}
	bad := []string{}
	n := 0
	st := c.P.NamedType("server", "server").Underlying().(*types.Struct)
	for i := 0; i < st.NumFields(); i++ {
		f := st.Field(i).Name()
		cvals, inCtor := cv[f]
		uvals, inUpd := uv[f]
		if !inCtor {
			continue // run-time state
		}
		n++
		if !inUpd {
			if _, ok := allow[f]; !ok {
				bad = append(bad, "field "+f+" is configured at construction but never applied by a live update")
			}
			continue
		}
		// compare as sets of (condition, value)
		norm := func(m map[string]string) map[string]bool {
			o := map[string]bool{}
			for k, v := range m {
				o[k+" => "+v] = true
			}
			return o
		}
		a, b := norm(cvals), norm(uvals)
		for k := range a {
			if !b[k] {
				bad = append(bad, fmt.Sprintf("field %s: a fresh start computes [%s] but a live update has no such case (it has %v)", f, k, keysOf(b)))
			}
		}
		for k := range b {
			if !a[k] {
				bad = append(bad, fmt.Sprintf("field %s: a live update computes [%s] but a fresh start does not (it has %v)", f, k, keysOf(a)))
			}
		}
	}
	if n < 5 {
		c.undecided("ctor-update-agree", "server", pos, fmt.Sprintf("only %d configured fields recognised", n))
		return
	}
	c.check(len(bad) == 0, "ctor-update-agree", "server", pos, fmt.Sprintf("%d configured fields: NewServer and Update compute the same value from the option for every field both assign; only logFormat/addr/mutex are construction-only", n), strings.Join(uniq(bad), " || "), n)
}

func keysOf(m map[string]bool) []string {
	out := []string{}
	for k := range m {
		out = append(out, k)
	}
	return uniq(out)
}

// ruleSectionsApplied: main.update applies every configuration section read
// from the configuration just loaded, then starts the servers.
func ruleSectionsApplied(c *Ctx) {
	fn := c.P.Func("", "update")
	if fn == nil {
		c.undecided("sections-applied", "main.update", "-", "not found")
		return
	}
	name, pos := funcName(fn), c.P.pos(fn.Pos())
	want := map[string]string{
		"Compresses": pikeMod + "/compress.Reset",
		"Caches":     pikeMod + "/cache.ResetDispatchers",
		"Upstreams":  pikeMod + "/upstream.Reset*",
		"Locations":  pikeMod + "/location.Reset",
		"Servers":    pikeMod + "/server.Reset",
	}
	n := 0
	bad := []string{}
	c.P.Simulate(fn, SimConfig{}, func(pr *PathResult) {
		n++
		if len(pr.Results) != 1 {
			return
		}
		var read *Event
		for _, e := range pr.Events {
			if e.Kind == "call" && e.Callee != nil && e.Callee.String() == pikeMod+"/config.Read" {
				read = e
			}
		}
		if read == nil {
			bad = append(bad, "the configuration is not read")
			return
		}
		if k, isNil := pr.Facts.Decide(eqTerm(ext(read.Result, 1), nilTerm(nil))); k && !isNil {
			return // read failed
		}
		if k, isNil := pr.Facts.Decide(eqTerm(pr.Results[0], nilTerm(nil))); k && !isNil && !pr.Results[0].IsNil() {
			return // the update reports a failure of its own (nothing is claimed to have been applied)
		}
		applied := map[string]int{}
		order := []string{}
		startAt := -1
		for i, e := range pr.Events {
			if e.Kind != "call" || e.Callee == nil {
				continue
			}
			cn := e.Callee.String()
			for sec, w := range want {
				match := cn == w || (strings.HasSuffix(w, "*") && strings.HasPrefix(cn, strings.TrimSuffix(w, "*")))
				if match {
					arg := e.Args[0]
					if isFld(arg, sec) && arg.contains(func(x *Term) bool { return x.Key() == ext(read.Result, 0).Key() }) {
						applied[sec] = i
						order = append(order, sec)
					} else {
						bad = append(bad, cn+" is fed "+prettyTerm(arg)+", not the "+sec+" of the configuration just read")
					}
				}
			}
			if cn == pikeMod+"/server.Start" {
				startAt = i
			}
		}
		for sec := range want {
			if _, ok := applied[sec]; !ok {
				bad = append(bad, "section "+sec+" is not applied on a live update")
			}
		}
		if startAt < 0 {
			bad = append(bad, "servers are not started after the update")
		} else if startAt < applied["Servers"] {
			bad = append(bad, "servers are started before the server list is reset")
		}
		// what is referred to is in place before what refers to it is published: a location names an upstream,
		// a server names locations, a cache and a compress profile (requests are served while update() runs)
		for _, dep := range [][2]string{{"Upstreams", "Locations"}, {"Locations", "Servers"}, {"Caches", "Servers"}, {"Compresses", "Servers"}} {
			i, ok1 := applied[dep[0]]
			j, ok2 := applied[dep[1]]
			if ok1 && ok2 && j < i {
				bad = append(bad, "the new "+dep[1]+" are published before the "+dep[0]+" they refer to exist: during a reload that introduces a name, requests are answered with pike's own error instead of the upstream's response")
			}
		}
		// locations and upstreams/caches/compress before servers are (re)started
		if strings.Join(order, ",") != "Compresses,Caches,Upstreams,Locations,Servers" {
			c.Notes = append(c.Notes, "sections applied in order "+strings.Join(order, ","))
		}
	})
	c.check(len(bad) == 0 && n > 0, "sections-applied", name, pos, fmt.Sprintf("%d paths: compress, caches, upstreams, locations and servers are each reset from the configuration just read, referenced sections before the sections that name them, then server.Start()", n), strings.Join(uniq(bad), " || "), n)
}

// ruleUpstreamContract (thorough tier, whole-program SSA): re-confirms in the
// pinned dependency github.com/vicanso/upstream the selection contract that the
// wiring rules assume: only servers whose status is healthy are candidates,
// backups are used only when no healthy primary exists, every policy picks from
// that candidate list, and round-robin advances by one per request.
func ruleUpstreamContract(c *Ctx) {
	if !c.P.Whole {
		return
	}
	const dep = "github.com/vicanso/upstream"
	fns := map[string]*ssa.Function{}
	for fn := range ssautilAll(c.P) {
		if fn.Pkg != nil && fn.Pkg.Pkg.Path() == dep {
			fns[fn.Name()] = fn
		}
	}
	need := []string{"getDivideAvailableUpstreamList", "enhanceGetAvailableUpstreamList", "GetAvailableUpstream", "Next", "PolicyFirst", "PolicyRandom", "PolicyRoundRobin", "PolicyLeastconn"}
	for _, n := range need {
		if fns[n] == nil || fns[n].Blocks == nil {
			c.undecided("upstream-contract", dep, "-", "dependency function "+n+" not found in the whole-program SSA")
			return
		}
	}
	bad := []string{}
	n := 0
	// (a) candidates are appended only under status == UpstreamHealthy
	healthy := int64(-1)
	if k, ok := fns["Next"].Pkg.Pkg.Scope().Lookup("UpstreamHealthy").(*types.Const); ok {
		if v, ok2 := constantInt(k); ok2 {
			healthy = v
		}
	}
	div := fns["getDivideAvailableUpstreamList"]
	appends := 0
	for _, b := range div.Blocks {
		for _, in := range b.Instrs {
			call, ok := in.(*ssa.Call)
			if !ok {
				continue
			}
			if bi, ok := call.Call.Value.(*ssa.Builtin); !ok || bi.Name() != "append" {
				continue
			}
			appends++
			guarded := false
			for _, g := range div.Blocks {
				iff, ok := g.Instrs[len(g.Instrs)-1].(*ssa.If)
				if !ok {
					continue
				}
				bo, ok := iff.Cond.(*ssa.BinOp)
				if !ok || bo.Op.String() != "==" {
					continue
				}
				isH := false
				for _, op := range []ssa.Value{bo.X, bo.Y} {
					if cst, ok := op.(*ssa.Const); ok && cst.Value != nil && cst.Int64() == healthy {
						isH = true
					}
				}
				if isH && g.Succs[0].Dominates(b) {
					guarded = true
				}
			}
			if !guarded {
				bad = append(bad, "a server is put on a candidate list without its status being tested for 'healthy'")
			}
		}
	}
	if appends != 2 {
		bad = append(bad, fmt.Sprintf("%d candidate-list appends found (expected primary and backup)", appends))
	}
	n += appends
	// (b) backups only when there is no healthy primary
	c.P.Simulate(fns["enhanceGetAvailableUpstreamList"], SimConfig{Inline: func(*ssa.Function, int) bool { return false }}, func(pr *PathResult) {
		n++
		if len(pr.Results) != 1 {
			return
		}
		r := pr.Results[0]
		empty := false
		known := false
		for _, l := range pr.Conds {
			if l.Atom.Op == "eq" && l.Atom.Args[0].Op == "len" && l.Atom.Args[0].Args[0].Op == "ext" && l.Atom.Args[0].Args[0].Name == "0" {
				known, empty = true, l.Pol
			}
		}
		if !known {
			bad = append(bad, "the candidate choice does not depend on whether a healthy primary exists")
			return
		}
		want := "0"
		if empty {
			want = "1"
		}
		if !(r.Op == "ext" && r.Name == want) {
			bad = append(bad, fmt.Sprintf("with primaries empty=%v the candidate list is %s", empty, prettyTerm(r)))
		}
	})
	// (c) a pick is an element of the candidate list, or nil when it is empty
	for _, name := range []string{"GetAvailableUpstream", "PolicyLeastconn"} {
		c.P.Simulate(fns[name], SimConfig{Inline: func(*ssa.Function, int) bool { return false }}, func(pr *PathResult) {
			n++
			if len(pr.Results) != 1 {
				return
			}
			r := pr.Results[0]
			if r.IsNil() {
				return
			}
			okPick := r.Op == "init" && r.Args[0].Op == "ia" && r.Args[0].Args[0].Op == "call" && r.Args[0].Args[0].Fn == fns["enhanceGetAvailableUpstreamList"]
			if !okPick {
				bad = append(bad, name+" returns "+prettyTerm(r)+", not an element of the candidate list")
			}
		})
	}
	// (d) every policy goes through those two
	for _, name := range []string{"PolicyFirst", "PolicyRandom", "PolicyRoundRobin"} {
		if !callsFunc(fns[name], fns["GetAvailableUpstream"], 0) {
			bad = append(bad, name+" does not pick through GetAvailableUpstream")
		}
	}
	rr := false
	c.P.Simulate(fns["PolicyRoundRobin"], SimConfig{Inline: func(*ssa.Function, int) bool { return false }}, func(pr *PathResult) {
		n++
		for _, e := range pr.Events {
			if e.Kind == "call" && e.Callee == fns["GetAvailableUpstream"] && e.Args[1].Op == "call" && strings.HasSuffix(e.Args[1].Name[:strings.Index(e.Args[1].Name+"#", "#")], ".Inc") {
				rr = true
			}
		}
	})
	if !rr {
		bad = append(bad, "round-robin does not advance its index by one per pick")
	}
	nextOK := true
	c.P.Simulate(fns["Next"], SimConfig{Inline: func(*ssa.Function, int) bool { return false }}, func(pr *PathResult) {
		n++
		if len(pr.Results) != 2 {
			return
		}
		r := pr.Results[0]
		if !(r.Op == "call" && r.Fn != nil && strings.HasPrefix(r.Fn.Name(), "Policy")) {
			nextOK = false
		}
	})
	if !nextOK {
		bad = append(bad, "Next() returns something other than a policy's pick")
	}
	c.check(len(bad) == 0, "upstream-contract", dep, dep, fmt.Sprintf("%d paths/sites of the pinned dependency: candidates are the healthy servers, backups only without a healthy primary, every policy picks an element of that list (nil when empty), round-robin increments per pick", n), strings.Join(uniq(bad), " || "), n)
}

func constantInt(k *types.Const) (int64, bool) {
	s := k.Val().ExactString()
	var v int64
	_, err := fmt.Sscan(s, &v)
	return v, err == nil
}

func containsStr(xs []string, x string) bool {
	for _, y := range xs {
		if y == x {
			return true
		}
	}
	return false
}

// nameSetMiss: t is the negated presence flag of a map lookup keyed by the
// predicate's own parameter, and nothing else.
func nameSetMiss(t *Term) bool {
	if !((t.Op == "un" && t.Name == "!") || t.Op == "not") || len(t.Args) != 1 {
		return false
	}
	x := t.Args[0]
	if x.Op != "ext" || x.Name != "1" || len(x.Args) != 1 || x.Args[0].Op != "lookup" || len(x.Args[0].Args) != 2 {
		return false
	}
	k := stripConvTerm(x.Args[0].Args[1])
	m := x.Args[0].Args[0]
	return k.Op == "sym" && strings.HasPrefix(k.Name, "p:") && (m.Op == "sym" || m.Op == "init" || m.Op == "global" || m.Op == "make")
}
