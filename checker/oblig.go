package main

// Obligations, verdicts, evidence, replay files and the known-findings ledger.

import (
	"encoding/json"
	"fmt"
	"os"
	"path/filepath"
	"sort"
	"strings"
	"time"
)

type Obligation struct {
	Key       string `json:"key"`       // property/rule/construct[/instance]
	Status    string `json:"status"`    // discharged | violated | undecided
	Pos       string `json:"pos"`       // file:line of the construct
	Detail    string `json:"detail"`    // what was shown, or the witness
	Instances int    `json:"instances"` // rule instances examined (paths, sites, cells)
}

type Ctx struct {
	P       *Program
	Prop    string
	Tier    string
	Obls    []*Obligation
	Evals   int
	Notes   []string
	Assume  []string
	Explain string
	Fixture *Program // positive-control package (checker/fixture), loaded on demand
	FixDir  string
	Suffix  string // appended to the construct (e.g. "@386" for the 32-bit pass of the thorough tier)
	byKey   map[string]*Obligation
}

func (c *Ctx) add(status, rule, construct, pos, detail string, n int) *Obligation {
	key := c.Prop + "/" + rule
	if construct != "" {
		key += "/" + construct
	}
	key += c.Suffix
	if c.byKey == nil {
		c.byKey = map[string]*Obligation{}
	}
	if o, ok := c.byKey[key]; ok {
		// merge: the worst status wins, details accumulate
		rank := map[string]int{"discharged": 0, "undecided": 1, "violated": 2}
		if rank[status] > rank[o.Status] {
			o.Status = status
			o.Detail = detail
			o.Pos = pos
		} else if rank[status] == rank[o.Status] && status != "discharged" && !strings.Contains(o.Detail, detail) {
			o.Detail += " | " + detail
		}
		o.Instances += n
		c.Evals += n
		return o
	}
	o := &Obligation{Key: key, Status: status, Pos: pos, Detail: detail, Instances: n}
	c.byKey[key] = o
	c.Obls = append(c.Obls, o)
	c.Evals += n
	return o
}

// fixture returns the positive-control program (nil if it cannot be loaded).
func (c *Ctx) fixture() *Program {
	if c.Fixture == nil && c.FixDir != "" {
		p, err := loadFixture(c.FixDir)
		if err == nil {
			c.Fixture = p
		} else {
			c.Notes = append(c.Notes, "fixture load failed: "+err.Error())
		}
	}
	return c.Fixture
}

func (c *Ctx) ok(rule, construct, pos, detail string, n int) {
	c.add("discharged", rule, construct, pos, detail, n)
}
func (c *Ctx) bad(rule, construct, pos, detail string, n int) {
	c.add("violated", rule, construct, pos, detail, n)
}
func (c *Ctx) undecided(rule, construct, pos, detail string) {
	c.add("undecided", rule, construct, pos, detail, 0)
}

// verdict: ok if cond, else violated.
func (c *Ctx) check(cond bool, rule, construct, pos, okDetail, badDetail string, n int) bool {
	if cond {
		c.ok(rule, construct, pos, okDetail, n)
	} else {
		c.bad(rule, construct, pos, badDetail, n)
	}
	return cond
}

// ------------------------------------------------------------ known findings

type KnownFinding struct {
	Property string `json:"property"`
	Key      string `json:"key"`
	What     string `json:"what"`
	Why      string `json:"why_not_repaired"`
}
type FixedEntry struct {
	Property string `json:"property"`
	Commit   string `json:"commit"`
	What     string `json:"what"`
	Key      string `json:"key,omitempty"`
}
type KnownFile struct {
	Findings []KnownFinding `json:"findings"`
	Fixed    []FixedEntry   `json:"fixed"`
}

func loadKnown(path string) (*KnownFile, error) {
	kf := &KnownFile{}
	data, err := os.ReadFile(path)
	if err != nil {
		if os.IsNotExist(err) {
			return kf, nil
		}
		return nil, err
	}
	if err := json.Unmarshal(data, kf); err != nil {
		return nil, err
	}
	return kf, nil
}

// --------------------------------------------------------------- reporting

type propertyInfo struct {
	explain string
	assume  []string
	run     func(*Ctx)
}

func finish(c *Ctx, verifDir string, known *KnownFile, t0 time.Time, analysed map[string]interface{}) int {
	sort.SliceStable(c.Obls, func(i, j int) bool { return c.Obls[i].Key < c.Obls[j].Key })
	knownKeys := map[string]KnownFinding{}
	for _, k := range known.Findings {
		if k.Property == c.Prop {
			knownKeys[k.Key] = k
		}
	}
	discharged, violations := 0, 0
	var bad []*Obligation
	seenKnown := map[string]bool{}
	for _, o := range c.Obls {
		switch o.Status {
		case "discharged":
			discharged++
		default:
			if k, ok := knownKeys[o.Key]; ok && o.Status == "violated" {
				fmt.Printf("KNOWN-FINDING: property=%s %s [%s]\n", c.Prop, k.What, o.Key)
				seenKnown[o.Key] = true
				continue
			}
			violations++
			bad = append(bad, o)
		}
	}
	stale := []string{}
	for k := range knownKeys {
		if !seenKnown[k] {
			stale = append(stale, k)
		}
	}
	sort.Strings(stale)

	samples := []interface{}{}
	for _, o := range c.Obls {
		samples = append(samples, o)
	}
	distinct := 0
	for _, o := range c.Obls {
		if o.Instances > 0 {
			distinct++
		}
	}
	seed := 0
	fmt.Sscanf(os.Getenv("VERIF_SEED"), "%d", &seed)
	ev := map[string]interface{}{
		"property_id": c.Prop,
		"tier":        c.Tier,
		"seed":        seed,
		"level":       "other",
		"wall_s":      time.Since(t0).Seconds(),
		"violations":  violations,
		"assumptions": c.Assume,
		"coverage": map[string]interface{}{
			"explanation":         c.Explain,
			"obligations":         len(c.Obls),
			"discharged":          discharged,
			"evaluations":         c.Evals,
			"distinct_nontrivial": distinct,
			"rule":                "one obligation per (rule, construct); evaluations = rule instances examined (control-flow paths, call sites, field accesses, table cells); an obligation is non-trivial when it matched at least one instance",
			"samples":             samples,
			"exhaustive":          true,
			"analysed":            analysed,
			"known_findings":      sortedKeys(seenKnownMap(seenKnown)),
			"stale_known":         stale,
			"notes":               c.Notes,
			"checker_cmd":         strings.Join(os.Args, " "),
		},
	}
	os.MkdirAll(filepath.Join(verifDir, "evidence"), 0o755)
	writeJSON(filepath.Join(verifDir, "evidence", c.Prop+".json"), ev)

	fmt.Printf("%s %s: %d obligations, %d discharged, %d known, %d not held; %d instances examined\n",
		c.Prop, c.Tier, len(c.Obls), discharged, len(seenKnown), violations, c.Evals)
	if violations == 0 {
		return 0
	}
	os.MkdirAll(filepath.Join(verifDir, "replay"), 0o755)
	rp := filepath.Join(verifDir, "replay", c.Prop+"-"+c.Tier+".json")
	writeJSON(rp, map[string]interface{}{"property": c.Prop, "tier": c.Tier, "repo": c.P.Repo, "obligations": bad})
	for _, o := range bad {
		fmt.Printf("  %s %s at %s: %s\n", strings.ToUpper(o.Status), o.Key, o.Pos, o.Detail)
	}
	fmt.Printf("VIOLATION property=%s replay=%s\n", c.Prop, rp)
	return 1
}

func seenKnownMap(m map[string]bool) map[string]bool { return m }

func writeJSON(path string, v interface{}) {
	data, err := json.MarshalIndent(v, "", " ")
	if err != nil {
		fmt.Fprintln(os.Stderr, "pikelint: marshal:", err)
		os.Exit(2)
	}
	if err := os.WriteFile(path, append(data, '\n'), 0o644); err != nil {
		fmt.Fprintln(os.Stderr, "pikelint: write:", err)
		os.Exit(2)
	}
}
