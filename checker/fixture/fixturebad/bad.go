// Package fixturebad is NOT part of pike. It is a tiny positive control for the
// rules whose expected number of findings on pike is zero: each construct below
// violates one such rule, and pikelint requires the rule to fire here on every
// run (otherwise the rule is reported as undecided instead of passing vacuously).
package fixturebad

import (
	"bytes"
	"sync"
)

var pool = sync.Pool{New: func() interface{} { return new(bytes.Buffer) }}

// PooledBytes returns memory that is handed back to a pool: pooled-memory-confined must fire.
func PooledBytes(data []byte) []byte {
	buf := pool.Get().(*bytes.Buffer)
	defer pool.Put(buf)
	buf.Reset()
	buf.Write(data)
	return buf.Bytes()
}

type registry struct{ m sync.Map }

type item struct{ n int }

// Unchecked asserts the type of a sync.Map value without comma-ok: registries-typed must fire.
func (r *registry) Unchecked(name string) int {
	v, ok := r.m.Load(name)
	if !ok {
		return 0
	}
	return v.(*item).n
}
