// Package fixturebad is NOT part of pike. It is a tiny positive control for the
// rules whose expected number of findings on pike is zero: each construct below
// violates one such rule, and pikelint requires the rule to fire here on every
// run (otherwise the rule is reported as undecided instead of passing vacuously).
package fixturebad

import (
	"bytes"
	"net"
	"sync"
	"time"
)

var pool = sync.Pool{New: func() interface{} { return new(bytes.Buffer) }}

// PooledBytes returns memory that is handed back to a pool: pooled-memory-confined must fire.
func PooledBytes(data []byte) []byte {
	buf := pool.Get().(*bytes.Buffer)
	defer pool.Put(buf)
	buf.Reset()
	buf.Write(data)
	return buf.Bytes()
}

type registry struct{ m sync.Map }

type item struct{ n int }

// Unchecked asserts the type of a sync.Map value without comma-ok: registries-typed must fire.
func (r *registry) Unchecked(name string) int {
	v, ok := r.m.Load(name)
	if !ok {
		return 0
	}
	return v.(*item).n
}

type codedError struct {
	Code  int
	Extra map[string]interface{}
}

func (e *codedError) Error() string { return "coded" }

// ErrShared is a sentinel handed to every caller.
var ErrShared = &codedError{Code: 1}

// Annotate writes into an error value it received: errors-immutable must fire.
func Annotate(err error, uri string) {
	if ce, ok := err.(*codedError); ok {
		if ce.Extra == nil {
			ce.Extra = map[string]interface{}{}
		}
		ce.Extra["uri"] = uri
	}
}

type shard struct {
	mu sync.Mutex
	n  int
}

type shards struct{ list []shard }

// CopyShard hands out a copy of a shard, lock included: locks-not-copied must fire.
func (s *shards) CopyShard(i int) *shard {
	sh := s.list[i]
	return &sh
}

type closer struct{ n int }

func (c *closer) Close() {}

// CloseAll starts one goroutine per element that all see the last one (go 1.16): loop-closures must fire.
func CloseAll(items []interface{}) {
	for _, item := range items {
		go func() {
			c, _ := item.(*closer)
			if c != nil {
				c.Close()
			}
		}()
	}
}

// DialWithDeadline fixes an absolute deadline in a long-lived dialer:
// dialer-no-absolute-deadline must fire.
func DialWithDeadline() *net.Dialer {
	return &net.Dialer{Deadline: time.Now().Add(30 * time.Second), KeepAlive: 30 * time.Second}
}
