module github.com/vicanso/pike

go 1.16
