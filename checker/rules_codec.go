package main

// Rules over package compress: stream finalisation order, level clamping,
// decoder error propagation, the lz4 destination bound.

import (
	"fmt"
	"math/big"
	"strings"

	"golang.org/x/tools/go/ssa"
)

func pikeCallersOf(p *Program, full string) []*ssa.Function {
	out := []*ssa.Function{}
	for _, f := range p.allFuncs {
		found := false
		for _, b := range f.Blocks {
			for _, in := range b.Instrs {
				if ci, ok := in.(ssa.CallInstruction); ok {
					if sc := ci.Common().StaticCallee(); sc != nil && sc.String() == full {
						found = true
					}
				}
			}
		}
		if found {
			out = append(out, f)
		}
	}
	return out
}

// ruleEncoders: for every function that creates a compressing writer over a
// buffer: the level reaching the library is within the codec's range for every
// int; the writer is closed on every successful path; the buffer is not read
// before the stream is finalised.
func ruleEncoders(c *Ctx) {
	type codec struct {
		ctor   string
		lo, hi int64
		lvlArg int
	}
	codecs := []codec{
		{"compress/gzip.NewWriterLevel", -2, 9, 1},
		{"github.com/andybalholm/brotli.NewWriterLevel", 0, 11, 1},
	}
	total := 0
	for _, cd := range codecs {
		fns := pikeCallersOf(c.P, cd.ctor)
		if len(fns) == 0 {
			c.undecided("close-before-read", cd.ctor, "-", "no pike function creates this writer")
			continue
		}
		for _, fn := range fns {
			total++
			name, pos := funcName(fn), c.P.pos(fn.Pos())
			n := 0
			lvl, fin, whole := []string{}, []string{}, []string{}
			seenDest := map[string]bool{}
			sim := c.P.Simulate(fn, SimConfig{}, func(pr *PathResult) {
				n++
				where := "path [" + condString(pr.Conds) + "]"
				var W, buf *Term
				ctorAt := -1
				for i, e := range pr.Events {
					if e.Kind == "call" && e.Callee != nil && e.Callee.String() == cd.ctor {
						ctorAt = i
						buf = e.Args[0].strip()
						W = e.Result
						if e.Callee.Signature.Results().Len() == 2 {
							W = ext(e.Result, 0)
						}
						iv := pr.Facts.Interval(e.Args[cd.lvlArg])
						want := ivOf(cd.lo, cd.hi)
						if !iv.Within(want) {
							lvl = append(lvl, fmt.Sprintf("level %s reaches %s with range %s, outside [%d,%d]: the library rejects it (gzip) or misbehaves, so the encoder fails instead of falling back to the default, on %s", prettyTerm(e.Args[cd.lvlArg]), cd.ctor, iv, cd.lo, cd.hi, where))
						}
					}
				}
				if ctorAt < 0 || W == nil {
					return
				}
				if buf != nil && buf.Type != nil && !strings.HasSuffix(buf.Type.String(), "bytes.Buffer") && !seenDest[buf.Type.String()] {
					seenDest[buf.Type.String()] = true
					whole = append(whole, fmt.Sprintf("the compressing writer writes into a %s, not a growing bytes.Buffer: a destination that can run full reports it through the writer's Close, whose error the encoder discards, so a short stream is returned as a success", buf.Type.String()))
				}
				if pr.Exit != "return" {
					return
				}
				// success path?
				last := pr.Results[len(pr.Results)-1]
				if !last.IsNil() {
					return
				}
				closedAt, closedDeferred := -1, false
				for i, e := range pr.Events {
					if i > ctorAt && (e.Kind == "call" || e.Kind == "invoke") && e.CalleeName() != "" && strings.HasSuffix(e.CalleeName(), ").Close") && len(e.Args) > 0 && e.Args[0].strip().Key() == W.Key() {
						if closedAt < 0 {
							closedAt, closedDeferred = i, e.Deferred
						}
					}
				}
				if closedAt < 0 {
					fin = append(fin, "the writer is never closed on a successful path: the stream lacks its trailer and cannot be decoded, on "+where)
					return
				}
				// the whole input, once: the writer is fed the function's input parameter as it stands
				writes := 0
				for i, e := range pr.Events {
					if i > ctorAt && (e.Kind == "call" || e.Kind == "invoke") && strings.HasSuffix(e.CalleeName(), ").Write") && len(e.Args) > 1 && e.Args[0].strip().Key() == W.Key() {
						writes++
						a := stripConvTerm(e.Args[1].strip())
						if !(a.Op == "sym" && strings.HasPrefix(a.Name, "p:")) {
							whole = append(whole, fmt.Sprintf("the writer is fed %s, not the input as it stands (pieces cut by computed offsets can skip or repeat bytes; the stream still decodes without error), on %s", prettyTerm(a), where))
						}
					}
				}
				if writes != 1 {
					whole = append(whole, fmt.Sprintf("the input is written %d times on a successful path (once is the whole input), on %s", writes, where))
				}
				for i, e := range pr.Events {
					if i > ctorAt && e.Kind == "call" && e.Callee != nil && strings.HasPrefix(e.Callee.String(), "(*bytes.Buffer).") && len(e.Args) > 0 && e.Args[0].strip().Key() == buf.Key() {
						m := e.Callee.Name()
						if m == "Bytes" || m == "String" || m == "Len" || m == "WriteTo" || m == "Read" || m == "Next" {
							if i < closedAt || closedDeferred {
								fin = append(fin, fmt.Sprintf("the buffer is read (%s) before the writer is closed%s: the returned bytes are an unterminated stream, on %s", m, map[bool]string{true: " (Close is deferred and runs after the read)", false: ""}[closedDeferred], where))
							}
						}
					}
				}
			})
			if sim.Overflow || n == 0 {
				c.undecided("close-before-read", name, pos, "could not enumerate paths")
				continue
			}
			c.check(len(lvl) == 0, "level-range", name, pos, fmt.Sprintf("%d paths: for every int level the value reaching %s lies in [%d,%d]", n, cd.ctor, cd.lo, cd.hi), strings.Join(uniq(lvl), " || "), n)
			c.check(len(whole) == 0, "encoder-whole-input", name, pos, fmt.Sprintf("%d paths: on every successful path the compressing writer receives the input parameter itself, exactly once", n), strings.Join(uniq(whole), " || "), n)
			c.check(len(fin) == 0, "close-before-read", name, pos, fmt.Sprintf("%d paths: the writer is closed on every successful path and the buffer is not read before that", n), strings.Join(uniq(fin), " || "), n)
		}
	}
	_ = total
}

// ruleLZ4Bound: a short-buffer failure of lz4.UncompressBlock is final only when
// the destination already had the format's maximum expansion (255x).
func ruleLZ4Bound(c *Ctx) {
	fns := pikeCallersOf(c.P, "github.com/pierrec/lz4.UncompressBlock")
	if len(fns) == 0 {
		c.undecided("lz4-bound", "lz4.UncompressBlock", "-", "no caller found")
		return
	}
	for _, fn := range fns {
		name, pos := funcName(fn), c.P.pos(fn.Pos())
		n := 0
		giveUps := 0
		bad := []string{}
		sim := c.P.Simulate(fn, SimConfig{}, func(pr *PathResult) {
			n++
			where := "path [" + condString(pr.Conds) + "]"
			if pr.Exit != "return" || len(pr.Results) != 2 || pr.Results[1].IsNil() {
				return
			}
			var last *Event
			for _, e := range pr.Events {
				if e.Kind == "call" && e.Callee != nil && e.Callee.String() == "github.com/pierrec/lz4.UncompressBlock" {
					last = e
				}
			}
			if last == nil {
				return
			}
			errT := ext(last.Result, 1)
			// known not to be the short-buffer error?
			for _, l := range pr.Conds {
				if l.Atom.Op == "eq" && !l.Pol && l.Atom.Args[0].Key() == errT.Key() && strings.Contains(l.Atom.Args[1].Key(), "ErrInvalidSourceShortBuffer") {
					return
				}
			}
			src, dst := last.Args[0], last.Args[1]
			var L *Term
			if dst.Op == "make" && strings.HasPrefix(dst.Name, "slice:") {
				L = dst.Args[0]
			}
			if L == nil {
				bad = append(bad, "the destination "+prettyTerm(dst)+" is not a buffer sized by this function on "+where)
				return
			}
			enough := func(t *Term) bool {
				co, atoms, k, _ := linearize(t)
				if k < 0 || len(co) != 1 {
					return false
				}
				for key, v := range co {
					a := atoms[key]
					if a.Op == "len" && a.Args[0].Key() == src.Key() && v >= 255 {
						return true
					}
				}
				return false
			}
			giveUps++
			ok := enough(L)
			for _, l := range pr.Conds {
				if l.Atom.Op != "lt" {
					continue
				}
				x, y := l.Atom.Args[0], l.Atom.Args[1]
				if !l.Pol && sameLinear(x, L) && enough(y) { // !(L < M)
					ok = true
				}
				if l.Pol && sameLinear(y, L) && enough(x) { // M < L
					ok = true
				}
			}
			if !ok {
				bad = append(bad, fmt.Sprintf("gives up with the short-buffer error after trying a destination of %s bytes, without that being >= 255 x len(input) (valid blocks with a higher ratio are rejected) on %s", prettyTerm(L), where))
			}
		})
		if sim.Overflow || n == 0 {
			c.undecided("lz4-bound", name, pos, "could not enumerate paths")
			continue
		}
		if giveUps == 0 && hasLoop(fn) {
			bad = append(bad, "no feasible path leaves the retry loop while the short-buffer error persists: a malformed block is retried forever (the decoder hangs)")
		}
		c.check(len(bad) == 0, "lz4-bound", name, pos, fmt.Sprintf("%d paths: a short-buffer failure is final only with a destination >= 255 x len(input)", n), strings.Join(uniq(bad), " || "), n)
	}
}

// ruleDecoderErrors: in package compress the error of every codec library call
// is returned to the caller.
func ruleDecoderErrors(c *Ctx) {
	libs := []string{"compress/gzip.NewReader", "io/ioutil.ReadAll", "io.ReadAll", "github.com/pierrec/lz4.UncompressBlock",
		"github.com/golang/snappy.Decode", "(*github.com/klauspost/compress/zstd.Decoder).DecodeAll", "github.com/klauspost/compress/zstd.NewReader",
		"compress/gzip.NewWriterLevel"}
	isLib := func(s string) bool {
		for _, l := range libs {
			if s == l {
				return true
			}
		}
		return false
	}
	n := 0
	for _, fn := range c.P.allFuncs {
		if !inPkg(fn, "compress") || fn.Signature.Results().Len() == 0 {
			continue
		}
		uses := false
		for _, b := range fn.Blocks {
			for _, in := range b.Instrs {
				if ci, ok := in.(ssa.CallInstruction); ok {
					if sc := ci.Common().StaticCallee(); sc != nil && isLib(sc.String()) {
						uses = true
					}
				}
			}
		}
		if !uses {
			continue
		}
		n++
		name, pos := funcName(fn), c.P.pos(fn.Pos())
		bad := []string{}
		np := 0
		sim := c.P.Simulate(fn, SimConfig{}, func(pr *PathResult) {
			np++
			if pr.Exit != "return" {
				return
			}
			res := pr.Results[len(pr.Results)-1]
			for i, e := range pr.Events {
				if e.Kind != "call" || e.Callee == nil || !isLib(e.Callee.String()) || e.Result == nil {
					continue
				}
				retried := false
				for _, e2 := range pr.Events[i+1:] {
					if e2.Kind == "call" && e2.Callee == e.Callee {
						retried = true // a failed attempt that is repeated; the last attempt's error is the one that matters
					}
				}
				if retried {
					continue
				}
				nres := e.Callee.Signature.Results().Len()
				errT := e.Result
				if nres > 1 {
					errT = ext(e.Result, nres-1)
				}
				if k, isNil := pr.Facts.Decide(eqTerm(errT, nilTerm(nil))); k && !isNil {
					if res.IsNil() {
						bad = append(bad, "the error of "+e.Callee.String()+" is dropped on path ["+condString(pr.Conds)+"]")
					}
				} else if !k {
					// error not tested: it must be what is returned
					if res.Key() != errT.Key() {
						bad = append(bad, "the error of "+e.Callee.String()+" is neither tested nor returned on path ["+condString(pr.Conds)+"]")
					}
				}
			}
		})
		if sim.Overflow || np == 0 {
			c.undecided("decoder-errors-propagate", name, pos, "could not enumerate paths")
			continue
		}
		c.check(len(bad) == 0, "decoder-errors-propagate", name, pos, fmt.Sprintf("%d paths: every codec library error is returned", np), strings.Join(uniq(bad), " || "), np)
	}
	if n < 5 {
		c.undecided("decoder-errors-propagate", "compress", "-", fmt.Sprintf("only %d codec functions found", n))
	}
}

var _ = big.NewInt

// ruleLevelApplied: on every successful path of the functions the service's
// Gzip / Brotli methods delegate to, a compressing writer is created in that
// very call with the level argument (or the default constant it is clamped to):
// a writer recycled from elsewhere keeps the level it was first created with.
func ruleLevelApplied(c *Ctx) {
	ctors := map[string]string{"Gzip": "compress/gzip.NewWriterLevel", "Brotli": "github.com/andybalholm/brotli.NewWriterLevel"}
	for m, ctor := range ctors {
		mf := c.P.Method("compress", "compressSrv", m)
		if mf == nil {
			c.undecided("level-applied", m, "-", "method not found")
			continue
		}
		var root *ssa.Function
		for _, b := range mf.Blocks {
			for _, in := range b.Instrs {
				if ci, ok := in.(ssa.CallInstruction); ok {
					if sc := ci.Common().StaticCallee(); sc != nil && inPkg(sc, "compress") && sc.Name() != "GetLevel" && sc.Signature.Params().Len() == 2 {
						root = sc
					}
				}
			}
		}
		if root == nil {
			c.undecided("level-applied", funcName(mf), c.P.pos(mf.Pos()), "the encoder function the method delegates to was not found")
			continue
		}
		name, pos := funcName(root), c.P.pos(root.Pos())
		var lvlP *Term
		n, succ := 0, 0
		bad := []string{}
		sim := c.P.Simulate(root, SimConfig{
			Inline: func(callee *ssa.Function, d int) bool { return inPkg(callee, "compress") && d < 4 },
			Init: func(s *Sim, st *State, params []*Term) {
				for i, prm := range root.Params {
					if isIntType(prm.Type()) {
						lvlP = params[i]
					}
				}
			},
		}, func(pr *PathResult) {
			n++
			if pr.Exit != "return" || len(pr.Results) != 2 {
				return
			}
			if k, isNil := pr.Facts.Decide(eqTerm(pr.Results[1], nilTerm(nil))); !(pr.Results[1].IsNil() || (k && isNil)) {
				return
			}
			succ++
			created := 0
			for _, e := range pr.Events {
				if e.Kind == "call" && e.Callee != nil && e.Callee.String() == ctor {
					created++
					lv := e.Args[1]
					if !(lv.IsConst() || (lvlP != nil && lv.Key() == lvlP.Key())) {
						bad = append(bad, "the writer is created with level "+prettyTerm(lv)+", not the level argument or its default, on path ["+condString(pr.Conds)+"]")
					}
				}
			}
			if created != 1 {
				bad = append(bad, fmt.Sprintf("a successful compression creates %d writers with the requested level (a pooled or shared writer keeps the level it was created with, so the configured / best-compression level is silently ignored) on path [%s]", created, condString(pr.Conds)))
			}
		})
		if sim.Overflow || succ == 0 {
			c.undecided("level-applied", name, pos, "idiom not recognised")
			continue
		}
		c.check(len(bad) == 0, "level-applied", name, pos, fmt.Sprintf("%d paths: every successful compression creates its writer with the level argument (or its clamped default)", n), strings.Join(uniq(bad), " || "), n)
	}
}

// ruleDecodersReadAll: the stream decoders return everything the codec's reader
// yields (ReadAll over a reader on the whole input) and do not reconfigure the
// reader.
func ruleDecodersReadAll(c *Ctx) {
	readers := []string{"compress/gzip.NewReader", "github.com/andybalholm/brotli.NewReader"}
	total := 0
	for _, rd := range readers {
		for _, fn := range pikeCallersOf(c.P, rd) {
			total++
			name, pos := funcName(fn), c.P.pos(fn.Pos())
			n, succ := 0, 0
			bad := []string{}
			c.P.Simulate(fn, SimConfig{}, func(pr *PathResult) {
				n++
				if pr.Exit != "return" || len(pr.Results) != 2 {
					return
				}
				var R *Term
				for _, e := range pr.Events {
					if e.Kind == "call" && e.Callee != nil && e.Callee.String() == rd {
						R = e.Result
						if e.Callee.Signature.Results().Len() == 2 {
							R = ext(e.Result, 0)
						}
						src := e.Args[0].strip()
						if !(src.Op == "call" && src.Fn != nil && (src.Fn.String() == "bytes.NewBuffer" || src.Fn.String() == "bytes.NewReader") && src.Args[0].Op == "sym") {
							bad = append(bad, "the codec reader is opened on "+prettyTerm(src)+", not on the whole input")
						}
					}
				}
				if R == nil {
					return
				}
				for _, e := range pr.Events {
					if (e.Kind == "call" || e.Kind == "invoke") && len(e.Args) > 0 && e.Args[0].strip().Key() == R.Key() {
						nm := e.CalleeName()
						if !(strings.HasSuffix(nm, ").Close") || strings.HasSuffix(nm, ".ReadAll")) {
							bad = append(bad, "the codec reader is reconfigured / used through "+nm+" (e.g. Multistream(false) or Reset silently drops later members or keeps stale input)")
						}
					}
				}
				res := pr.Results[0]
				if res.IsNil() {
					return
				}
				succ++
				call, ok := isExtOfCallNamed(res, 0, "ReadAll")
				if !ok || call.Args[0].strip().Key() != R.Key() {
					bad = append(bad, "the decoded bytes are "+prettyTerm(res)+", not ReadAll of the codec reader (a fixed-size read truncates multi-member or longer streams)")
				} else if pr.Results[1].Key() != ext(call, 1).Key() {
					// `return data, nil` after `if err != nil { return data, err }` is the same thing
					k, isNil := pr.Facts.Decide(eqTerm(ext(call, 1), nilTerm(nil)))
					if !(pr.Results[1].IsNil() && k && isNil) {
						bad = append(bad, "ReadAll's error is not returned")
					}
				}
			})
			if succ == 0 {
				c.undecided("decoder-reads-all", name, pos, "idiom not recognised")
				continue
			}
			c.check(len(bad) == 0, "decoder-reads-all", name, pos, fmt.Sprintf("%d paths: ReadAll over the codec reader opened on the whole input; the reader is only read and closed", n), strings.Join(uniq(bad), " || "), n)
		}
	}
	if total < 2 {
		c.undecided("decoder-reads-all", "compress", "-", "gzip/brotli stream decoders not found")
	}
}

// hasLoop: the function's control-flow graph has a cycle.
func hasLoop(fn *ssa.Function) bool {
	for _, b := range fn.Blocks {
		if cycleOf(b) != nil {
			return true
		}
	}
	return false
}
