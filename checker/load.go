package main

// Loading: go/packages over /repo's working tree, SSA construction, and the
// lookup helpers the rules use to resolve their anchors through the type-checked
// program (never by text or position).

import (
	"fmt"
	"go/token"
	"go/types"
	"os"
	"sort"
	"strings"

	"golang.org/x/tools/go/packages"
	"golang.org/x/tools/go/ssa"
	"golang.org/x/tools/go/ssa/ssautil"
)

const pikeMod = "github.com/vicanso/pike"

// the packages that make up pike's build (go list ./... on the pinned tree).
// A run that does not see all of them type-checked is not a verdict.
var requiredPkgs = []string{
	"", "app", "asset", "cache", "compress", "config", "location", "log",
	"schedule", "server", "store", "upstream", "util",
}

type Program struct {
	Repo     string
	Fset     *token.FileSet
	Pkgs     []*packages.Package
	Prog     *ssa.Program
	SSAPkgs  map[string]*ssa.Package // by import path
	TypePkgs map[string]*types.Package
	Whole    bool // whole-program SSA (thorough)
	GOARCH   string
	IntBits  int
	allFuncs []*ssa.Function // functions (incl. anonymous) of pike packages
}

// loadFixture loads the positive-control package shipped with the checker.
func loadFixture(dir string) (*Program, error) {
	return loadProgramOpt(dir, false, "", true)
}

func loadProgram(repo string, whole bool, goarch string) (*Program, error) {
	return loadProgramOpt(repo, whole, goarch, false)
}

func loadProgramOpt(repo string, whole bool, goarch string, fixture bool) (*Program, error) {
	mode := packages.NeedName | packages.NeedFiles | packages.NeedCompiledGoFiles |
		packages.NeedImports | packages.NeedTypes | packages.NeedTypesSizes |
		packages.NeedSyntax | packages.NeedTypesInfo | packages.NeedModule
	if whole {
		mode |= packages.NeedDeps
	}
	env := []string{}
	for _, e := range os.Environ() {
		if strings.HasPrefix(e, "GOWORK=") || strings.HasPrefix(e, "GOFLAGS=") ||
			strings.HasPrefix(e, "GOPROXY=") || strings.HasPrefix(e, "GOSUMDB=") ||
			strings.HasPrefix(e, "GOTOOLCHAIN=") || strings.HasPrefix(e, "GOARCH=") ||
			strings.HasPrefix(e, "CGO_ENABLED=") {
			continue
		}
		env = append(env, e)
	}
	env = append(env, "GOFLAGS=-mod=mod", "GOPROXY=off", "GOSUMDB=off", "GOTOOLCHAIN=local", "GOWORK=off")
	intBits := 64
	if goarch != "" {
		env = append(env, "GOARCH="+goarch, "CGO_ENABLED=0")
		if goarch == "386" || goarch == "arm" {
			intBits = 32
		}
	}
	cfg := &packages.Config{
		Mode:  mode,
		Dir:   repo,
		Env:   env,
		Tests: false,
	}
	pkgs, err := packages.Load(cfg, "./...")
	if err != nil {
		return nil, fmt.Errorf("packages.Load: %v", err)
	}
	if len(pkgs) == 0 {
		return nil, fmt.Errorf("no packages loaded from %s", repo)
	}
	nerr := 0
	packages.Visit(pkgs, nil, func(p *packages.Package) {
		if !strings.HasPrefix(p.PkgPath, pikeMod) {
			return
		}
		for _, e := range p.Errors {
			fmt.Fprintf(os.Stderr, "load error: %s: %v\n", p.PkgPath, e)
			nerr++
		}
	})
	if nerr > 0 {
		return nil, fmt.Errorf("%d load/type errors in pike packages", nerr)
	}
	p := &Program{Repo: repo, Pkgs: pkgs, Whole: whole, GOARCH: goarch, IntBits: intBits,
		SSAPkgs: map[string]*ssa.Package{}, TypePkgs: map[string]*types.Package{}}
	if len(pkgs) > 0 {
		p.Fset = pkgs[0].Fset
	}
	bmode := ssa.InstantiateGenerics
	var prog *ssa.Program
	var spkgs []*ssa.Package
	if whole {
		prog, spkgs = ssautil.AllPackages(pkgs, bmode)
	} else {
		prog, spkgs = ssautil.Packages(pkgs, bmode)
	}
	prog.Build()
	p.Prog = prog
	for i, sp := range spkgs {
		if sp == nil {
			return nil, fmt.Errorf("no SSA for package %s", pkgs[i].PkgPath)
		}
		p.SSAPkgs[pkgs[i].PkgPath] = sp
		p.TypePkgs[pkgs[i].PkgPath] = pkgs[i].Types
	}
	for _, r := range requiredPkgs {
		if fixture {
			break
		}
		path := pikeMod
		if r != "" {
			path += "/" + r
		}
		if p.SSAPkgs[path] == nil {
			return nil, fmt.Errorf("required package %s was not loaded", path)
		}
	}
	// collect all functions of pike packages, including anonymous ones and methods
	seen := map[*ssa.Function]bool{}
	var add func(f *ssa.Function)
	add = func(f *ssa.Function) {
		if f == nil || seen[f] {
			return
		}
		seen[f] = true
		if f.Blocks != nil {
			p.allFuncs = append(p.allFuncs, f)
		}
		for _, a := range f.AnonFuncs {
			add(a)
		}
	}
	for path, sp := range p.SSAPkgs {
		if !strings.HasPrefix(path, pikeMod) {
			continue
		}
		for _, m := range sp.Members {
			switch m := m.(type) {
			case *ssa.Function:
				add(m)
			case *ssa.Type:
				for _, t := range []types.Type{m.Type(), types.NewPointer(m.Type())} {
					ms := prog.MethodSets.MethodSet(t)
					for i := 0; i < ms.Len(); i++ {
						add(prog.MethodValue(ms.At(i)))
					}
				}
			}
		}
	}
	sort.Slice(p.allFuncs, func(i, j int) bool { return p.allFuncs[i].Pos() < p.allFuncs[j].Pos() })
	return p, nil
}

// PikeFuncs returns every function with a body that belongs to a pike package
// (methods and function literals included), in source order.
func (p *Program) PikeFuncs() []*ssa.Function {
	out := []*ssa.Function{}
	for _, f := range p.allFuncs {
		if f.Pkg != nil && strings.HasPrefix(f.Pkg.Pkg.Path(), pikeMod) && f.Synthetic == "" {
			out = append(out, f)
		}
	}
	return out
}

func isPikeFunc(f *ssa.Function) bool {
	if f == nil {
		return false
	}
	pk := f.Pkg
	if pk == nil && f.Parent() != nil {
		pk = f.Parent().Pkg
	}
	if pk == nil {
		// instantiations / wrappers: look at the object
		if f.Object() != nil && f.Object().Pkg() != nil {
			return strings.HasPrefix(f.Object().Pkg().Path(), pikeMod)
		}
		return false
	}
	return strings.HasPrefix(pk.Pkg.Path(), pikeMod)
}

func pkgPath(short string) string {
	if short == "" || short == "main" {
		return pikeMod
	}
	return pikeMod + "/" + short
}

// Func resolves a package-level function: Func("server", "getCacheMaxAge").
func (p *Program) Func(pkg, name string) *ssa.Function {
	sp := p.SSAPkgs[pkgPath(pkg)]
	if sp == nil {
		return nil
	}
	return sp.Func(name)
}

// Method resolves a method on a named type of a pike package by receiver type
// name and method name, pointer or value receiver.
func (p *Program) Method(pkg, typ, name string) *ssa.Function {
	sp := p.SSAPkgs[pkgPath(pkg)]
	if sp == nil {
		return nil
	}
	tm, ok := sp.Members[typ].(*ssa.Type)
	if !ok {
		return nil
	}
	for _, t := range []types.Type{types.NewPointer(tm.Type()), tm.Type()} {
		ms := p.Prog.MethodSets.MethodSet(t)
		for i := 0; i < ms.Len(); i++ {
			if ms.At(i).Obj().Name() == name {
				f := p.Prog.MethodValue(ms.At(i))
				if f != nil && f.Synthetic != "" {
					// promoted / wrapper: find the declared function
					if fn, ok := ms.At(i).Obj().(*types.Func); ok {
						if d := p.Prog.FuncValue(fn); d != nil {
							return d
						}
					}
				}
				return f
			}
		}
	}
	return nil
}

// NamedType resolves a named type of a pike package.
func (p *Program) NamedType(pkg, name string) *types.Named {
	tp := p.TypePkgs[pkgPath(pkg)]
	if tp == nil {
		return nil
	}
	o := tp.Scope().Lookup(name)
	if o == nil {
		return nil
	}
	n, _ := o.Type().(*types.Named)
	return n
}

// StructField resolves a field object of a named struct type.
func (p *Program) StructField(pkg, typ, field string) *types.Var {
	n := p.NamedType(pkg, typ)
	if n == nil {
		return nil
	}
	st, ok := n.Underlying().(*types.Struct)
	if !ok {
		return nil
	}
	for i := 0; i < st.NumFields(); i++ {
		if st.Field(i).Name() == field {
			return st.Field(i)
		}
	}
	return nil
}

// ConstVal returns the constant object of a pike package.
func (p *Program) Const(pkg, name string) *types.Const {
	tp := p.TypePkgs[pkgPath(pkg)]
	if tp == nil {
		return nil
	}
	c, _ := tp.Scope().Lookup(name).(*types.Const)
	return c
}

// Global returns a package-level variable.
func (p *Program) Global(pkg, name string) *ssa.Global {
	sp := p.SSAPkgs[pkgPath(pkg)]
	if sp == nil {
		return nil
	}
	g, _ := sp.Members[name].(*ssa.Global)
	return g
}

// Closures returns the function literals directly nested in f, in source order.
func closures(f *ssa.Function) []*ssa.Function {
	if f == nil {
		return nil
	}
	out := append([]*ssa.Function{}, f.AnonFuncs...)
	sort.Slice(out, func(i, j int) bool { return out[i].Pos() < out[j].Pos() })
	return out
}

// ReturnedClosure returns the function literal that f returns (the unique
// MakeClosure / function value flowing to a Return), e.g. the handler built by
// server.NewCache.
func returnedClosure(f *ssa.Function) *ssa.Function {
	if f == nil {
		return nil
	}
	var found *ssa.Function
	n := 0
	for _, b := range f.Blocks {
		for _, in := range b.Instrs {
			r, ok := in.(*ssa.Return)
			if !ok {
				continue
			}
			for _, v := range r.Results {
				v = stripConv(v)
				switch v := v.(type) {
				case *ssa.MakeClosure:
					if fn, ok := v.Fn.(*ssa.Function); ok {
						if found != fn {
							n++
						}
						found = fn
					}
				case *ssa.Function:
					if found != v {
						n++
					}
					found = v
				}
			}
		}
	}
	if n != 1 {
		return nil
	}
	return found
}

func stripConv(v ssa.Value) ssa.Value {
	for {
		switch x := v.(type) {
		case *ssa.ChangeType:
			v = x.X
		case *ssa.MakeInterface:
			v = x.X
		case *ssa.ChangeInterface:
			v = x.X
		default:
			return v
		}
	}
}

func (p *Program) pos(pos token.Pos) string {
	if !pos.IsValid() {
		return "-"
	}
	ps := p.Fset.Position(pos)
	f := ps.Filename
	if strings.HasPrefix(f, p.Repo+"/") {
		f = f[len(p.Repo)+1:]
	}
	return fmt.Sprintf("%s:%d", f, ps.Line)
}

func funcName(f *ssa.Function) string {
	if f == nil {
		return "<nil>"
	}
	s := f.String()
	s = strings.ReplaceAll(s, pikeMod+"/", "")
	s = strings.ReplaceAll(s, pikeMod+".", "main.")
	return s
}
