#!/bin/bash
# Builds bin/pikelint offline from /verif/checker (golang.org/x/tools v0.29.0 is in
# the module cache) and warms the Go build cache for /repo's dependencies so that
# the first check does not pay for compiling export data.
set -eu
cd "$(dirname "$0")"
export GOFLAGS=-mod=mod GOPROXY=off GOSUMDB=off GOTOOLCHAIN=local
unset GOWORK
mkdir -p bin evidence replay
(cd checker && go build -o ../bin/pikelint .)
(cd "${PIKE_REPO:-/repo}" && go build ./... >/dev/null 2>&1) || true
echo "pikelint built"
