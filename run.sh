#!/bin/bash
# usage: ./run.sh <property-id> <quick|thorough>     run one check against /repo
#        ./run.sh --replay <replay.json>             re-run the obligations of a replay file
# Exit 0: property held on everything analysed; exit 1 + "VIOLATION property=<id> replay=<path>":
# an obligation is violated or undecided; exit 2: the checker could not run (no verdict).
set -u
cd "$(dirname "$0")"
export GOFLAGS=-mod=mod GOPROXY=off GOSUMDB=off GOTOOLCHAIN=local
unset GOWORK
REPO="${PIKE_REPO:-/repo}"
if [ ! -x bin/pikelint ] || [ -n "$(find checker -name '*.go' -newer bin/pikelint 2>/dev/null | head -1)" ]; then
  ./setup.sh >/dev/null || { echo "setup failed"; exit 2; }
fi
if [ "${1:-}" = "--replay" ]; then
  f="$2"
  id=$(jq -r .property "$f"); tier=$(jq -r .tier "$f")
  exec bin/pikelint -repo "$REPO" -verif "$PWD" -property "$id" -tier "$tier"
fi
id="$1"; tier="${2:-${VERIF_TIER:-quick}}"
exec bin/pikelint -repo "$REPO" -verif "$PWD" -property "$id" -tier "$tier"
